(* FiniteReplayer / ValidReplayer refine the list specifications of Fifo.v. *)
From GoSse Require Import Base Fields Queue QueueProofs Replayers Fifo.
From GoSse.Gen Require Import Params.
From Coq Require Import DecimalN DecimalPos DecimalFacts.
Local Open Scope nat_scope.

Ltac cases :=
  repeat match goal with
         | |- context [?a <? ?b] => destruct (Nat.ltb_spec a b)
         | |- context [?a <=? ?b] => destruct (Nat.leb_spec a b)
         | |- context [?a =? ?b] => destruct (Nat.eqb_spec a b)
         end.
Ltac hcases H :=
  repeat match type of H with
         | context [?a <? ?b] => destruct (Nat.ltb_spec a b)
         | context [?a <=? ?b] => destruct (Nat.leb_spec a b)
         | context [?a =? ?b] => destruct (Nat.eqb_spec a b)
         end.

(* ---- each ---------------------------------------------------------------- *)
Lemma map_seq_shift (f : nat -> nat) n k s :
  (forall j, j < n -> f (k + j) = s + j) -> map f (seq k n) = seq s n.
Proof.
  revert k s; induction n as [|n IH]; intros k s H; cbn; [reflexivity|].
  f_equal.
  - specialize (H 0 ltac:(lia)). now rewrite !Nat.add_0_r in H.
  - apply IH. intros j Hj. specialize (H (S j) ltac:(lia)). rewrite <- !plus_n_Sm in H. exact H.
Qed.

Lemma each_idx_spec {T} (q : queue T) k :
  shape q -> k < count q ->
  each_idx q (idx q k) = map (idx q) (seq k (count q - k)).
Proof.
  intros Hs Hk. pose proof Hs as [Hcl [Hz|(Hh & Ht & Htl)]]; [lia|].
  assert (Htidx : tail q = if head q + count q <? qlen q then head q + count q else head q + count q - qlen q)
    by exact Htl.
  unfold each_idx.
  destruct (Nat.ltb_spec (idx q k) (tail q)) as [Hlt|Hge].
  - symmetry. replace (tail q - idx q k) with (count q - k) by (unfold idx in *; hcases Htidx; cases; hcases Hlt; lia).
    apply map_seq_shift. intros j Hj. unfold idx in *. hcases Htidx; hcases Hlt; cases; lia.
  - replace (count q - k) with ((qlen q - idx q k) + tail q) by (unfold idx in *; hcases Htidx; hcases Hge; cases; lia).
    rewrite seq_app, map_app. f_equal; symmetry; apply map_seq_shift; intros j Hj;
      unfold idx in *; hcases Htidx; hcases Hge; cases; lia.
Qed.

Lemma skipn_nth_error {A} (l : list A) k v : nth_error l k = Some v -> skipn k l = v :: skipn (S k) l.
Proof.
  revert k; induction l as [|x l IH]; intros [|k] H; cbn in *; try discriminate.
  - now injection H as ->.
  - now apply IH.
Qed.

Lemma slots_seq {T} (q : queue T) l n k :
  R q l -> k + n = count q ->
  map (fun j => slot q (idx q j)) (seq k n) = map Some (skipn k l).
Proof.
  intros HR. revert k; induction n as [|n IH]; intros k Hk; cbn.
  - destruct HR as (_ & Hc & _). rewrite skipn_all2 by lia. reflexivity.
  - destruct (R_slot q l k HR ltac:(lia)) as (v & Hv & Hsl).
    rewrite Hsl, (skipn_nth_error l k v Hv). cbn. f_equal. apply IH. lia.
Qed.

Lemma each_slots {T} (q : queue T) l k :
  R q l -> k < count q ->
  map (slot q) (each_idx q (idx q k)) = map Some (skipn k l).
Proof.
  intros HR Hk. rewrite each_idx_spec by (auto; apply HR).
  rewrite map_map. apply slots_seq; [assumption|lia].
Qed.

(* ---- replay_from --------------------------------------------------------- *)
Lemma replay_from_spec q keep idxs es script :
  map (slot q) idxs = map Some es ->
  replay_from q keep idxs script = Some (spec_sends (filter keep es) script).
Proof.
  revert es script; induction idxs as [|j idxs IH]; intros [|e es] script H; cbn in H; try discriminate.
  - cbn. destruct (next_verdict script); reflexivity.
  - injection H as Hj Hrest. cbn [replay_from filter]. rewrite Hj.
    destruct (keep e).
    + cbn [spec_sends]. destruct (next_verdict script) as [v script'].
      destruct (v =? 0)%N; [|reflexivity].
      rewrite (IH es script' Hrest). now destruct (spec_sends (filter keep es) script').
    + now apply IH.
Qed.

(* ---- manual IDs: scan ---------------------------------------------------- *)
Lemma wrap_succ {T} (q : queue T) p :
  shape q -> p < count q ->
  (if S (idx q p) =? qlen q then 0 else S (idx q p)) = idx q (S p).
Proof.
  intros [Hcl [Hz|(Hh & Ht & Htl)]] Hp; [lia|]. unfold idx. cases; lia.
Qed.

Lemma idx_succ_tail {T} (q : queue T) p :
  shape q -> p < count q -> (idx q (S p) = tail q <-> S p = count q).
Proof.
  intros [Hcl [Hz|(Hh & Ht & Htl)]] Hp; [lia|]. unfold idx in *. hcases Htl; cases; lia.
Qed.

Definition id_matches (id : field) (e : entry) : bool :=
  match id with Some v => bytes_eqb (e_id e) v | None => false end.

(* position of the first entry matching, counted from k *)
Fixpoint find_from (id : field) (es : list entry) (k : nat) : option nat :=
  match es with
  | [] => None
  | e :: r => if id_matches id e then Some k else find_from id r (S k)
  end.

Lemma scan_id_spec q l id n k :
  R q l -> k + n = count q ->
  scan_id q id (map (idx q) (seq k n)) =
  Some (match find_from id (skipn k l) k with
        | Some p => if S p =? count q then None else Some (idx q (S p))
        | None => None
        end).
Proof.
  intros HR. revert k; induction n as [|n IH]; intros k Hk; cbn [seq map scan_id].
  - destruct HR as (_ & Hc & _). rewrite skipn_all2 by lia. reflexivity.
  - destruct (R_slot q l k HR ltac:(lia)) as (v & Hv & Hsl).
    rewrite Hsl, (skipn_nth_error l k v Hv). cbn [find_from]. fold (id_matches id v).
    destruct (id_matches id v).
    + destruct HR as (Hs & _). rewrite (wrap_succ q k Hs ltac:(lia)).
      pose proof (idx_succ_tail q k Hs ltac:(lia)) as Hiff.
      destruct (Nat.eqb_spec (idx q (S k)) (tail q)) as [E|E]; destruct (Nat.eqb_spec (S k) (count q)) as [E2|E2];
        try reflexivity; exfalso; tauto.
    + apply IH. lia.
Qed.

Lemma find_from_find_pos v es k :
  find_from (Some v) es k = match find_pos es v with Some p => Some (k + p) | None => None end.
Proof.
  revert k; induction es as [|e r IH]; intros k; cbn; [reflexivity|].
  destruct (bytes_eqb (e_id e) v); [f_equal; lia|].
  rewrite IH. destruct (find_pos r v); [f_equal; lia|reflexivity].
Qed.

Lemma find_from_none es k : find_from None es k = None.
Proof. revert k; induction es; intros; cbn; auto. Qed.

Lemma find_id_manual q l id :
  R q l -> 0 < count q ->
  find_id q id false =
  Some (match id with
        | Some v => match find_pos l v with
                    | Some p => if S p =? length l then None else Some (idx q (S p))
                    | None => None
                    end
        | None => None
        end).
Proof.
  intros HR Hc. unfold find_id. destruct (Nat.eqb_spec (count q) 0); [lia|].
  pose proof HR as (Hs & Hlen & _).
  replace (head q) with (idx q 0) at 1.
  2:{ destruct Hs as [Hcl [Hz|(Hh & Ht & Htl)]]; [lia|]. unfold idx. cases; lia. }
  rewrite each_idx_spec by (auto; lia). rewrite Nat.sub_0_r.
  rewrite (scan_id_spec q l id (count q) 0 HR) by lia. cbn [skipn].
  destruct id as [v|]; [|now rewrite find_from_none].
  rewrite find_from_find_pos. destruct (find_pos l v) as [p|]; [|reflexivity].
  cbn [Nat.add]. now rewrite Hlen.
Qed.

(* ---- decimal IDs --------------------------------------------------------- *)
Lemma uint_bytes_inj d1 d2 : uint_bytes d1 = uint_bytes d2 -> d1 = d2.
Proof.
  revert d2; induction d1 as [|d1 IH|d1 IH|d1 IH|d1 IH|d1 IH|d1 IH|d1 IH|d1 IH|d1 IH|d1 IH];
    intros [|d2|d2|d2|d2|d2|d2|d2|d2|d2|d2] H; cbn in H; try discriminate; try reflexivity;
    injection H as H; f_equal; now apply IH.
Qed.

Lemma bytes_uint_bytes d : bytes_uint (uint_bytes d) = Some d.
Proof. induction d; cbn; rewrite ?IHd; reflexivity. Qed.

Lemma format_uint_inj a b : format_uint a = format_uint b -> a = b.
Proof. unfold format_uint. intros H. apply uint_bytes_inj in H. now apply DecimalN.Unsigned.to_uint_inj. Qed.

Lemma to_uint_nonnil n : N.to_uint n <> Decimal.Nil.
Proof.
  destruct n as [|p]; cbn; [discriminate|]. apply DecimalPos.Unsigned.to_uint_nonnil.
Qed.

Lemma format_uint_nonempty n : format_uint n <> [].
Proof.
  unfold format_uint. pose proof (to_uint_nonnil n) as H. destruct (N.to_uint n); cbn; try discriminate. congruence.
Qed.

Lemma parse_format n : (n < two64)%N -> parse_uint (format_uint n) = Some n.
Proof.
  intros Hn. unfold parse_uint. pose proof (format_uint_nonempty n) as Hne.
  destruct (format_uint n) as [|b r] eqn:E; [congruence|]. rewrite <- E.
  unfold format_uint. rewrite bytes_uint_bytes, DecimalN.Unsigned.of_to.
  apply N.ltb_lt in Hn. now rewrite Hn.
Qed.

Lemma parse_issued_spec v n : parse_issued v = Some n <-> (v = format_uint n /\ (n < two64)%N).
Proof.
  unfold parse_issued. split.
  - destruct (parse_uint v) as [m|] eqn:E; [|discriminate].
    destruct (bytes_eqb (format_uint m) v) eqn:E2; [|discriminate]. intros [= <-].
    apply bytes_eqb_eq in E2. split; [congruence|].
    unfold parse_uint in E. destruct v; [discriminate|]. destruct (bytes_uint (n :: v)); [|discriminate].
    destruct (N.ltb_spec (N.of_uint u) two64); [|discriminate]. injection E as <-. assumption.
  - intros [-> Hn]. rewrite parse_format by assumption. now rewrite bytes_eqb_refl.
Qed.

(* ---- automatic IDs ------------------------------------------------------- *)
Definition ids_from (l : list entry) (first : N) : Prop :=
  forall k e, nth_error l k = Some e -> e_id e = format_uint (first + N.of_nat k).

Definition ids_consec (l : list entry) (cur : N) : Prop :=
  exists first, cur = (first + N.of_nat (length l))%N /\ ids_from l first.

Lemma ids_from_tail e l first : ids_from (e :: l) first -> ids_from l (first + 1).
Proof.
  intros H k e' Hk. specialize (H (S k) e' Hk). rewrite H. f_equal. lia.
Qed.

Lemma find_pos_lt l v p : find_pos l v = Some p -> p < length l.
Proof.
  revert p; induction l as [|e l IH]; intros p; cbn; [discriminate|].
  destruct (bytes_eqb (e_id e) v); [intros [= <-]; lia|].
  destruct (find_pos l v) as [p'|]; [|discriminate]. intros [= <-]. specialize (IH p' eq_refl). lia.
Qed.

Lemma find_pos_consec l first n :
  ids_from l first ->
  find_pos l (format_uint n) =
  if ((first <=? n) && (n - first <? N.of_nat (length l)))%N then Some (N.to_nat (n - first)) else None.
Proof.
  revert first; induction l as [|e l IH]; intros first H; cbn [find_pos length].
  - destruct (first <=? n)%N; cbn [andb]; [|reflexivity]. destruct (N.ltb_spec (n - first) (N.of_nat 0)); [lia|reflexivity].
  - pose proof (H 0 e eq_refl) as He. cbn in He. rewrite N.add_0_r in He.
    destruct (bytes_eqb (e_id e) (format_uint n)) eqn:E.
    + apply bytes_eqb_eq in E. rewrite He in E. apply format_uint_inj in E. subst n.
      rewrite N.leb_refl, N.sub_diag. cbn [andb].
      destruct (N.ltb_spec 0 (N.of_nat (S (length l)))); [reflexivity|lia].
    + apply bytes_eqb_neq in E. assert (Hne : first <> n) by (intros ->; congruence).
      rewrite (IH (first + 1)%N (ids_from_tail e l first H)).
      destruct (N.leb_spec first n), (N.leb_spec (first + 1) n); cbn [andb]; try lia; try reflexivity.
      replace (n - (first + 1))%N with (n - first - 1)%N by lia.
      destruct (N.ltb_spec (n - first - 1) (N.of_nat (length l))), (N.ltb_spec (n - first) (N.of_nat (S (length l))));
        try lia; try reflexivity. f_equal. lia.
Qed.

Lemma find_id_resume q l id auto cur :
  R q l -> (auto = true -> ids_consec l cur /\ (cur <= two64)%N) ->
  match spec_resume l id auto with
  | None => find_id q id auto = Some None
  | Some es => exists k, k < count q /\ es = skipn k l /\ find_id q id auto = Some (Some (idx q k))
  end.
Proof.
  intros HR Hauto. pose proof HR as (Hs & Hlen & _).
  destruct (Nat.eq_dec (count q) 0) as [Hz|Hnz].
  { assert (l = []) by (destruct l; [reflexivity|cbn in Hlen; lia]). subst l.
    unfold find_id. rewrite Hz. cbn. unfold spec_resume. destruct id as [v|]; [|reflexivity].
    cbn. destruct auto; [|reflexivity]. now destruct (parse_issued v). }
  destruct auto.
  - (* automatic *)
    destruct (Hauto eq_refl) as ((first & Hcur & Hids) & Hbound). clear Hauto.
    unfold find_id. destruct (Nat.eqb_spec (count q) 0) as [?|_]; [lia|].
    destruct (R_slot q l 0 HR ltac:(lia)) as (h & Hh & Hslot).
    replace (idx q 0) with (head q) in Hslot.
    2:{ destruct Hs as [Hcl [Hz|(Hh' & Ht & Htl)]]; [lia|]. unfold idx. cases; lia. }
    destruct l as [|h' l']; [discriminate|]. cbn in Hh. injection Hh as ->.
    pose proof (Hids 0 h eq_refl) as Hhid. cbn in Hhid. rewrite N.add_0_r in Hhid.
    cbn [length] in *.
    assert (Hfirst : (first < two64)%N) by lia.
    unfold spec_resume. destruct id as [v|]; cbn [value].
    2:{ reflexivity. }
    destruct (parse_issued v) as [m|] eqn:Ep.
    + apply parse_issued_spec in Ep as [-> Hn]. rename m into n.
      rewrite Hslot, Hhid, (parse_format first Hfirst).
      rewrite (find_pos_consec (h :: l') first n Hids). cbn [length].
      destruct (N.leb_spec first n) as [Hle|Hgt]; cbn [andb].
      * destruct (N.ltb_spec (n - first) (N.of_nat (S (length l')))) as [Hin|Hout].
        -- destruct (Nat.eqb_spec (S (N.to_nat (n - first))) (S (length l'))) as [Hlast|Hnl].
           ++ destruct (N.leb_spec (N.of_nat (count q - 1)) (n - first)); [reflexivity|lia].
           ++ destruct (N.leb_spec (N.of_nat (count q - 1)) (n - first)); [lia|].
              exists (S (N.to_nat (n - first))). split; [lia|]. split; [reflexivity|].
              do 2 f_equal. unfold idx. cases; lia.
        -- destruct (N.leb_spec (N.of_nat (count q - 1)) (n - first)); [|lia].
           destruct (N.ltb_spec n first); [lia|reflexivity].
      * destruct (N.ltb_spec n first); [|lia].
        exists 0. split; [lia|]. split; [reflexivity|].
        do 2 f_equal. destruct Hs as [Hcl [Hz|(Hh' & Ht & Htl)]]; [lia|]. unfold idx. cases; lia.
    + destruct (find_pos (h :: l') v) as [p|] eqn:Efp; [|reflexivity].
      exfalso. pose proof (find_pos_lt _ _ _ Efp) as Hp. cbn [length] in Hp.
      assert (Hv : exists e, nth_error (h :: l') p = Some e /\ e_id e = v).
      { clear -Efp. revert p Efp. generalize (h :: l') as l. induction l as [|e l IH]; intros p; cbn; [discriminate|].
        destruct (bytes_eqb (e_id e) v) eqn:E.
        - intros [= <-]. exists e. split; [reflexivity|now apply bytes_eqb_eq].
        - destruct (find_pos l v) as [p'|]; [|discriminate]. intros [= <-]. now apply IH. }
      destruct Hv as (e & He & <-). rewrite (Hids p e He) in Ep.
      assert (Hsome : parse_issued (format_uint (first + N.of_nat p)) = Some (first + N.of_nat p)%N)
        by (apply parse_issued_spec; split; [reflexivity|lia]).
      congruence.
  - (* manual *)
    rewrite (find_id_manual q l id HR ltac:(lia)). unfold spec_resume.
    destruct id as [v|]; [|reflexivity].
    destruct (find_pos l v) as [p|] eqn:Efp; [|reflexivity].
    pose proof (find_pos_lt _ _ _ Efp) as Hp.
    destruct (Nat.eqb_spec (S p) (length l)); [reflexivity|].
    exists (S p). split; [lia|]. split; reflexivity.
Qed.

(* the body shared by both Replay methods *)
Lemma replay_refines q l id auto cur keep script :
  R q l -> (auto = true -> ids_consec l cur /\ (cur <= two64)%N) ->
  match find_id q id auto with
  | None => None
  | Some None => Some ([], 0%N)
  | Some (Some i) => replay_from q keep (each_idx q i) script
  end = Some (spec_replay l keep id auto script).
Proof.
  intros HR Hauto. pose proof (find_id_resume q l id auto cur HR Hauto) as H.
  unfold spec_replay. destruct (spec_resume l id auto) as [es|].
  - destruct H as (k & Hk & -> & ->). apply replay_from_spec. now apply each_slots.
  - now rewrite H.
Qed.

(* ---- FiniteReplayer ------------------------------------------------------ *)
Lemma lastn_all {A} n (l : list A) : length l <= n -> lastn n l = l.
Proof. intros H. unfold lastn. replace (length l - n) with 0 by lia. reflexivity. Qed.

Lemma lastn_drop1 {A} n (x : A) (l : list A) : length l = n -> lastn n (x :: l) = l.
Proof. intros H. unfold lastn. cbn [length]. replace (S (length l) - n) with 1 by lia. reflexivity. Qed.

Definition FR (s : fstate) (sp : fspec) : Prop :=
  R (f_q s) (fs_l sp) /\ f_cur s = fs_next sp /\ qlen (f_q s) = fs_cap sp /\ 0 < fs_cap sp /\
  (forall cur, fs_next sp = Some cur -> ids_consec (fs_l sp) cur).

Lemma FR_new n auto : finite_min_count <= n -> 0 < n ->
  exists s, fr_new n auto = Some s /\ FR s (fs_new n auto).
Proof.
  intros Hn Hpos. unfold fr_new. destruct (Nat.ltb_spec n finite_min_count); [lia|].
  eexists; split; [reflexivity|]. unfold FR, fs_new; cbn.
  split; [apply R_empty|]. split; [destruct auto; reflexivity|]. split; [now rewrite repeat_length|]. split; [lia|].
  intros cur Hc. destruct auto; [|discriminate]. injection Hc as <-. exists 0%N. split; [reflexivity|].
  intros k e Hk. destruct k; discriminate.
Qed.

Lemma ensure_id_spec m_id cur topics :
  topics <> [] -> spec_put_id m_id cur topics = ensure_id m_id cur.
Proof. intros H. unfold spec_put_id, ensure_id. destruct topics; [congruence|]. destruct cur, m_id; reflexivity. Qed.

Lemma ids_consec_app l cur id topics tok exp :
  ids_consec l cur -> id = format_uint cur -> ids_consec (l ++ [mke id topics tok exp]) (cur + 1).
Proof.
  intros (first & Hc & Hids) ->. exists first. rewrite app_length; cbn [length]. split; [lia|].
  intros k e Hk. destruct (Nat.lt_ge_cases k (length l)) as [Hlt|Hge].
  - rewrite nth_error_app1 in Hk by lia. now apply Hids.
  - rewrite nth_error_app2 in Hk by lia. destruct (k - length l) eqn:E; [|destruct n; discriminate].
    injection Hk as <-. cbn. f_equal. lia.
Qed.

Lemma ids_consec_tl x l cur : ids_consec (x :: l) cur -> ids_consec l cur.
Proof.
  intros (first & Hc & Hids). exists (first + 1)%N. cbn [length] in Hc. split; [lia|].
  now apply (ids_from_tail x).
Qed.

Lemma fr_put_refines s sp m_id tok topics :
  FR s sp ->
  exists s', fr_put s m_id tok topics = Some (s', snd (fs_put sp m_id tok topics)) /\
             FR s' (fst (fs_put sp m_id tok topics)).
Proof.
  intros HFR. pose proof HFR as (HR & Hcur & Hlen & Hpos & Hids). unfold fr_put, fs_put.
  destruct topics as [|t ts].
  { cbn. exists s. split; [reflexivity|exact HFR]. }
  rewrite ensure_id_spec by discriminate. rewrite <- Hcur.
  destruct (ensure_id m_id (f_cur s)) as [e|[id cur']] eqn:Ee.
  { cbn. exists s. split; [reflexivity|exact HFR]. }
  cbn [fst snd].
  pose proof HR as (Hs & Hcnt & _).
  assert (Hids' : forall c, cur' = Some c -> forall l', ids_consec l' (c - 1)%N /\ (0 < c)%N /\ id = format_uint (c - 1) ->
            ids_consec (l' ++ [mke id (t :: ts) tok 0%Z]) c).
  { intros c -> l' (H1 & H2 & H3). pose proof (ids_consec_app l' (c - 1)%N id (t :: ts) tok 0%Z H1 H3) as H.
    replace (c - 1 + 1)%N with c in H by lia. exact H. }
  assert (Hcase : forall c, cur' = Some c -> f_cur s = Some (c - 1)%N /\ (0 < c)%N /\ id = format_uint (c - 1)).
  { intros c ->. unfold ensure_id in Ee. destruct (f_cur s) as [n|], m_id; try discriminate.
    injection Ee as <- <-. replace (n + 1 - 1)%N with n by lia. repeat split; lia. }
  destruct (Nat.lt_ge_cases (count (f_q s)) (qlen (f_q s))) as [Hnf|Hfull].
  - destruct (enqueue_notfull (f_q s) (fs_l sp) (mke id (t :: ts) tok 0%Z) HR Hnf) as (q' & Hq' & HR' & Hl').
    rewrite Hq'. eexists; split; [reflexivity|]. unfold FR; cbn [f_q f_cur fs_l fs_next fs_cap].
    rewrite lastn_all by (rewrite app_length; cbn [length]; lia).
    split; [exact HR'|]. split; [reflexivity|]. split; [lia|]. split; [lia|].
    intros c Hc. destruct (Hcase c Hc) as (H1 & H2 & H3). apply (Hids' c Hc). repeat split; auto.
    apply Hids. congruence.
  - destruct (fs_l sp) as [|x l0] eqn:El; [cbn in Hcnt; lia|].
    assert (Hfull' : count (f_q s) = qlen (f_q s)) by (destruct Hs; lia).
    destruct (enqueue_full (f_q s) x l0 (mke id (t :: ts) tok 0%Z) HR Hfull') as (q' & Hq' & HR' & Hl').
    rewrite Hq'. eexists; split; [reflexivity|]. unfold FR; cbn [f_q f_cur fs_l fs_next fs_cap].
    cbn [app]. rewrite lastn_drop1 by (rewrite app_length; cbn [length] in *; lia).
    split; [exact HR'|]. split; [reflexivity|]. split; [lia|]. split; [lia|].
    intros c Hc. destruct (Hcase c Hc) as (H1 & H2 & H3). apply (Hids' c Hc). repeat split; auto.
    apply (ids_consec_tl x). apply Hids. congruence.
Qed.

Lemma fr_replay_refines s sp id topics script :
  FR s sp -> (forall cur, fs_next sp = Some cur -> (cur <= two64)%N) ->
  fr_replay s id topics script = Some (fs_replay sp id topics script).
Proof.
  intros (HR & Hcur & Hlen & Hpos & Hids) Hb. unfold fr_replay, fs_replay. rewrite Hcur.
  apply (replay_refines _ _ id _ (match fs_next sp with Some c => c | None => 0%N end)); auto.
  intros Hauto. destruct (fs_next sp) as [c|]; [|discriminate]. split; [now apply Hids|now apply Hb].
Qed.

(* the specification states after every operation *)
Fixpoint fs_states (s : fspec) (ops : list fop) : list fspec :=
  match ops with [] => [] | op :: rest => fst (fs_step s op) :: fs_states (fst (fs_step s op)) rest end.

Lemma fs_next_step sp op c :
  fs_next sp = Some c -> exists c', fs_next (fst (fs_step sp op)) = Some c' /\ (c' <= c + 1)%N.
Proof.
  intros Hc. destruct op as [m_id tok topics|id topics script]; cbn.
  - unfold fs_put, spec_put_id. rewrite Hc. destruct topics; cbn; [exists c; split; [auto|lia]|].
    destruct m_id; cbn; [exists c; split; [auto|lia]|exists (c + 1)%N; split; [auto|lia]].
  - exists c. split; [auto|lia].
Qed.

Theorem finite_refines ops : forall s sp,
  FR s sp -> (forall cur, fs_next sp = Some cur -> (cur + N.of_nat (length ops) <= two64)%N) ->
  exists tr, fr_trace s ops = (tr, true) /\ map fst tr = fs_run sp ops /\
             Forall2 (fun p sp' => FR (snd p) sp') tr (fs_states sp ops).
Proof.
  induction ops as [|op ops IH]; intros s sp HFR Hb; cbn [fr_trace fs_run fs_states].
  - exists []. repeat split; constructor.
  - assert (Hb' : forall cur, fs_next (fst (fs_step sp op)) = Some cur -> (cur + N.of_nat (length ops) <= two64)%N).
    { intros c' Hc'. destruct (fs_next sp) as [c|] eqn:Ec.
      - destruct (fs_next_step sp op c Ec) as (c'' & H1 & H2). specialize (Hb c eq_refl). cbn [length] in Hb.
        assert (c'' = c') by congruence. lia.
      - exfalso. destruct op as [m_id tok topics|id topics script]; cbn in Hc'; [|congruence].
        unfold fs_put, spec_put_id in Hc'. rewrite Ec in Hc'. destruct topics, m_id; cbn in Hc'; congruence. }
    destruct op as [m_id tok topics|id topics script]; cbn [fr_step fs_step].
    + destruct (fr_put_refines s sp m_id tok topics HFR) as (s' & Hput & HFR').
      rewrite Hput. destruct (fs_put sp m_id tok topics) as [sp' r] eqn:Es. cbn [fst snd] in *.
      destruct (IH s' sp' HFR') as (tr & Htr & Hout & Hst).
      { intros c Hc. apply Hb'. cbn [fs_step]. rewrite Es. exact Hc. }
      rewrite Htr. eexists; split; [reflexivity|]. cbn [map fst]. split; [now rewrite Hout|].
      constructor; assumption.
    + rewrite (fr_replay_refines s sp id topics script HFR).
      2:{ intros c Hc. specialize (Hb c Hc). lia. }
      destruct (IH s sp HFR) as (tr & Htr & Hout & Hst).
      { intros c Hc. specialize (Hb c Hc). cbn [length] in Hb. lia. }
      rewrite Htr. eexists; split; [reflexivity|]. cbn [map fst]. split; [now rewrite Hout|].
      constructor; assumption.
Qed.

(* what a replayer keeps reachable: every occupied slot holds a live entry *)
Lemma R_occupied {T} (q : queue T) l i v :
  R q l -> nth_error (buf q) i = Some (Some v) -> In v l.
Proof.
  intros (Hs & Hc & Hlive & Hdead) Hi.
  assert (Hlt : i < qlen q) by (apply nth_error_Some; congruence).
  destruct (inw q i) eqn:Ew.
  - destruct (inw_idx q i Hs Hlt Ew) as (k & Hk & <-). rewrite (Hlive k Hk) in Hi.
    injection Hi as Hi. now apply nth_error_In in Hi.
  - rewrite (Hdead i Hlt Ew) in Hi. discriminate.
Qed.

(* ---- ValidReplayer ------------------------------------------------------- *)
From Coq Require Import ZifyNat ZifyBool.
Ltac Zify.zify_post_hook ::= Z.div_mod_to_equations.

Definition VR (s : vstate) (sp : vspec) : Prop :=
  R (v_q s) (vs_l sp) /\ v_cur s = vs_next sp /\ v_lastgc s = vs_lastgc sp /\
  v_gci s = vs_gci sp /\ v_ttl s = vs_ttl sp /\
  (forall cur, vs_next sp = Some cur -> ids_consec (vs_l sp) cur).

Lemma VR_new ttl auto gci : (0 < ttl)%Z ->
  exists s, vr_new ttl auto gci = Some s /\ VR s (vs_new ttl auto gci).
Proof.
  intros Ht. unfold vr_new. destruct (Z.leb_spec ttl 0); [lia|].
  eexists; split; [reflexivity|]. unfold VR, vs_new; cbn.
  split; [apply R_nil|]. split; [destruct auto; reflexivity|]. do 3 (split; [reflexivity|]).
  intros cur Hc. destruct auto; [|discriminate]. injection Hc as <-. exists 0%N. split; [reflexivity|].
  intros k e Hk. destruct k; discriminate.
Qed.

Lemma idx0_head {T} (q : queue T) : shape q -> 0 < count q -> idx q 0 = head q.
Proof. intros [Hcl [Hz|(Hh & Ht & Htl)]] Hc; [lia|]. unfold idx. cases; lia. Qed.

Lemma gc_loop_refines fuel : forall q l now,
  R q l -> count q <= fuel ->
  exists q', gc_loop fuel q now = Some q' /\ R q' (collect l now) /\ qlen q' = qlen q.
Proof.
  induction fuel as [|fuel IH]; intros q l now HR Hf; cbn [gc_loop].
  - pose proof HR as (_ & Hc & _). destruct l; [|cbn in Hc; lia]. exists q. cbn [collect]. split; [reflexivity|split; [exact HR|reflexivity]].
  - pose proof HR as (Hs & Hc & _).
    destruct (Nat.eqb_spec (count q) 0) as [Hz|Hnz].
    { destruct l; [|cbn in Hc; lia]. exists q. cbn [collect]. split; [reflexivity|split; [exact HR|reflexivity]]. }
    destruct (R_slot q l 0 HR ltac:(lia)) as (e & He & Hslot).
    rewrite (idx0_head q Hs ltac:(lia)) in Hslot. rewrite Hslot.
    destruct l as [|e' r]; [discriminate|]. cbn in He. injection He as ->. cbn [collect].
    destruct (now <? e_exp e)%Z.
    + exists q. split; [reflexivity|split; [exact HR|reflexivity]].
    + destruct (dequeue_R q e r HR) as (q' & Hq' & HR' & Hl'). rewrite Hq'.
      destruct (IH q' r now HR') as (q'' & Hq'' & HR'' & Hl'').
      { pose proof HR' as (_ & Hc' & _). cbn [length] in Hc. lia. }
      exists q''. split; [exact Hq''|split; [exact HR''|congruence]].
Qed.

Lemma do_gc_refines q l now :
  R q l -> exists q', do_gc q now = Some q' /\ R q' (collect l now).
Proof.
  intros HR. unfold do_gc.
  destruct (gc_loop_refines (count q) q l now HR (le_n _)) as (q1 & Hq1 & HR1 & Hl1). rewrite Hq1.
  destruct (count q1 <=? qlen q1 / valid_shrink_threshold_div) eqn:E; [|exists q1; auto].
  apply Nat.leb_le in E.
  destruct (resize_R q1 (collect l now) (Nat.max (qlen q1 / valid_shrink_div) valid_min_cap_gc) HR1) as (q2 & Hq2 & HR2 & _).
  { unfold valid_shrink_threshold_div, valid_shrink_div, valid_min_cap_gc in *. cbn in *. lia. }
  exists q2. auto.
Qed.

Lemma vr_put_refines s sp now m_id tok topics :
  VR s sp ->
  exists s', vr_put s now m_id tok topics = Some (s', snd (vs_put sp now m_id tok topics)) /\
             VR s' (fst (vs_put sp now m_id tok topics)).
Proof.
  intros HVR. pose proof HVR as (HR & Hcur & Hlgc & Hgci & Httl & Hids). unfold vr_put, vs_put.
  destruct topics as [|t ts].
  { cbn. exists s. split; [reflexivity|exact HVR]. }
  rewrite ensure_id_spec by discriminate. rewrite <- Hcur, <- Hlgc, <- Httl.
  unfold should_gc. rewrite <- Hgci.
  set (lastgc := match v_lastgc s with Some l => l | None => now end).
  set (due := ((0 <? v_gci s)%Z && (v_gci s <=? now - lastgc)%Z)).
  (* the optional collection *)
  assert (Hgc : exists q1, (if due then match do_gc (v_q s) now with Some q => Some (q, now) | None => None end
                            else Some (v_q s, lastgc)) = Some (q1, if due then now else lastgc) /\
                           R q1 (if due then collect (vs_l sp) now else vs_l sp)).
  { destruct due.
    - destruct (do_gc_refines (v_q s) (vs_l sp) now HR) as (q1 & Hq1 & HR1). rewrite Hq1. eauto.
    - eauto. }
  destruct Hgc as (q1 & Hq1 & HR1). rewrite Hq1.
  set (l1 := if due then collect (vs_l sp) now else vs_l sp) in *.
  assert (Hids1 : forall cur, v_cur s = Some cur -> ids_consec l1 cur).
  { intros cur Hc. rewrite Hcur in Hc. specialize (Hids cur Hc). unfold l1. destruct due; [|exact Hids].
    clear -Hids. induction (vs_l sp) as [|e r IH]; cbn; [exact Hids|].
    destruct (now <? e_exp e)%Z; [exact Hids|]. apply IH. now apply (ids_consec_tl e). }
  destruct (ensure_id m_id (v_cur s)) as [e|[id cur']] eqn:Ee.
  { cbn [fst snd]. eexists; split; [reflexivity|]. unfold VR; cbn [v_q v_cur v_lastgc v_gci v_ttl vs_l vs_next vs_lastgc vs_gci vs_ttl].
    split; [exact HR1|]. do 4 (split; [reflexivity|]). intros c Hc. apply Hids1. exact Hc. }
  cbn [fst snd].
  (* the optional growth *)
  assert (Hgrow : exists q2, (if count q1 =? qlen q1
                              then resize q1 (Nat.max (qlen q1 * valid_grow_factor) valid_min_cap_put)
                              else Some q1) = Some q2 /\ R q2 l1 /\ count q2 < qlen q2).
  { destruct (Nat.eqb_spec (count q1) (qlen q1)) as [Hfull|Hnf].
    - destruct (resize_R q1 l1 (Nat.max (qlen q1 * valid_grow_factor) valid_min_cap_put) HR1) as (q2 & Hq2 & HR2 & Hl2).
      { unfold valid_grow_factor, valid_min_cap_put. cbn. lia. }
      exists q2. split; [exact Hq2|]. split; [exact HR2|]. unfold resize in Hq2.
      destruct ((head q1 <=? qlen q1) && (tail q1 <=? qlen q1)); [|discriminate].
      injection Hq2 as <-. cbn [count buf] in *. rewrite Hl2. unfold valid_grow_factor, valid_min_cap_put. cbn. lia.
    - exists q1. split; [reflexivity|]. split; [exact HR1|]. destruct HR1 as ((Hcl & _) & _). lia. }
  destruct Hgrow as (q2 & Hq2 & HR2 & Hnf). rewrite Hq2.
  destruct (enqueue_notfull q2 l1 (mke id (t :: ts) tok (now + v_ttl s)) HR2 Hnf) as (q3 & Hq3 & HR3 & _).
  rewrite Hq3. eexists; split; [reflexivity|].
  unfold VR; cbn [v_q v_cur v_lastgc v_gci v_ttl vs_l vs_next vs_lastgc vs_gci vs_ttl].
  split; [exact HR3|]. do 4 (split; [reflexivity|]).
  intros c Hc. subst cur'. unfold ensure_id in Ee. destruct (v_cur s) as [n|] eqn:En, m_id; try discriminate.
  injection Ee as <- <-. now apply ids_consec_app; [apply Hids1|].
Qed.

Lemma vr_gc_refines s sp now :
  VR s sp -> exists s', vr_gc s now = Some s' /\ VR s' (vs_gc sp now).
Proof.
  intros (HR & Hcur & Hlgc & Hgci & Httl & Hids). unfold vr_gc, vs_gc.
  destruct (do_gc_refines (v_q s) (vs_l sp) now HR) as (q1 & Hq1 & HR1). rewrite Hq1.
  eexists; split; [reflexivity|]. unfold VR; cbn [v_q v_cur v_lastgc v_gci v_ttl vs_l vs_next vs_lastgc vs_gci vs_ttl].
  split; [exact HR1|]. do 4 (split; [assumption|]).
  intros cur Hc. specialize (Hids cur Hc).
  clear -Hids. induction (vs_l sp) as [|e r IH]; cbn; [exact Hids|].
  destruct (now <? e_exp e)%Z; [exact Hids|]. apply IH. now apply (ids_consec_tl e).
Qed.

Lemma vr_replay_refines s sp now id topics script :
  VR s sp -> (forall cur, vs_next sp = Some cur -> (cur <= two64)%N) ->
  vr_replay s now id topics script = Some (vs_replay sp now id topics script).
Proof.
  intros (HR & Hcur & Hlgc & Hgci & Httl & Hids) Hb. unfold vr_replay, vs_replay. rewrite Hcur.
  apply (replay_refines _ _ id _ (match vs_next sp with Some c => c | None => 0%N end)); auto.
  intros Hauto. destruct (vs_next sp) as [c|]; [|discriminate]. split; [now apply Hids|now apply Hb].
Qed.

Fixpoint vs_states (s : vspec) (ops : list vop) : list vspec :=
  match ops with [] => [] | op :: rest => fst (vs_step s op) :: vs_states (fst (vs_step s op)) rest end.

Lemma vs_next_step sp op :
  match vs_next sp with
  | Some c => exists c', vs_next (fst (vs_step sp op)) = Some c' /\ (c' <= c + 1)%N
  | None => vs_next (fst (vs_step sp op)) = None
  end.
Proof.
  destruct op as [now m_id tok topics|now id topics script|now|now g]; cbn.
  - unfold vs_put, spec_put_id. destruct topics; cbn.
    + destruct (vs_next sp) as [c|]; [exists c; split; [auto|lia]|reflexivity].
    + destruct (vs_next sp) as [c|], m_id; cbn; try reflexivity;
        [exists c; split; [auto|lia]|exists (c + 1)%N; split; [auto|lia]].
  - destruct (vs_next sp) as [c|]; [exists c; split; [auto|lia]|reflexivity].
  - destruct (vs_next sp) as [c|]; [exists c; split; [auto|lia]|reflexivity].
  - destruct (vs_next sp) as [c|]; [exists c; split; [auto|lia]|reflexivity].
Qed.

(* assigning GCInterval touches nothing but that field, in the model as in the specification *)
Lemma vr_set_gci_refines s sp g :
  VR s sp -> VR (mkv (v_q s) (v_cur s) (v_lastgc s) g (v_ttl s))
                (mkvs (vs_l sp) (vs_next sp) (vs_lastgc sp) g (vs_ttl sp)).
Proof.
  intros (HR & Hcur & Hlgc & Hgci & Httl & Hids).
  unfold VR; cbn [v_q v_cur v_lastgc v_gci v_ttl vs_l vs_next vs_lastgc vs_gci vs_ttl].
  split; [exact HR|]. split; [exact Hcur|]. split; [exact Hlgc|]. split; [reflexivity|]. split; [exact Httl|exact Hids].
Qed.

Theorem valid_refines ops : forall s sp,
  VR s sp -> (forall cur, vs_next sp = Some cur -> (cur + N.of_nat (length ops) <= two64)%N) ->
  exists tr, vr_trace s ops = (tr, true) /\ map fst tr = vs_run sp ops /\
             Forall2 (fun p sp' => VR (snd p) sp') tr (vs_states sp ops).
Proof.
  induction ops as [|op ops IH]; intros s sp HVR Hb; cbn [vr_trace vs_run vs_states].
  - exists []. repeat split; constructor.
  - assert (Hb' : forall cur, vs_next (fst (vs_step sp op)) = Some cur -> (cur + N.of_nat (length ops) <= two64)%N).
    { intros c' Hc'. pose proof (vs_next_step sp op) as Hn. destruct (vs_next sp) as [c|] eqn:Ec.
      - destruct Hn as (c'' & H1 & H2). specialize (Hb c eq_refl). cbn [length] in Hb.
        assert (c'' = c') by congruence. lia.
      - congruence. }
    destruct op as [now m_id tok topics|now id topics script|now|now g]; cbn [vr_step vs_step] in *.
    + destruct (vr_put_refines s sp now m_id tok topics HVR) as (s' & Hput & HVR').
      rewrite Hput. destruct (vs_put sp now m_id tok topics) as [sp' r] eqn:Es. cbn [fst snd] in *.
      destruct (IH s' sp' HVR' Hb') as (tr & Htr & Hout & Hst).
      rewrite Htr. eexists; split; [reflexivity|]. cbn [map fst]. split; [now rewrite Hout|].
      constructor; assumption.
    + rewrite (vr_replay_refines s sp now id topics script HVR).
      2:{ intros c Hc. specialize (Hb c Hc). lia. }
      destruct (IH s sp HVR Hb') as (tr & Htr & Hout & Hst).
      rewrite Htr. eexists; split; [reflexivity|]. cbn [map fst]. split; [now rewrite Hout|].
      constructor; assumption.
    + destruct (vr_gc_refines s sp now HVR) as (s' & Hgc & HVR'). rewrite Hgc.
      destruct (IH s' (vs_gc sp now) HVR' Hb') as (tr & Htr & Hout & Hst).
      rewrite Htr. eexists; split; [reflexivity|]. cbn [map fst]. split; [now rewrite Hout|].
      constructor; assumption.
    + pose proof (vr_set_gci_refines s sp g HVR) as HVR'. cbn [fst] in Hb'.
      destruct (IH _ _ HVR' Hb') as (tr & Htr & Hout & Hst).
      rewrite Htr. eexists; split; [reflexivity|]. cbn [map fst]. split; [now rewrite Hout|].
      constructor; assumption.
Qed.
