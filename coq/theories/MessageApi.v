(* Messages "built through the public API": any sequence of AppendData /
   AppendComment / assignments of values accepted by NewID / NewType / Retry
   assignments, starting from the zero Message.  All such messages are
   well-formed (every value and every chunk is a single line). *)
From GoSse Require Import Base Lines Fields Queue FieldParser Message MessageProofs.
From GoSse.Gen Require Import Params.
Local Open Scope nat_scope.

Inductive api_op :=
| OpAppend (is_comment : bool) (strs : list bytes)   (* AppendData(strs...) / AppendComment(strs...) *)
| OpSetID (v : bytes)                                (* m.ID = v' where v', err := NewID(v); unchanged on error *)
| OpSetType (v : bytes)
| OpSetRetry (d : Z)
| OpClearID
| OpClearType.

Definition api_apply (m : msg) (o : api_op) : msg :=
  match o with
  | OpAppend c strs => append_text m c strs
  | OpSetID v => match new_field v with
                 | (Some e, false) => mkm (m_chunks m) (Some e) (m_type m) (m_retry m)
                 | _ => m
                 end
  | OpSetType v => match new_field v with
                   | (Some e, false) => mkm (m_chunks m) (m_id m) (Some e) (m_retry m)
                   | _ => m
                   end
  | OpSetRetry d => mkm (m_chunks m) (m_id m) (m_type m) d
  | OpClearID => mkm (m_chunks m) None (m_type m) (m_retry m)
  | OpClearType => mkm (m_chunks m) (m_id m) None (m_retry m)
  end.

Definition api_build (ops : list api_op) : msg := fold_left api_apply ops msg_empty.

Definition int64_max : Z := 9223372036854775807%Z.
Definition retry_in_range (o : api_op) : Prop :=
  match o with OpSetRetry d => (d <= int64_max)%Z | _ => True end.

Lemma api_apply_wf m o : msg_wf m -> msg_wf (api_apply m o).
Proof.
  intros H. destruct o as [c strs|v|v|d| |]; cbn [api_apply].
  - now apply msg_wf_append.
  - destruct (new_field v) as [[e|] [|]] eqn:E; try assumption. now apply (msg_wf_set_id m v e).
  - destruct (new_field v) as [[e|] [|]] eqn:E; try assumption. now apply (msg_wf_set_type m v e).
  - destruct H as (H1 & H2 & H3). repeat split; assumption.
  - destruct H as (H1 & H2 & H3). repeat split; cbn [m_id m_type m_chunks]; auto. discriminate.
  - destruct H as (H1 & H2 & H3). repeat split; cbn [m_id m_type m_chunks]; auto. discriminate.
Qed.

Lemma fold_api_wf ops : forall m, msg_wf m -> msg_wf (fold_left api_apply ops m).
Proof. induction ops as [|o ops IH]; intros m H; cbn [fold_left]; [assumption|]. apply IH, api_apply_wf, H. Qed.

Theorem api_build_wf ops : msg_wf (api_build ops).
Proof. apply fold_api_wf, msg_wf_empty. Qed.

Lemma api_apply_retry m o : (m_retry m <= int64_max)%Z -> retry_in_range o -> (m_retry (api_apply m o) <= int64_max)%Z.
Proof.
  intros H Ho. destruct o as [c strs|v|v|d| |]; cbn [api_apply retry_in_range] in *; try assumption.
  - destruct (new_field v) as [[e|] [|]]; assumption.
  - destruct (new_field v) as [[e|] [|]]; assumption.
Qed.

Lemma fold_api_retry ops : forall m, (m_retry m <= int64_max)%Z -> Forall retry_in_range ops ->
  (m_retry (fold_left api_apply ops m) <= int64_max)%Z.
Proof.
  induction ops as [|o ops IH]; intros m H Hall; cbn [fold_left]; [assumption|].
  inversion Hall; subst. apply IH; [apply api_apply_retry|]; assumption.
Qed.

Theorem api_build_retry ops : Forall retry_in_range ops -> (m_retry (api_build ops) < 9223372036854775808)%Z.
Proof.
  intros H. pose proof (fold_api_retry ops msg_empty) as Hr. unfold api_build.
  assert ((m_retry (fold_left api_apply ops msg_empty) <= int64_max)%Z) as Hle.
  { apply Hr; [cbn; unfold int64_max; lia | assumption]. }
  unfold int64_max in Hle. lia.
Qed.

(* every int64 Retry has an encoding: WriteTo never panics on the digit buffer *)
Theorem wire_total m : (m_retry m < 9223372036854775808)%Z -> exists w, wire m = Some w.
Proof.
  intros H. unfold wire, write_calls, body_calls.
  pose proof (retry_digits_fit (m_retry m) H) as Hf.
  destruct (retry_calls (m_retry m)) as [rc|]; [|congruence]. eexists. reflexivity.
Qed.

(* the text round trip for API-built messages *)
Theorem api_roundtrip ops w :
  Forall retry_in_range ops ->
  (forall v, m_id (api_build ops) = Some v -> has_nul v = false) ->
  wire (api_build ops) = Some w -> w <> [] ->
  unmarshal w = UOk (roundtrip_of (api_build ops)).
Proof.
  intros Hr Hnul Hw Hne. apply unmarshal_wire; auto using api_build_wf, api_build_retry.
Qed.

Lemma roundtrip_fields m :
  m_id (roundtrip_of m) = m_id m /\ m_type (roundtrip_of m) = m_type m /\
  m_chunks (roundtrip_of m) = m_chunks m /\
  m_retry (roundtrip_of m) = (Z.max 0 (millis_of (m_retry m)) * 1000000)%Z.
Proof.
  unfold roundtrip_of. cbn [m_id m_type m_chunks m_retry]. repeat split.
  destruct (Z.leb_spec (millis_of (m_retry m)) 0); lia.
Qed.
