(* One line: FieldParser.scan_segment followed by the read loop's switch (ReadLoop.rl_field)
   does to the loop's variables exactly what Whatwg.process_line does to the interpreter's
   buffers.  This is the interpretation half of C01 at the granularity of a line. *)
From GoSse Require Import Base Lines FieldParser Whatwg WhatwgLines Split Scanner Reader ReadLoop Yields.
From GoSse.Gen Require Import Params.
Local Open Scope nat_scope.

(* the loop's variables as an interpreter state (at a line boundary) *)
Definition st_of (s : rl) : wst := mkw [] false (rl_sb s) (rl_typ s) (rl_last_id s) (rl_dirty s).
Definition mode_for (on_retry : bool) : mode := if on_retry then gosse_conn else gosse_read.
Definition vis (on_retry : bool) (ys : list yield) : list yield := if on_retry then ys else drop_retries ys.

(* the data buffer is empty or ends in LF (doYield strips the last byte, the standard strips a final LF) *)
Definition sb_ok (sb : bytes) : Prop := sb = [] \/ exists x, sb = x ++ [LF].

(* what one line does in the implementation *)
Definition line_yields (on_retry : bool) (s : rl) (l : bytes) : rl * list yield :=
  match scan_segment false l with
  | None => (s, [])
  | Some f => match rl_field on_retry s f with
              | (s', ActNone) => (s', [])
              | (s', ActRetry n) => (s', [YRetry n])
              | (s', ActDispatch) => (rl_cleared s', [YEv (rl_event s')])
              end
  end.

Lemma strip_last_lf_snoc x : strip_last_lf (x ++ [LF]) = x.
Proof.
  induction x as [|b x IH]; [reflexivity|].
  cbn [app strip_last_lf]. destruct (x ++ [LF]) eqn:E; [destruct x; discriminate|]. now rewrite IH.
Qed.

Lemma sb_ok_event sb : sb_ok sb -> strip_last_lf sb = removelast sb.
Proof.
  intros [->|[x ->]]; [reflexivity|]. now rewrite strip_last_lf_snoc, removelast_last.
Qed.

Lemma split_colon_index l :
  split_colon l = match index_byte COLON l with
                  | Some p => (firstn p l, Some (skipn (S p) l))
                  | None => (l, None)
                  end.
Proof.
  induction l as [|b l IH]; [reflexivity|].
  cbn [split_colon index_byte]. destruct (b =? COLON)%N; [reflexivity|].
  rewrite IH. destruct (index_byte COLON l); reflexivity.
Qed.

Lemma index_byte_lt c l p : index_byte c l = Some p -> p < length l.
Proof.
  revert p; induction l as [|b l IH]; intros p; [discriminate|].
  cbn [index_byte length]. destruct (b =? c)%N; [intros [= <-]; lia|].
  destruct (index_byte c l) as [i|]; [|discriminate]. intros [= <-]. specialize (IH i eq_refl). lia.
Qed.

Lemma trim_is_strip v : trim_first_space v = strip_space v.
Proof. destruct v; reflexivity. Qed.

Lemma names_agree :
  field_name_data = s_data /\ field_name_event = s_event /\ field_name_id = s_id /\ field_name_retry = s_retry.
Proof. repeat split; reflexivity. Qed.

(* a name longer than every field name is no field name *)
Lemma long_name_unknown name : 5 < length name ->
  bytes_eqb name s_event = false /\ bytes_eqb name s_data = false /\
  bytes_eqb name s_id = false /\ bytes_eqb name s_retry = false.
Proof.
  intros H. repeat split; apply bytes_eqb_neq; intros ->; cbn in H; lia.
Qed.

Lemma parse_retry_spec on_retry v : parse_retry v = retry_value (mode_for on_retry) v.
Proof.
  unfold parse_retry, retry_value, parse_uint.
  change retry_parse_signed with false. cbn iota.
  change retry_parse_bits with 63%N.
  destruct on_retry; reflexivity.
Qed.

Ltac fin Hsb on_retry s :=
  repeat split; try reflexivity; try exact Hsb; try (destruct s; reflexivity);
  try (destruct on_retry; reflexivity).

(* process_field against rl_field, for each of the four names and for an unknown one *)
Lemma field_step on_retry s name v :
  sb_ok (rl_sb s) ->
  let r := process_field (mode_for on_retry) (st_of s) name v in
  match get_field_name name with
  | Some fn =>
      let '(s', ys') := match rl_field on_retry s (mkpf fn v) with
                        | (s', ActNone) => (s', [])
                        | (s', ActRetry n) => (s', [YRetry n])
                        | (s', ActDispatch) => (rl_cleared s', [YEv (rl_event s')])
                        end in
      fst r = st_of s' /\ vis on_retry (snd r) = ys' /\ sb_ok (rl_sb s')
  | None => r = (st_of s, [])
  end.
Proof.
  intros Hsb. cbv zeta. unfold get_field_name.
  destruct names_agree as (-> & -> & -> & ->).
  destruct (bytes_eqb name s_data) eqn:Ed.
  { apply bytes_eqb_eq in Ed. subst name. unfold process_field. cbn [bytes_eqb s_data s_event N.eqb Pos.eqb andb].
    cbn [rl_field pf_name pf_value fst snd st_of w_line w_after_cr w_data w_type w_last_id w_dirty].
    split; [reflexivity|]. split; [destruct on_retry; reflexivity|].
    cbn [rl_sb]. right. exists (rl_sb s ++ v). now rewrite <- app_assoc. }
  destruct (bytes_eqb name s_event) eqn:Ee.
  { apply bytes_eqb_eq in Ee. subst name. unfold process_field. cbn [bytes_eqb s_event N.eqb Pos.eqb andb].
    cbn [rl_field pf_name pf_value fst snd st_of w_line w_after_cr w_data w_type w_last_id w_dirty].
    split; [reflexivity|]. split; [destruct on_retry; reflexivity|]. exact Hsb. }
  destruct (bytes_eqb name s_retry) eqn:Er.
  { apply bytes_eqb_eq in Er. subst name. unfold process_field.
    cbn [bytes_eqb s_retry s_event s_data s_id N.eqb Pos.eqb andb].
    cbn [rl_field pf_name pf_value]. rewrite (parse_retry_spec on_retry).
    destruct (retry_value (mode_for on_retry) v) as [n|].
    - destruct on_retry; cbn [mode_for md_retry_dirties gosse_conn gosse_read fst snd vis st_of
                                w_line w_after_cr w_data w_type w_last_id w_dirty rl_sb rl_typ rl_last_id rl_dirty].
      + rewrite Bool.orb_true_r. fin Hsb on_retry s.
      + rewrite Bool.orb_false_r. fin Hsb on_retry s.
    - cbn [fst snd]. fin Hsb on_retry s. }
  destruct (bytes_eqb name s_id) eqn:Ei.
  { apply bytes_eqb_eq in Ei. subst name. unfold process_field.
    cbn [bytes_eqb s_retry s_event s_data s_id N.eqb Pos.eqb andb].
    cbn [rl_field pf_name pf_value st_of w_line w_after_cr w_data w_type w_last_id w_dirty].
    destruct (existsb (fun b => (b =? NUL)%N) v); cbn [fst snd];
      (split; [reflexivity|]; split; [destruct on_retry; reflexivity|exact Hsb]). }
  unfold process_field. rewrite Ee, Ed, Ei, Er. reflexivity.
Qed.

Theorem line_step on_retry s l :
  sb_ok (rl_sb s) ->
  let r := process_line (mode_for on_retry) (st_of s) l in
  let r' := line_yields on_retry s l in
  fst r = st_of (fst r') /\ vis on_retry (snd r) = snd r' /\ sb_ok (rl_sb (fst r')).
Proof.
  intros Hsb. cbv zeta. unfold line_yields.
  destruct l as [|b l'].
  - (* blank line: dispatch *)
    cbn [process_line]. change (scan_segment false []) with (Some (mkpf FEnd [])).
    cbn [rl_field pf_name]. unfold dispatch.
    replace (md_dispatch_dirty (mode_for on_retry)) with true by (destruct on_retry; reflexivity).
    cbn [st_of w_dirty]. destruct (rl_dirty s) eqn:Hd; cbn [fst snd].
    + split; [reflexivity|]. split; [|left; reflexivity].
      cbn [st_of w_last_id w_type w_data]. rewrite (sb_ok_event _ Hsb). unfold rl_event.
      destruct on_retry, (rl_typ s); reflexivity.
    + split; [unfold st_of; now rewrite Hd|]. split; [destruct on_retry; reflexivity|exact Hsb].
  - cbn [process_line].
    destruct (b =? COLON)%N eqn:Hc.
    + (* comment *)
      unfold scan_segment. cbn [index_byte]. rewrite Hc. cbn [Nat.ltb Nat.leb firstn].
      change (get_field_name []) with (@None fname). cbn [Nat.eqb andb fst snd].
      fin Hsb on_retry s.
    + rewrite split_colon_index.
      unfold scan_segment.
      destruct (index_byte COLON (b :: l')) as [p|] eqn:Ep.
      * pose proof (index_byte_lt _ _ _ Ep) as Hlt.
        destruct (max_field_name_length <? p) eqn:Hlong.
        -- apply Nat.ltb_lt in Hlong. change max_field_name_length with 5 in Hlong.
           assert (Hlen : 5 < length (firstn p (b :: l'))) by (rewrite firstn_length; lia).
           destruct (long_name_unknown _ Hlen) as (He & Hd & Hi & Hr).
           unfold process_field. rewrite He, Hd, Hi, Hr. cbn [fst snd].
           fin Hsb on_retry s.
        -- replace (Nat.min (p + 1) (length (b :: l'))) with (S p) by lia.
           pose proof (field_step on_retry s (firstn p (b :: l')) (strip_space (skipn (S p) (b :: l'))) Hsb) as H.
           change (trim_first_space (skipn (S p) (b :: l'))) with (strip_space (skipn (S p) (b :: l'))).
           cbv zeta in H.
           destruct (get_field_name (firstn p (b :: l'))) as [fn|].
           ++ destruct (rl_field on_retry s _) as [s' [| n |]]; exact H.
           ++ rewrite H. assert (Hp0 : (p =? 0) = false).
              { destruct p; [|reflexivity]. cbn [index_byte] in Ep. rewrite Hc in Ep.
                destruct (index_byte COLON l'); discriminate. }
              rewrite Hp0. cbn [andb fst snd]. fin Hsb on_retry s.
      * (* no colon: the whole line is the name, the value is empty *)
        cbn [Nat.ltb]. rewrite firstn_all.
        replace (Nat.min (length (b :: l') + 1) (length (b :: l'))) with (length (b :: l')) by lia.
        rewrite skipn_all. change (trim_first_space []) with (@nil N).
        pose proof (field_step on_retry s (b :: l') [] Hsb) as H. cbv zeta in H.
        destruct (get_field_name (b :: l')) as [fn|].
        -- destruct (rl_field on_retry s _) as [s' [| n |]]; exact H.
        -- rewrite H. cbn [length Nat.eqb andb fst snd].
           fin Hsb on_retry s.
Qed.
