(* C19: the heap semantics of Message.chunks coincides with value semantics - no operation on
   one message changes what another one reads - for every operation sequence and every
   choice of capacities by the runtime. *)
From GoSse Require Import Base Lines Fields Queue QueueProofs FieldParser Message SliceHeap.
Local Open Scope nat_scope.

(* ---- list helpers -------------------------------------------------------------- *)
Lemma nth_upd_eq {A} (l : list A) i v d : i < length l -> nth i (upd l i v) d = v.
Proof. revert i; induction l as [|x l IH]; intros [|i] H; cbn in *; try lia; auto. apply IH; lia. Qed.
Lemma nth_upd_neq {A} (l : list A) i j v d : i <> j -> nth j (upd l i v) d = nth j l d.
Proof. revert i j; induction l as [|x l IH]; intros [|i] [|j] H; cbn; auto; try congruence. Qed.
Lemma firstn_upd_le {A} (l : list A) i n v : n <= i -> firstn n (upd l i v) = firstn n l.
Proof.
  revert i n; induction l as [|x l IH]; intros [|i] [|n] H; cbn; auto; try lia. f_equal. apply IH. lia.
Qed.
Lemma firstn_upd_snoc {A} (l : list A) i v : i < length l -> firstn (S i) (upd l i v) = firstn i l ++ [v].
Proof.
  revert i; induction l as [|x l IH]; intros [|i] H; cbn in *; try lia; auto. f_equal. apply IH. lia.
Qed.
Lemma nth_error_nth_lt {A} (l : list A) i d x : nth_error l i = Some x -> nth i l d = x /\ i < length l.
Proof. intros H. split; [now apply nth_error_nth|]. apply nth_error_Some. congruence. Qed.

(* ---- the invariant --------------------------------------------------------------- *)
Definition slice_ok (h : heap) (s : slice) : Prop :=
  s_len s <= s_cap s /\ (0 < s_cap s -> s_arr s < length h /\ s_cap s <= length (nth (s_arr s) h [])).

(* if a has spare capacity, b on the same array is full and not longer than a *)
Definition excl (a b : slice) : Prop :=
  s_len a < s_cap a -> 0 < s_cap b -> s_arr a = s_arr b -> s_len b = s_cap b /\ s_len b <= s_len a.

Lemma hread_length h s : slice_ok h s -> length (hread h s) = s_len s.
Proof.
  intros [H1 H2]. unfold hread. rewrite firstn_length.
  destruct (Nat.eq_dec (s_cap s) 0) as [Hz|Hnz]; [lia|]. destruct (H2 ltac:(lia)) as [_ H3]. lia.
Qed.

(* one append: the appender reads its old contents plus x; everybody else (P) reads what it read before *)
Lemma happend_frame (P : slice -> Prop) h s x c h' s' :
  slice_ok h s ->
  (forall o, P o -> slice_ok h o /\ excl s o /\ excl o s) ->
  happend h s x c = (h', s') ->
  slice_ok h' s' /\ hread h' s' = hread h s ++ [x] /\
  (forall o, P o -> slice_ok h' o /\ hread h' o = hread h o /\ excl s' o /\ excl o s').
Proof.
  intros Hs HP. pose proof (hread_length h s Hs) as Hlen. destruct Hs as [Hlc Hs]. unfold happend.
  destruct (Nat.ltb_spec (s_len s) (s_cap s)) as [Hlt|Hge]; intros [= <- <-].
  - (* in place *)
    destruct (Hs ltac:(lia)) as [Ha Hc]. set (a := s_arr s) in *. set (arr := nth a h []) in *.
    assert (Hnew : nth a (upd h a (upd arr (s_len s) x)) [] = upd arr (s_len s) x) by (apply nth_upd_eq; exact Ha).
    split; [|split].
    + split; cbn [s_len s_cap s_arr]; [lia|]. intros _. rewrite upd_length. split; [exact Ha|].
      fold a. rewrite Hnew, upd_length. exact Hc.
    + unfold hread. cbn [s_len s_arr]. fold a. rewrite Hnew. fold arr. apply firstn_upd_snoc. lia.
    + intros o Ho. destruct (HP o Ho) as ([Holc Hos] & Hso & Hos').
      assert (Hlen_same : forall k, length (nth k (upd h a (upd arr (s_len s) x)) []) = length (nth k h [])).
      { intros k. destruct (Nat.eq_dec a k) as [<-|Hk]; [rewrite Hnew, upd_length; reflexivity|now rewrite nth_upd_neq]. }
      split; [|split; [|split]].
      * split; [exact Holc|]. intros Hpos. destruct (Hos Hpos) as [H1 H2]. rewrite upd_length, Hlen_same. split; assumption.
      * unfold hread. destruct (Nat.eq_dec (s_cap o) 0) as [Hz|Hnz].
        { replace (s_len o) with 0 by lia. reflexivity. }
        destruct (Nat.eq_dec a (s_arr o)) as [He|Hne].
        -- rewrite <- He, Hnew. fold arr. destruct (Hso Hlt ltac:(lia) He) as [_ Hle]. apply firstn_upd_le. exact Hle.
        -- now rewrite nth_upd_neq.
      * unfold excl. cbn [s_len s_cap s_arr]. intros H1 H2 H3. destruct (Hso ltac:(lia) H2 H3). split; lia.
      * unfold excl. cbn [s_len s_cap s_arr]. intros H1 H2 H3. destruct (Hos' H1 ltac:(lia) H3). lia.
  - (* reallocation *)
    set (cc := Nat.max c (S (s_len s))). set (new := hread h s ++ x :: repeat zero_chunk (cc - S (s_len s))).
    assert (Hnth : nth (length h) (h ++ [new]) [] = new) by (rewrite app_nth2, Nat.sub_diag by lia; reflexivity).
    split; [|split].
    + split; cbn [s_len s_cap s_arr]; [lia|]. intros _. rewrite app_length. cbn [length]. split; [lia|].
      rewrite Hnth. unfold new. rewrite app_length, Hlen. cbn [length]. rewrite repeat_length. lia.
    + unfold hread at 1. cbn [s_len s_arr]. rewrite Hnth. unfold new.
      rewrite firstn_app, Hlen. replace (S (s_len s) - s_len s) with 1 by lia.
      rewrite (firstn_all2 (hread h s)) by lia. reflexivity.
    + intros o Ho. destruct (HP o Ho) as ([Holc Hos] & Hso & Hos').
      split; [|split; [|split]].
      * split; [exact Holc|]. intros Hpos. destruct (Hos Hpos) as [H1 H2]. rewrite app_length. cbn [length].
        rewrite app_nth1 by exact H1. split; [lia|exact H2].
      * unfold hread. destruct (Nat.eq_dec (s_cap o) 0) as [Hz|Hnz].
        { replace (s_len o) with 0 by lia. reflexivity. }
        destruct (Hos ltac:(lia)) as [H1 _]. now rewrite app_nth1.
      * unfold excl. cbn [s_len s_cap s_arr]. intros _ H2 H3. destruct (Hos H2) as [H1 _]. lia.
      * unfold excl. cbn [s_len s_cap s_arr]. intros H1 _ H3. destruct (Hos ltac:(lia)) as [H4 _]. lia.
Qed.

Lemma happend_all_frame (P : slice -> Prop) xs : forall h s h' s',
  slice_ok h s ->
  (forall o, P o -> slice_ok h o /\ excl s o /\ excl o s) ->
  happend_all h s xs = (h', s') ->
  slice_ok h' s' /\ hread h' s' = hread h s ++ map fst xs /\
  (forall o, P o -> slice_ok h' o /\ hread h' o = hread h o /\ excl s' o /\ excl o s').
Proof.
  induction xs as [|[x c] xs IH]; intros h s h' s' Hs HP; cbn [happend_all map fst].
  - intros [= <- <-]. rewrite List.app_nil_r. split; [assumption|]. split; [reflexivity|].
    intros o Ho. destruct (HP o Ho) as (H1 & H2 & H3). auto.
  - destruct (happend h s x c) as [h1 s1] eqn:E1. intros Hall.
    destruct (happend_frame P h s x c h1 s1 Hs HP E1) as (Hs1 & Hr1 & HP1).
    destruct (IH h1 s1 h' s' Hs1) as (Hs' & Hr' & HP'); [|exact Hall|].
    { intros o Ho. destruct (HP1 o Ho) as (H1 & _ & H2 & H3). auto. }
    split; [assumption|]. split; [rewrite Hr', Hr1, <- app_assoc; reflexivity|].
    intros o Ho. destruct (HP' o Ho) as (H1 & H2 & H3 & H4). destruct (HP1 o Ho) as (_ & H5 & _).
    split; [assumption|]. split; [congruence|]. auto.
Qed.

(* ---- families -------------------------------------------------------------------- *)
Definition fam_slice (fam : list hmsg) (i : nat) : slice := hm_s (nth i fam hmsg_empty).

Definition hinv (st : hstate) : Prop :=
  (forall i, i < length (snd st) -> slice_ok (fst st) (fam_slice (snd st) i)) /\
  (forall i j, i < length (snd st) -> j < length (snd st) -> i <> j ->
               excl (fam_slice (snd st) i) (fam_slice (snd st) j)).

(* every member reads from the heap exactly its value-semantics contents *)
Definition sim (st : hstate) (v : list msg) : Prop :=
  length (snd st) = length v /\
  forall i, i < length (snd st) -> view (fst st) (nth i (snd st) hmsg_empty) = nth i v msg_empty.

Lemma set_nth_length {A} (l : list A) i f : length (set_nth l i f) = length l.
Proof. unfold set_nth. destruct (nth_error l i); [apply upd_length|reflexivity]. Qed.

Lemma nth_set_nth {A} (l : list A) i j f d :
  nth j (set_nth l i f) d = if (Nat.eqb i j) && (j <? length l) then f (nth j l d) else nth j l d.
Proof.
  unfold set_nth. destruct (nth_error l i) as [x|] eqn:E.
  - destruct (nth_error_nth_lt l i d x E) as [Hx Hlt]. destruct (Nat.eqb_spec i j) as [<-|Hne].
    + destruct (Nat.ltb_spec i (length l)); [|lia]. cbn. rewrite nth_upd_eq by assumption. now rewrite Hx.
    + cbn. now apply nth_upd_neq.
  - apply nth_error_None in E. destruct (Nat.eqb_spec i j) as [<-|Hne]; [|reflexivity].
    destruct (Nat.ltb_spec i (length l)); [lia|reflexivity].
Qed.

Lemma nth_snoc_lt {A} (l : list A) x i d : i < length l -> nth i (l ++ [x]) d = nth i l d.
Proof. intros. now apply app_nth1. Qed.
Lemma nth_snoc_eq {A} (l : list A) x d : nth (length l) (l ++ [x]) d = x.
Proof. rewrite app_nth2, Nat.sub_diag by lia. reflexivity. Qed.

Lemma clone_slice_ok h m : slice_ok h (hm_s m) -> slice_ok h (hm_s (clone_of m)).
Proof.
  intros [H1 H2]. unfold clone_of. cbn [hm_s]. split; cbn [s_len s_cap s_arr]; [lia|].
  intros Hpos. destruct (H2 ltac:(lia)) as [H3 H4]. split; [assumption|lia].
Qed.

Lemma view_clone h m : view h (clone_of m) = view h m.
Proof. reflexivity. Qed.

(* adding a member whose slice is that of a clone of member t *)
Lemma hinv_add_clone h fam t m extra :
  hinv (h, fam) -> nth_error fam t = Some m -> hm_s extra = hm_s (clone_of m) -> hinv (h, fam ++ [extra]).
Proof.
  intros [Hok Hex] Ht Hs. destruct (nth_error_nth_lt fam t hmsg_empty m Ht) as [Hm Hlt].
  cbn [fst snd] in *. unfold hinv. cbn [fst snd]. rewrite app_length. cbn [length]. unfold fam_slice in *.
  split.
  - intros i Hi. destruct (Nat.eq_dec i (length fam)) as [->|Hne].
    + rewrite nth_snoc_eq, Hs. apply clone_slice_ok. specialize (Hok t Hlt). now rewrite Hm in Hok.
    + rewrite nth_snoc_lt by lia. apply Hok. lia.
  - intros i j Hi Hj Hij.
    destruct (Nat.eq_dec i (length fam)) as [->|Hi'].
    + rewrite nth_snoc_eq, Hs. unfold excl, clone_of. cbn [hm_s s_len s_cap]. lia.
    + rewrite (nth_snoc_lt fam extra i) by lia.
      destruct (Nat.eq_dec j (length fam)) as [->|Hj'].
      * rewrite nth_snoc_eq, Hs. unfold excl, clone_of. cbn [hm_s s_len s_cap s_arr]. intros H1 H2 H3.
        split; [reflexivity|].
        destruct (Nat.eq_dec i t) as [->|Hit]; [rewrite Hm; lia|].
        specialize (Hex i t ltac:(lia) Hlt Hit). rewrite Hm in Hex. unfold excl in Hex.
        specialize (Hok t Hlt). rewrite Hm in Hok. destruct Hok as [Hlc _].
        destruct (Hex H1 ltac:(lia) H3). lia.
      * rewrite (nth_snoc_lt fam extra j) by lia. apply Hex; lia.
Qed.

Lemma sim_add h fam v extra x :
  sim (h, fam) v -> view h extra = x -> sim (h, fam ++ [extra]) (v ++ [x]).
Proof.
  intros [Hl Hv] Hx. unfold sim in *. cbn [fst snd] in *. rewrite !app_length. cbn [length]. split; [lia|].
  intros i Hi. destruct (Nat.eq_dec i (length fam)) as [->|Hne].
  - rewrite nth_snoc_eq. rewrite Hl, nth_snoc_eq. exact Hx.
  - rewrite !nth_snoc_lt by lia. apply Hv. lia.
Qed.

(* field assignments do not touch slices *)
Lemma hinv_set_fields h fam t f :
  (forall m, hm_s (f m) = hm_s m) -> hinv (h, fam) -> hinv (h, set_nth fam t f).
Proof.
  intros Hf [Hok Hex]. unfold hinv, fam_slice in *. cbn [fst snd] in *. rewrite set_nth_length.
  assert (Hsl : forall i, hm_s (nth i (set_nth fam t f) hmsg_empty) = hm_s (nth i fam hmsg_empty)).
  { intros i. rewrite nth_set_nth. destruct (_ && _); [apply Hf|reflexivity]. }
  split.
  - intros i Hi. rewrite Hsl. now apply Hok.
  - intros i j Hi Hj Hij. rewrite !Hsl. now apply Hex.
Qed.

Lemma sim_set_fields h fam v t f g :
  (forall m, view h (f m) = g (view h m)) -> sim (h, fam) v -> sim (h, set_nth fam t f) (set_nth v t g).
Proof.
  intros Hfg [Hl Hv]. unfold sim in *. cbn [fst snd] in *. rewrite !set_nth_length. split; [assumption|].
  intros i Hi. rewrite !nth_set_nth, <- Hl. destruct (_ && _); [rewrite Hfg, Hv by assumption; reflexivity|now apply Hv].
Qed.

Lemma nth_error_sim h fam v t : sim (h, fam) v ->
  match nth_error fam t with
  | Some m => nth_error v t = Some (view h m)
  | None => nth_error v t = None
  end.
Proof.
  intros [Hl Hv]. cbn [fst snd] in *. destruct (nth_error fam t) as [m|] eqn:E.
  - destruct (nth_error_nth_lt fam t hmsg_empty m E) as [Hm Hlt].
    rewrite (nth_error_nth' v msg_empty) by lia. f_equal. rewrite <- Hv, Hm by assumption. reflexivity.
  - apply nth_error_None in E. apply nth_error_None. lia.
Qed.

Theorem hstep_sim st v o : hinv st -> sim st v -> hinv (hstep st o) /\ sim (hstep st o) (vstep v o).
Proof.
  destruct st as [h fam]. intros Hinv Hsim. pose proof Hinv as [Hok Hex]. pose proof Hsim as [Hl Hv].
  cbn [fst snd] in *.
  destruct o as [t xs|t f|t f|t d|t|t|t id]; cbn [hstep vstep].
  - (* append *)
    pose proof (nth_error_sim h fam v t Hsim) as Hn.
    destruct (nth_error fam t) as [m|] eqn:E.
    2:{ split; [assumption|]. unfold set_nth. now rewrite Hn. }
    destruct (nth_error_nth_lt fam t hmsg_empty m E) as [Hm Hlt].
    destruct (happend_all h (hm_s m) xs) as [h' s'] eqn:Ea.
    set (P := fun o => exists j, j < length fam /\ j <> t /\ o = fam_slice fam j).
    destruct (happend_all_frame P xs h (hm_s m) h' s') as (Hs' & Hr' & HP'); [| |exact Ea|].
    { specialize (Hok t Hlt). unfold fam_slice in Hok. now rewrite Hm in Hok. }
    { intros o (j & Hj & Hjt & ->). split; [now apply Hok|].
      pose proof (Hex t j Hlt Hj ltac:(congruence)) as H1. pose proof (Hex j t Hj Hlt Hjt) as H2.
      unfold fam_slice in H1, H2 |- *. rewrite Hm in H1, H2. auto. }
    assert (Hsl : forall i, i < length fam -> fam_slice (upd fam t (mkh s' (hm_id m) (hm_type m) (hm_retry m))) i
                    = if Nat.eqb t i then s' else fam_slice fam i).
    { intros i Hi. unfold fam_slice. destruct (Nat.eqb_spec t i) as [<-|Hne]; [now rewrite nth_upd_eq|now rewrite nth_upd_neq]. }
    split.
    + unfold hinv. cbn [fst snd]. rewrite upd_length. split.
      * intros i Hi. rewrite Hsl by assumption. destruct (Nat.eqb_spec t i) as [<-|Hne]; [assumption|].
        apply HP'. exists i. auto.
      * intros i j Hi Hj Hij. rewrite !Hsl by assumption.
        destruct (Nat.eqb_spec t i) as [<-|Hti], (Nat.eqb_spec t j) as [<-|Htj]; try congruence.
        -- apply (HP' (fam_slice fam j)). exists j. auto.
        -- apply (HP' (fam_slice fam i)). exists i. auto.
        -- now apply Hex.
    + unfold sim. cbn [fst snd]. rewrite upd_length, set_nth_length. split; [assumption|].
      intros i Hi. rewrite nth_set_nth, <- Hl. destruct (Nat.eqb_spec t i) as [<-|Hne].
      * destruct (Nat.ltb_spec t (length fam)); [|lia]. cbn [andb]. rewrite nth_upd_eq by assumption.
        rewrite <- Hv, Hm by assumption. unfold view. cbn [hm_s hm_id hm_type hm_retry m_chunks m_id m_type m_retry]. now rewrite Hr'.
      * cbn [andb]. rewrite nth_upd_neq by assumption. rewrite <- Hv by assumption. unfold view. f_equal.
        apply (HP' (fam_slice fam i)). exists i. auto.
  - split; [apply hinv_set_fields; auto|apply sim_set_fields; auto].
  - split; [apply hinv_set_fields; auto|apply sim_set_fields; auto].
  - split; [apply hinv_set_fields; auto|apply sim_set_fields; auto].
  - (* clone *)
    pose proof (nth_error_sim h fam v t Hsim) as Hn.
    destruct (nth_error fam t) as [m|] eqn:E; rewrite Hn; [|auto].
    split; [eapply hinv_add_clone; eauto|apply sim_add; auto].
  - (* reset *)
    split.
    + unfold hinv, fam_slice in *. cbn [fst snd]. rewrite set_nth_length. split.
      * intros i Hi. rewrite nth_set_nth. destruct (_ && _); [|now apply Hok].
        split; cbn; lia.
      * intros i j Hi Hj Hij. rewrite !nth_set_nth.
        destruct (Nat.eqb t i && (i <? length fam)) eqn:E1; [unfold excl; cbn; lia|].
        destruct (Nat.eqb t j && (j <? length fam)) eqn:E2; [unfold excl; cbn; lia|]. now apply Hex.
    + apply (sim_set_fields h fam v t (fun _ => hmsg_empty) (fun _ => msg_empty)); auto.
  - (* Put with automatic IDs *)
    pose proof (nth_error_sim h fam v t Hsim) as Hn.
    destruct (nth_error fam t) as [m|] eqn:E; rewrite Hn; [|auto].
    split; [eapply hinv_add_clone; eauto|apply sim_add; auto].
Qed.

Lemma hinv_init : hinv ([], [hmsg_empty]).
Proof.
  split; cbn [fst snd length].
  - intros i Hi. assert (i = 0) by lia. subst. split; cbn; lia.
  - intros i j Hi Hj Hij. lia.
Qed.
Lemma sim_init : sim ([], [hmsg_empty]) [msg_empty].
Proof. split; [reflexivity|]. cbn [fst snd length]. intros i Hi. assert (i = 0) by lia. subst. reflexivity. Qed.

Lemma hrun_sim_gen ops : forall st v, hinv st -> sim st v ->
  hinv (fold_left hstep ops st) /\ sim (fold_left hstep ops st) (fold_left vstep ops v).
Proof.
  induction ops as [|o ops IH]; intros st v Hi Hs; cbn [fold_left]; [auto|].
  destruct (hstep_sim st v o Hi Hs). now apply IH.
Qed.

(* C19: after every operation sequence, for every capacity choice of the runtime, the chunks each
   member of the family reads from the heap are its value-semantics chunks *)
Theorem heap_is_value_semantics ops :
  map (view (fst (hrun ops))) (snd (hrun ops)) = vrun ops.
Proof.
  destruct (hrun_sim_gen ops _ _ hinv_init sim_init) as [_ [Hl Hv]]. fold (hrun ops) in *. fold (vrun ops) in *.
  apply (nth_ext _ _ msg_empty msg_empty); [now rewrite map_length|].
  intros i Hi. rewrite map_length in Hi.
  rewrite (nth_indep _ msg_empty (view (fst (hrun ops)) hmsg_empty)) by (now rewrite map_length).
  rewrite map_nth. now apply Hv.
Qed.

(* ---- corollaries in the property's words -------------------------------------------- *)
Definition hop_target (o : hop) : option nat :=
  match o with
  | HAppend t _ | HSetID t _ | HSetType t _ | HSetRetry t _ | HReset t => Some t
  | HClone _ | HPutAuto _ _ => None       (* these only add a member *)
  end.

Lemma vstep_length fam o : length fam <= length (vstep fam o).
Proof.
  destruct o as [t xs|t f|t f|t d|t|t|t id]; cbn [vstep]; rewrite ?set_nth_length; try lia;
    destruct (nth_error fam t); rewrite ?app_length; cbn [length]; lia.
Qed.

(* an operation leaves every member it does not target exactly as it was *)
Lemma vstep_others fam o j : j < length fam -> hop_target o <> Some j -> nth j (vstep fam o) msg_empty = nth j fam msg_empty.
Proof.
  intros Hj Ht. destruct o as [t xs|t f|t f|t d|t|t|t id]; cbn [vstep hop_target] in *;
    try (rewrite nth_set_nth; destruct (Nat.eqb_spec t j) as [->|]; [congruence|reflexivity]).
  - destruct (nth_error fam t); [now apply nth_snoc_lt|reflexivity].
  - destruct (nth_error fam t); [now apply nth_snoc_lt|reflexivity].
Qed.

Theorem others_unchanged ops o j :
  j < length (snd (hrun ops)) -> hop_target o <> Some j ->
  view (fst (hrun (ops ++ [o]))) (nth j (snd (hrun (ops ++ [o]))) hmsg_empty)
  = view (fst (hrun ops)) (nth j (snd (hrun ops)) hmsg_empty).
Proof.
  intros Hj Ht.
  destruct (hrun_sim_gen ops _ _ hinv_init sim_init) as [_ [Hl Hv]].
  destruct (hrun_sim_gen (ops ++ [o]) _ _ hinv_init sim_init) as [_ [Hl' Hv']].
  fold (hrun ops) (vrun ops) in *. fold (hrun (ops ++ [o])) (vrun (ops ++ [o])) in *.
  assert (Hvr : vrun (ops ++ [o]) = vstep (vrun ops) o) by (unfold vrun; now rewrite fold_left_app).
  pose proof (vstep_length (vrun ops) o) as Hlen. rewrite <- Hvr in Hlen.
  rewrite Hv' by lia. rewrite Hv by assumption. rewrite Hvr. apply vstep_others; [lia|assumption].
Qed.

(* Put with automatic IDs: the argument reads exactly as before; the stored copy has the same
   chunks, type and retry and the generated ID *)
Theorem put_auto_pure ops t id m :
  nth_error (vrun ops) t = Some m ->
  vrun (ops ++ [HPutAuto t id]) = vrun ops ++ [mkm (m_chunks m) (Some id) (m_type m) (m_retry m)].
Proof. intros H. unfold vrun. rewrite fold_left_app. cbn [fold_left vstep]. fold (vrun ops). now rewrite H. Qed.

(* publishing one message (no ID of its own) k times through an ID-assigning replayer: every
   publication is accepted and gets its own, consecutive ID *)
From GoSse Require Import Replayers Fifo FifoFacts.
Fixpoint fs_put_k (s : fspec) (k : nat) (tok : N) (topics : list bytes) : list put_res :=
  match k with
  | O => []
  | S k' => let '(s', r) := fs_put s None tok topics in r :: fs_put_k s' k' tok topics
  end.
Theorem same_message_k_times k : forall s c tok topics,
  topics <> [] -> fs_next s = Some c ->
  fs_put_k s k tok topics = map (fun i => PutOk (format_uint i)) (n_seq c k).
Proof.
  induction k as [|k IH]; intros s c tok topics Ht Hc; cbn [fs_put_k n_seq map]; [reflexivity|].
  unfold fs_put, spec_put_id. rewrite Hc. destruct topics as [|t ts]; [congruence|].
  f_equal. apply IH; [discriminate|reflexivity].
Qed.
Fixpoint vs_put_k (s : vspec) (k : nat) (nows : list Z) (tok : N) (topics : list bytes) : list put_res :=
  match k, nows with
  | S k', now :: nows' => let '(s', r) := vs_put s now None tok topics in r :: vs_put_k s' k' nows' tok topics
  | _, _ => []
  end.
Theorem same_message_k_times_valid nows : forall s c tok topics,
  topics <> [] -> vs_next s = Some c ->
  vs_put_k s (length nows) nows tok topics = map (fun i => PutOk (format_uint i)) (n_seq c (length nows)).
Proof.
  induction nows as [|now nows IH]; intros s c tok topics Ht Hc; cbn [vs_put_k length n_seq map]; [reflexivity|].
  unfold vs_put, spec_put_id. rewrite Hc. destruct topics as [|t ts]; [congruence|].
  f_equal. apply IH; [discriminate|reflexivity].
Qed.
