(* The WHATWG interpreter seen line by line.  [Whatwg.feed] consumes one byte at a time (and is
   quadratic in the length of a line, because it appends to the line buffer); here the stream is
   first cut into lines - CR LF, CR and LF each end a line - and the lines are processed in turn.
   [interp_lines_eq] proves that this is the same function as [Whatwg.interp]; it is both the
   first step of the C01 proofs and what lets the oracles run on 64 KiB events. *)
From GoSse Require Import Base Lines Whatwg.
Local Open Scope N_scope.

(* complete lines (without terminators) and the unterminated rest *)
Fixpoint wlines (s : bytes) : list bytes * bytes :=
  match s with
  | [] => ([], [])
  | b :: r =>
      if is_nl b then
        let '(ls, tl) := match r with
                         | c :: r' => if (b =? CR) && (c =? LF) then wlines r' else wlines r
                         | [] => wlines r
                         end in
        ([] :: ls, tl)
      else
        match wlines r with
        | (l :: ls, tl) => ((b :: l) :: ls, tl)
        | ([], tl) => ([], b :: tl)
        end
  end.

(* the same after a CR: a leading LF belongs to that CR *)
Definition wlines' (after_cr : bool) (s : bytes) : list bytes * bytes :=
  match s with
  | c :: r => if after_cr && (c =? LF) then wlines r else wlines s
  | [] => wlines s
  end.

Fixpoint run_lines (m : mode) (st : wst) (ls : list bytes) : wst * list yield :=
  match ls with
  | [] => (st, [])
  | l :: r => let '(st', ys) := process_line m st l in
              let '(st'', ys') := run_lines m st' r in (st'', ys ++ ys')
  end.

Definition set_line (st : wst) (l : bytes) (cr : bool) : wst :=
  mkw l cr (w_data st) (w_type st) (w_last_id st) (w_dirty st).

Definition interp_lines (m : mode) (last_id : bytes) (stream : bytes) (e : ending) : list yield :=
  let '(ls, tl) := wlines (strip_bom stream) in
  let '(st, ys) := run_lines m (w_init last_id) ls in
  ys ++ finish m (set_line st tl false) e.

(* ---- process_line never looks at the line buffer or the CR flag ------------------------------- *)
Lemma dispatch_set_line m st l c :
  dispatch m (set_line st l c) = (set_line (fst (dispatch m st)) l c, snd (dispatch m st)).
Proof.
  destruct st as [ln cr d t i dirty]. unfold dispatch, set_line.
  cbn [w_line w_after_cr w_data w_type w_last_id w_dirty].
  destruct (md_dispatch_dirty m).
  - destruct dirty; reflexivity.
  - destruct d; reflexivity.
Qed.

Lemma process_field_set_line m st l c name v :
  process_field m (set_line st l c) name v
  = (set_line (fst (process_field m st name v)) l c, snd (process_field m st name v)).
Proof.
  destruct st as [ln cr d t i dirty]. unfold process_field, set_line.
  cbn [w_line w_after_cr w_data w_type w_last_id w_dirty].
  destruct (bytes_eqb name s_event); [reflexivity|].
  destruct (bytes_eqb name s_data); [reflexivity|].
  destruct (bytes_eqb name s_id).
  - destruct (existsb _ v); reflexivity.
  - destruct (bytes_eqb name s_retry); [|reflexivity].
    destruct (retry_value m v); reflexivity.
Qed.

Lemma process_line_set_line m st l c x :
  process_line m (set_line st l c) x
  = (set_line (fst (process_line m st x)) l c, snd (process_line m st x)).
Proof.
  unfold process_line. destruct x as [|b x']; [apply dispatch_set_line|].
  destruct (b =? COLON); [reflexivity|].
  destruct (split_colon (b :: x')) as [name v]. apply process_field_set_line.
Qed.

Lemma set_line_set_line st l c l' c' : set_line (set_line st l c) l' c' = set_line st l' c'.
Proof. reflexivity. Qed.

Lemma set_line_id st : set_line st (w_line st) (w_after_cr st) = st.
Proof. destruct st; reflexivity. Qed.

Lemma run_lines_set_line m ls : forall st l c,
  run_lines m (set_line st l c) ls
  = (set_line (fst (run_lines m st ls)) l c, snd (run_lines m st ls)).
Proof.
  induction ls as [|x ls IH]; intros st l c; cbn [run_lines]; [reflexivity|].
  rewrite process_line_set_line.
  destruct (process_line m st x) as [st1 ys1]. cbn [fst snd].
  rewrite IH. destruct (run_lines m st1 ls) as [st2 ys2]. reflexivity.
Qed.

Lemma run_lines_app m a : forall b st,
  run_lines m st (a ++ b)
  = let '(st1, ys1) := run_lines m st a in
    let '(st2, ys2) := run_lines m st1 b in (st2, ys1 ++ ys2).
Proof.
  induction a as [|x a IH]; intros b st; cbn [run_lines app].
  - destruct (run_lines m st b). reflexivity.
  - destruct (process_line m st x) as [st1 ys1]. rewrite IH.
    destruct (run_lines m st1 a) as [st2 ys2]. destruct (run_lines m st2 b) as [st3 ys3].
    now rewrite app_assoc.
Qed.

(* ---- wlines ------------------------------------------------------------------------------------ *)
Lemma wlines_nl b r : is_nl b = true ->
  wlines (b :: r) = ([] :: fst (wlines' (b =? CR) r), snd (wlines' (b =? CR) r)).
Proof.
  intros Hb. cbn [wlines]. rewrite Hb. unfold wlines'.
  destruct r as [|c r'].
  - reflexivity.
  - destruct ((b =? CR) && (c =? LF)).
    + destruct (wlines r'); reflexivity.
    + destruct (wlines (c :: r')); reflexivity.
Qed.

Lemma wlines_non_nl b r : is_nl b = false ->
  wlines (b :: r) = match wlines r with
                    | (l :: ls, tl) => ((b :: l) :: ls, tl)
                    | ([], tl) => ([], b :: tl)
                    end.
Proof. intros Hb. cbn [wlines]. now rewrite Hb. Qed.

(* ---- feed_all = run_lines over wlines ------------------------------------------------------------ *)
Definition lines_result (m : mode) (st : wst) (p : list bytes * bytes) : wst * list yield :=
  match p with
  | ([], tl) => (set_line st (w_line st ++ tl) false, [])
  | (l :: ls, tl) =>
      let '(st2, ys) := run_lines m (set_line st [] false) ((w_line st ++ l) :: ls) in
      (set_line st2 tl false, ys)
  end.

Definition norm_cr (r : wst * list yield) : wst * list yield :=
  (set_line (fst r) (w_line (fst r)) false, snd r).

Lemma is_nl_LF : is_nl LF = true. Proof. reflexivity. Qed.

Lemma process_line_clean m st x st1 ys1 :
  process_line m (set_line st [] false) x = (st1, ys1) -> set_line st1 [] false = st1.
Proof.
  intros E. rewrite process_line_set_line in E. injection E as E _. now rewrite <- E.
Qed.

Lemma norm_cr_let (r : wst * list yield) ys1 :
  norm_cr (let '(st2, ys2) := r in (st2, ys1 ++ ys2))
  = let '(st2, ys2) := norm_cr r in (st2, ys1 ++ ys2).
Proof. destruct r; reflexivity. Qed.

Lemma lines_result_nl m st st1 ys1 ls tl c :
  process_line m (set_line st [] false) (w_line st) = (st1, ys1) ->
  lines_result m st ([] :: ls, tl)
  = let '(st2, ys2) := lines_result m (set_line st1 [] c) (ls, tl) in (st2, ys1 ++ ys2).
Proof.
  intros E1. pose proof (process_line_clean _ _ _ _ _ E1) as Hc.
  unfold lines_result. rewrite app_nil_r. cbn [run_lines]. rewrite E1.
  destruct ls as [|l ls].
  - cbn [run_lines]. rewrite app_nil_r. cbn [set_line w_line app w_data w_type w_last_id w_dirty].
    reflexivity.
  - rewrite set_line_set_line, Hc. cbn [set_line w_line app]. cbn [run_lines].
    destruct (process_line m st1 l) as [st3 ys3]. destruct (run_lines m st3 ls) as [st4 ys4]. reflexivity.
Qed.

Lemma lines_result_byte m st b p :
  lines_result m (set_line st (w_line st ++ [b]) false) p
  = lines_result m st (match p with
                       | (l :: ls, tl) => ((b :: l) :: ls, tl)
                       | ([], tl) => ([], b :: tl)
                       end).
Proof.
  destruct p as [[|l ls] tl]; unfold lines_result; cbn [set_line w_line w_data w_type w_last_id w_dirty];
    rewrite <- app_assoc; reflexivity.
Qed.

Lemma wlines'_false r : wlines' false r = wlines r.
Proof. destruct r; reflexivity. Qed.

Lemma feed_all_lines m s : forall st,
  norm_cr (feed_all m st s) = lines_result m st (wlines' (w_after_cr st) s).
Proof.
  induction s as [|b r IH]; intros st.
  - cbn [feed_all wlines' wlines lines_result norm_cr fst snd]. now rewrite app_nil_r.
  - cbn [feed_all]. unfold feed.
    destruct (w_after_cr st && (b =? LF)) eqn:Hsw.
    + (* the LF of a CR LF *)
      apply andb_true_iff in Hsw as [Hcr Hlf].
      unfold wlines'. rewrite Hcr, Hlf. cbn [andb].
      specialize (IH (mkw (w_line st) false (w_data st) (w_type st) (w_last_id st) (w_dirty st))).
      cbn [w_after_cr] in IH. rewrite wlines'_false in IH.
      rewrite (norm_cr_let _ []). rewrite IH.
      destruct (wlines r) as [[|l ls] tl]; unfold lines_result, set_line;
        cbn [w_line w_data w_type w_last_id w_dirty].
      * reflexivity.
      * destruct (run_lines m _ _). reflexivity.
    + assert (Hwl : wlines' (w_after_cr st) (b :: r) = wlines (b :: r)).
      { unfold wlines'. now rewrite Hsw. }
      rewrite Hwl.
      destruct ((b =? LF) || (b =? CR)) eqn:Hnl.
      * (* a line end *)
        assert (Hb : is_nl b = true) by exact Hnl.
        rewrite (wlines_nl b r Hb).
        change (mkw [] (b =? CR) (w_data st) (w_type st) (w_last_id st) (w_dirty st))
          with (set_line (set_line st [] false) [] (b =? CR)).
        rewrite process_line_set_line.
        destruct (process_line m (set_line st [] false) (w_line st)) as [st1 ys1] eqn:E1.
        cbn [fst snd].
        rewrite norm_cr_let, IH. cbn [set_line w_after_cr].
        destruct (wlines' (b =? CR) r) as [ls tl]. cbn [fst snd].
        symmetry. apply (lines_result_nl m st st1 ys1 ls tl (b =? CR) E1).
      * (* an ordinary byte *)
        assert (Hb : is_nl b = false) by exact Hnl.
        rewrite (wlines_non_nl b r Hb).
        rewrite (norm_cr_let _ []), IH. cbn [w_after_cr]. rewrite wlines'_false.
        change (mkw (w_line st ++ [b]) false (w_data st) (w_type st) (w_last_id st) (w_dirty st))
          with (set_line st (w_line st ++ [b]) false).
        rewrite lines_result_byte.
        destruct (lines_result m st _). reflexivity.
Qed.

Lemma finish_norm m st e : finish m (set_line st (w_line st) false) e = finish m st e.
Proof.
  unfold finish. destruct e; [|reflexivity].
  destruct (md_flush_at_eof m); [|reflexivity].
  cbn [set_line w_line]. destruct (w_line st); [|reflexivity].
  f_equal. pose proof (dispatch_set_line m st [] false) as H.
  unfold set_line in *. cbn in *.
  unfold dispatch. cbn [w_line w_after_cr w_data w_type w_last_id w_dirty].
  destruct (md_dispatch_dirty m); [destruct (w_dirty st)|destruct (w_data st)]; reflexivity.
Qed.

Theorem interp_lines_eq m last_id stream e :
  interp_lines m last_id stream e = interp m last_id stream e.
Proof.
  unfold interp, interp_lines.
  pose proof (feed_all_lines m (strip_bom stream) (w_init last_id)) as H.
  cbn [w_init w_after_cr] in H.
  assert (Hw : wlines' false (strip_bom stream) = wlines (strip_bom stream)) by (destruct (strip_bom stream); reflexivity).
  rewrite Hw in H.
  destruct (feed_all m (w_init last_id) (strip_bom stream)) as [st ys] eqn:E.
  unfold norm_cr in H. cbn [fst snd] in H.
  destruct (wlines (strip_bom stream)) as [[|l ls] tl] eqn:Ewl; unfold lines_result in H.
  - cbn [run_lines].
    pose proof (f_equal fst H) as H1. pose proof (f_equal snd H) as H2. cbn [fst snd] in H1, H2.
    subst ys. cbn [app].
    rewrite <- (finish_norm m st e). rewrite H1. reflexivity.
  - change (set_line (w_init last_id) [] false) with (w_init last_id) in H.
    cbn [w_init w_line app] in H. revert H. unfold bytes, byte in *.
    destruct (run_lines m (w_init last_id) (l :: ls)) as [st2 ys2] eqn:E2. intros H.
    pose proof (f_equal fst H) as H1. pose proof (f_equal snd H) as H2. cbn [fst snd] in H1, H2.
    subst ys.
    rewrite <- (finish_norm m st e). rewrite H1. reflexivity.
Qed.
