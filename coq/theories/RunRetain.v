(* val-level entry points of families "finite_retain" / "valid_retain" (C18, runtime observation
   with finalizers): which of the messages handed to Put are still reachable after the history.
   input : as the finite / valid families;  output: (n0 (n<tok> ...)) ascending | (n1) *)
From GoSse Require Import Base Lines Fields Queue Replayers Fifo Run.
Local Open Scope N_scope.

Fixpoint insert_n (x : N) (l : list N) : list N :=
  match l with [] => [x] | y :: r => if x <=? y then x :: l else y :: insert_n x r end.
Definition sort_n (l : list N) : list N := fold_right insert_n [] l.

Definition slot_toks (q : queue entry) : list N :=
  flat_map (fun s => match s with Some e => [e_tok e] | None => [] end) (buf q).
Definition enc_toks (l : list N) : val := VL [VN 0; VL (map VN (sort_n l))].

(* the model: what the slots of the ring hold at the end (explicit IDs: the caller's messages
   themselves; automatic IDs: copies, so none of the caller's messages) *)
Definition run_finite_retain (i : val) : val :=
  match fr_new (as_nat (nth_val 0 i)) (as_bool (nth_val 1 i)) with
  | None => VL [VN 1]
  | Some s =>
      let '(tr, ok) := fr_trace s (map dec_fop (as_l (nth_val 2 i))) in
      if as_bool (nth_val 1 i) then enc_toks []
      else enc_toks (slot_toks (f_q (last (map snd tr) s)))
  end.

Definition last_now (ops : list val) : Z := as_z (nth_val 1 (last ops (VL []))).

Definition run_valid_retain (i : val) : val :=
  match vr_new (as_z (nth_val 0 i)) (as_bool (nth_val 1 i)) (as_opt as_z (nth_val 2 i)) with
  | None => VL [VN 1]
  | Some s =>
      let ops := as_l (nth_val 3 i) in
      let '(tr, ok) := vr_trace s (map dec_vop ops ++ [VGC (last_now ops)]) in
      if as_bool (nth_val 1 i) then enc_toks []
      else enc_toks (slot_toks (v_q (last (map snd tr) s)))
  end.

(* the property on the observation: nothing is reachable but (a subset of) the last N accepted
   events / the accepted events that are not expired at the final collection *)
Definition subset_n (a b : list N) : bool := forallb (fun x => existsb (N.eqb x) b) a.
Definition obs_toks (o : val) : list N := map as_n (as_l (nth_val 1 o)).

Definition holds_finite_retain (i o : val) : bool :=
  if (as_nat (nth_val 0 i) <? 2)%nat then val_eqb o (VL [VN 1])
  else
    let s := fs_after (fs_new (as_nat (nth_val 0 i)) (as_bool (nth_val 1 i))) (map dec_fop (as_l (nth_val 2 i))) in
    if as_bool (nth_val 1 i) then match obs_toks o with [] => true | _ => false end
    else subset_n (obs_toks o) (map e_tok (fs_l s)) && (length (obs_toks o) <=? as_nat (nth_val 0 i))%nat.

Definition holds_valid_retain (i o : val) : bool :=
  if (as_z (nth_val 0 i) <=? 0)%Z then val_eqb o (VL [VN 1])
  else
    let ops := as_l (nth_val 3 i) in
    let now := last_now ops in
    let s := vs_after (vs_new (as_z (nth_val 0 i)) (as_bool (nth_val 1 i)) (as_opt as_z (nth_val 2 i))) (map dec_vop ops) in
    if as_bool (nth_val 1 i) then match obs_toks o with [] => true | _ => false end
    else subset_n (obs_toks o) (map e_tok (filter (fun e => (now <? e_exp e)%Z) (vs_l s))).
