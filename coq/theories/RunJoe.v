(* val-level entry points of the Joe family (C03 C04 C06 C07 C17).

   A harness line is   input = ( scenario ( status events ) )   observed = n1.
   [run_joe] replays the observed hook trace through [JoeLts.step] (trace inclusion): it returns
   n1 iff every event is accepted, otherwise ( n0 index event ).  So a "K" of the driver means:
   the trace observed from the real Joe is NOT a path of the model.
   [holds_joe_*] are the property monitors, written from the property texts, evaluated on the
   observed history alone (they do not use the LTS).

   status: n0 = the scenario ran to completion, n1 = the process crashed (panic), n2 = some call
   did not return before the (generous) deadline.

   events, in the one total order in which the hook recorded them:
     ( n1 i topics idopt )  sub.enter          ( n2 i ) sub.closed     ( n3 i ) sub.sent
     ( n4 i err ) sub.done  ( n5 i ) sub.ctx   ( n6 i ) sub.unsub      ( n7 i err ) sub.drain
     ( n8 i ) sub.return    ( n9 i err ) Subscribe returned err (harness)
     ( n10 i ) harness is about to cancel subscriber i's context
     ( n11 p topics idopt thread ) pub.enter (topics, idopt: what the publisher gave the message)
     ( n12 p ) pub.sent      ( n13 p ) pub.closed
     ( n14 p ) pub.return   ( n15 p err ) Publish returned err (harness)
     ( n16 h ) shut.enter   ( n17 h ) shut.close   ( n18 h ) shut.closed  ( n19 h ) shut.done
     ( n20 h ) shut.ctx     ( n21 h ) shut.return  ( n22 h err ) Shutdown returned err (harness)
     ( n23 h ) harness is about to cancel shutdown caller h's context
     ( n24 ) loop.idle      ( n25 p ) loop.msg     ( n26 p err ) loop.put  ( n27 p ) loop.errs
     ( n28 i err ) loop.fail  ( n29 i ) loop.remove  ( n30 i ) loop.remove.skip
     ( n31 i ) loop.sub     ( n32 i err ) loop.replayed  ( n33 i err ) loop.reject  ( n34 i ) loop.reg
     ( n35 i ) loop.unsub   ( n36 ) loop.done      ( n37 ) loop.exit
     ( n38 i tok id v ) the writer of i got Send(message tok carrying ID id), answered v
     ( n39 i v ) the writer of i got Flush, answered v
     ( n40 p v id ) Replayer.Put of message p finished with verdict v, returned ID id
     ( n41 i ) Replayer.Replay for subscriber i starts
     ( n42 p topics ) harness is about to call Publish for message p with these topics
   err / v: n0 = nil/ok, n1 = ErrProviderClosed, n2 = context error, n98 = replayer panic,
   >= 100 scripted errors (of any character: plain, Timeout(), wrapping a sentinel ...: all alike to the model),
   n90.. real replayer errors.

   scenario = ( meta replayer ... ), replayer = ( kind ... ): kind n4 = Joe has NO replayer.  joe.go then runs
   its noopReplayer, whose calls are not observable: loop.put / loop.replayed arrive without a Put / Replay
   record and stand for a Put / Replay that answered ok and made no call on the writer ([norep] below). *)
From GoSse Require Import Base JoeLts.
Local Open Scope nat_scope.

Definition dec_err (v : val) : option nat := match as_nat v with 0 => None | k => Some k end.
Definition dec_verdict (v : val) : verdict :=
  match as_nat v with 0 => VOk | 98 => VPanic | k => VErr k end.
Definition dec_topics (v : val) : list nat := map as_nat (as_l v).

Definition verdict_eqb (a b : verdict) : bool :=
  match a, b with
  | VOk, VOk => true | VPanic, VPanic => true | VErr x, VErr y => Nat.eqb x y | _, _ => false end.
Definition optnat_eqb (a b : option nat) : bool :=
  match a, b with None, None => true | Some x, Some y => Nat.eqb x y | _, _ => false end.

(* checker state: the LTS state and the rendezvous halves still to be confirmed (event code, id) *)
(* the checker's state: the LTS state, the rendezvous halves still to be confirmed, and - for the coverage figure of the
   evidence only - the kinds of the LTS labels taken so far (newest first) *)
Definition chk := (state * list (nat * nat) * list nat)%type.
Definition cst (c : chk) : state := fst (fst c).
Definition cpend (c : chk) : list (nat * nat) := snd (fst c).
Definition clab (c : chk) : list nat := snd c.

Definition label_kind (l : label) : nat :=
  match l with
  | SubEnter _ _ => 0 | SubClosed _ => 1 | SubSend _ => 2 | SubDone _ => 3 | SubCtx _ => 4 | SubUnsub _ => 5 | Cancel _ => 6
  | PubEnter _ _ => 7 | PubSend _ => 8 | PubClosed _ => 9 | PubRecv _ => 10
  | ShutEnter _ => 11 | ShutClose _ => 12 | ShutDone _ => 13 | ShutCtx _ => 14 | HCancel _ => 15
  | LIdle => 16 | LPut _ _ => 17 | LPutRes _ => 18 | LErrs _ => 19 | LSend _ _ => 20 | LFlush _ _ => 21 | LFail _ => 22
  | LRemove _ => 23 | LRemoveSkip _ => 24 | LReplay _ => 25 | LRSend _ _ _ => 26 | LRFlush _ _ => 27 | LReplayed _ _ => 28
  | LReject _ => 29 | LReg _ => 30 | LDone => 31 | LExit => 32
  end.

Definition pair_eqb (a b : nat * nat) : bool := Nat.eqb (fst a) (fst b) && Nat.eqb (snd a) (snd b).
Fixpoint drop1 (x : nat * nat) (l : list (nat * nat)) : list (nat * nat) :=
  match l with [] => [] | y :: r => if pair_eqb x y then r else y :: drop1 x r end.

Definition do_step (c : chk) (l : label) : option chk :=
  match step (cst c) l with Some s' => Some (s', cpend c, label_kind l :: clab c) | None => None end.
Definition confirm (c : chk) (b : bool) : option chk := if b then Some c else None.
Definition bind (o : option chk) (f : chk -> option chk) : option chk :=
  match o with Some c => f c | None => None end.

(* the two halves of an unbuffered rendezvous are logged by two goroutines in either order: the
   joint step is taken at the first half, the second half is a confirmation *)
Definition rendezvous (c : chk) (me other id : nat) (l : label) : option chk :=
  if existsb (pair_eqb (me, id)) (cpend c) then Some (cst c, drop1 (me, id) (cpend c), clab c)
  else match step (cst c) l with Some s' => Some (s', (other, id) :: cpend c, label_kind l :: clab c) | None => None end.

Definition sub_ret_is (s : state) (i : nat) (r : option nat) : bool :=
  match s_pc (sub s i) with SRet r' => optnat_eqb r r' | _ => false end.
Definition pub_ret_is (s : state) (p : nat) (r : option nat) : bool :=
  match p_pc (pub s p) with PRet r' => optnat_eqb r r' | _ => false end.
Definition shut_ret_is (s : state) (h : nat) (r : option nat) : bool :=
  match h_pc (shut s h) with HRet r' => optnat_eqb r r' | _ => false end.

Definition ev_step (norep : bool) (closer : option nat) (c : chk) (e : val) : option chk :=
  let s := cst c in
  let a := as_nat (nth_val 1 e) in
  let b := nth_val 2 e in
  match as_nat (nth_val 0 e) with
  | 1 => do_step c (SubEnter a (dec_topics b))
  | 2 => do_step c (SubClosed a)
  | 3 => rendezvous c 3 31 a (SubSend a)
  | 4 => bind (confirm c (match s_pc (sub s a) with AtSel2 | AtSel3 => true | _ => false end))
           (fun c => bind (do_step c (SubDone a)) (fun c => confirm c (sub_ret_is (cst c) a (dec_err b))))
  | 5 => do_step c (SubCtx a)
  | 6 => rendezvous c 6 35 a (SubUnsub a)
  | 7 => bind (confirm c (match s_pc (sub s a) with Draining => true | _ => false end))
           (fun c => bind (do_step c (SubDone a)) (fun c => confirm c (sub_ret_is (cst c) a (dec_err b))))
  | 8 => confirm c (sub_returned s a)
  | 9 => confirm c (sub_ret_is s a (dec_err b))
  | 10 => do_step c (Cancel a)
  | 11 => do_step c (PubEnter a (dec_topics b))
  | 12 => rendezvous c 12 25 a (PubSend a)
  | 13 => do_step c (PubClosed a)
  | 14 => match p_pc (pub s a) with
          | PWait => do_step c (PubRecv a)
          | PRet _ => Some c
          | _ => None end
  | 15 => confirm c (pub_ret_is s a (dec_err b))
  | 16 => do_step c (ShutEnter a)
  | 17 => match closer with
          | Some h => if Nat.eqb h a then do_step c (ShutClose a)
                      else confirm c (match h_pc (shut s a) with HEntered => true | _ => false end)
          | None => confirm c (match h_pc (shut s a) with HEntered => true | _ => false end)
          end
  | 18 => confirm c (match h_pc (shut s a) with HWaiting => true | _ => false end)
  | 19 => do_step c (ShutDone a)
  | 20 => do_step c (ShutCtx a)
  | 21 => match h_pc (shut s a) with
          | HEntered => (* its close(j.done) panicked and was recovered: somebody else had closed *)
              bind (do_step c (ShutClose a)) (fun c => confirm c (shut_ret_is (cst c) a (Some E_CLOSED)))
          | HRet _ => Some c
          | _ => None end
  | 22 => confirm c (shut_ret_is s a (dec_err b))
  | 23 => do_step c (HCancel a)
  | 24 => do_step c LIdle
  | 25 => rendezvous c 25 12 a (PubSend a)
  | 26 => bind (if norep then match pc s with GotMsg _ => do_step c (LPut a VOk) | _ => None end else Some c)
            (fun c => bind (confirm c (match pc (cst c) with PutDone q v => Nat.eqb q a && verdict_eqb v (dec_verdict b) | _ => false end))
                        (fun c => do_step c (LPutRes a)))
  | 27 => do_step c (LErrs a)
  | 28 => bind (confirm c (match pc s with Failing _ j e _ => Nat.eqb j a && Nat.eqb e (as_nat b) | _ => false end))
            (fun c => do_step c (LFail a))
  | 29 => do_step c (LRemove a)
  | 30 => do_step c (LRemoveSkip a)
  | 31 => rendezvous c 31 3 a (SubSend a)
  | 32 => if norep
          then match pc s with
               | GotSub _ => bind (do_step c (LReplay a))
                               (fun c => if is_ok (dec_verdict b) then do_step c (LReplayed a VOk) else None)
               | _ => None end
          else do_step c (LReplayed a (dec_verdict b))
  | 33 => bind (confirm c (match pc s with Rejecting j e => Nat.eqb j a && Nat.eqb e (as_nat b) | _ => false end))
            (fun c => do_step c (LReject a))
  | 34 => do_step c (LReg a)
  | 35 => rendezvous c 35 6 a (SubUnsub a)
  | 36 => do_step c LDone
  | 37 => do_step c LExit
  | 38 => match pc s with
          | Replaying _ => do_step c (LRSend a (as_nat b) (dec_verdict (nth_val 4 e)))
          | Fan p _ => if Nat.eqb p (as_nat b) then do_step c (LSend a (dec_verdict (nth_val 4 e))) else None
          | _ => None end
  | 39 => match pc s with
          | Replaying _ => do_step c (LRFlush a (dec_verdict b))
          | _ => do_step c (LFlush a (dec_verdict b)) end
  | 40 => if norep then None else do_step c (LPut a (dec_verdict b))
  | 41 => if norep then None else do_step c (LReplay a)
  | 42 => Some c
  | _ => None
  end.

(* who really closed j.done: the caller that logged shut.closed *)
Fixpoint find_closer (evs : list val) : option nat :=
  match evs with
  | [] => None
  | e :: r => if Nat.eqb (as_nat (nth_val 0 e)) 18 then Some (as_nat (nth_val 1 e)) else find_closer r
  end.

Fixpoint check_from (norep : bool) (closer : option nat) (c : chk) (idx : nat) (evs : list val) : chk + (nat * val) :=
  match evs with
  | [] => inl c
  | e :: r => match ev_step norep closer c e with
              | Some c' => check_from norep closer c' (S idx) r
              | None => inr (idx, e)
              end
  end.

Definition obs_of (i : val) : val := nth_val 1 i.
Definition status_of (i : val) : nat := as_nat (nth_val 0 (obs_of i)).
Definition events_of (i : val) : list val := as_l (nth_val 1 (obs_of i)).
(* the scenario's replayer kind *)
Definition rep_kind_of (i : val) : nat := as_nat (nth_val 0 (nth_val 1 (nth_val 0 i))).
Definition norep_of (i : val) : bool := Nat.eqb (rep_kind_of i) 4.

Definition accepted : val := VN 1.

(* trace inclusion.  A complete run must also leave no rendezvous half unconfirmed. *)
Definition run_joe (i : val) : val :=
  let evs := events_of i in
  match check_from (norep_of i) (find_closer evs) (init, [], []) 0 evs with
  | inr (idx, e) => VL [VN 0; vnat idx; e]
  | inl c =>
      match status_of i with
      | 0 => match cpend c with [] => accepted | _ => VL [VN 0; vnat (length evs); VL [VN 3]] end
      | 1 => VL [VN 0; vnat (length evs); VL [VN 1]]   (* the process crashed: the model never does *)
      | _ => accepted                                    (* incomplete trace: its prefix is a path *)
      end
  end.

(* coverage of the LTS by the accepted traces (evidence only): the kinds of the labels taken along a trace that is a
   path of the model, each kind once; nothing for a trace that is not *)
Fixpoint dedup_nat (l : list nat) : list nat :=
  match l with
  | [] => []
  | x :: r => if existsb (Nat.eqb x) r then dedup_nat r else x :: dedup_nat r
  end.
Definition cover_joe (i : val) : val :=
  let evs := events_of i in
  match check_from (norep_of i) (find_closer evs) (init, [], []) 0 evs with
  | inl c => VL (map vnat (dedup_nat (clab c)))
  | inr _ => VL []
  end.

(* the property monitors are in RunJoeMon.v *)
