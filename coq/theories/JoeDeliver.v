(* C03 on the LTS: consequences of the history invariant - exactly once, in one global order, only
   matching, program order, flush before idle, everything published before the cancellation. *)
From GoSse Require Import Base JoeLts JoeLocal JoeProj JoePub JoeInv JoeSafety JoeHist.
From Coq Require Import Lia.
Local Open Scope nat_scope.

(* ---- subsequences ----------------------------------------------------------------- *)
Inductive subseq : list nat -> list nat -> Prop :=
| sub_nil : subseq [] []
| sub_skip x a b : subseq a b -> subseq a (x :: b)
| sub_take x a b : subseq a b -> subseq (x :: a) (x :: b).

Lemma subseq_nil b : subseq [] b.
Proof. induction b; constructor; auto. Qed.
Lemma subseq_refl a : subseq a a.
Proof. induction a; [apply sub_nil|apply sub_take; auto]. Qed.
Lemma subseq_trans a b c : subseq a b -> subseq b c -> subseq a c.
Proof.
  intros H1 H2. revert a H1. induction H2; intros a0 H1.
  - exact H1.
  - constructor. auto.
  - inversion H1; subst; [apply sub_skip; auto|apply sub_take; auto].
Qed.
Lemma subseq_filter f l : subseq (filter f l) l.
Proof. induction l as [|x l IH]; cbn; [apply sub_nil|]. destruct (f x); [apply sub_take|apply sub_skip]; auto. Qed.
Lemma subseq_firstn n l : subseq (firstn n l) l.
Proof.
  revert l. induction n as [|n IH]; intros [|x l]; cbn; try apply subseq_nil. apply sub_take. apply IH.
Qed.
Lemma subseq_skipn n l : subseq (skipn n l) l.
Proof.
  revert l. induction n as [|n IH]; intros [|x l]; cbn; try apply subseq_refl. apply sub_skip. apply IH.
Qed.
Lemma subseq_slice l a b : subseq (slice l a b) l.
Proof. unfold slice. eapply subseq_trans; [apply subseq_firstn|apply subseq_skipn]. Qed.
Lemma subseq_In a b x : subseq a b -> In x a -> In x b.
Proof. induction 1 as [|y a b S IH|y a b S IH]; cbn; intros Hi; auto. destruct Hi; auto. Qed.
Lemma subseq_nodup a b : subseq a b -> NoDup b -> NoDup a.
Proof.
  induction 1 as [|y a b S IH|y a b S IH]; intros N; auto.
  - inversion N; auto.
  - inversion N as [|? ? N1 N2]; subst. constructor; auto. intros Hi. apply N1. eapply subseq_In; eauto.
Qed.

(* ---- C03 ---------------------------------------------------------------------------- *)

(* the Send calls made on i's writer by the fan-out (successful or failing) are exactly [due s i]:
   the messages of the global publish order [order s] from position reg_i (its registration)
   up to its removal - or up to now, minus the message in flight if the fan-out has not reached i
   yet - whose topics intersect i's, in that order *)
Theorem deliveries s i : reachable s -> sends (s_llog (sub s i)) = due s i.
Proof. intros R. apply h_due. now apply hist_reachable. Qed.

(* hence: every subscriber's deliveries are a subsequence of the one global order ... *)
Theorem single_order s i : reachable s -> subseq (sends (s_llog (sub s i))) (order s).
Proof.
  intros R. rewrite deliveries by exact R. unfold due. destruct (s_reg (sub s i)); [|apply subseq_nil].
  eapply subseq_trans; [apply subseq_filter|apply subseq_slice].
Qed.

(* ... in which every accepted Publish call appears once: no message is handed over twice, however
   many topics match *)
Theorem at_most_once s i : reachable s -> NoDup (sends (s_llog (sub s i))).
Proof.
  intros R. eapply subseq_nodup; [apply single_order; exact R|]. apply h_nodup. now apply hist_reachable.
Qed.

(* only messages whose topics intersect the subscriber's *)
Theorem only_matching s i p :
  reachable s -> In p (sends (s_llog (sub s i))) -> matches s i p = true /\ In p (order s).
Proof.
  intros R H. rewrite deliveries in H by exact R. unfold due in H.
  destruct (s_reg (sub s i)); [|contradiction]. apply filter_In in H. destruct H as [H1 H2].
  split; [exact H2|]. eapply In_slice; eauto.
Qed.

(* nothing to a subscriber that was never registered *)
Theorem unregistered_nothing s i : reachable s -> s_reg (sub s i) = None -> s_llog (sub s i) = [].
Proof. intros R. apply h_nolog. now apply hist_reachable. Qed.

(* ---- the publish order only grows; program order ---------------------------------------- *)
Lemma order_step s l s' : step s l = Some s' -> exists o, order s' = order s ++ o.
Proof.
  intros H. apply step_live_of in H. destruct H as [Hnp H].
  destruct l; cbn [step_live] in H; cbv zeta in H;
    unfold send_done, close_done, recv1, panic in H; brk H; injection H as <-; simp_goal;
    try (exists []; now rewrite app_nil_r); eexists; reflexivity.
Qed.

Lemma order_run ls : forall s s', run s ls = Some s' -> exists o, order s' = order s ++ o.
Proof.
  induction ls as [|l ls IH]; intros s s' H; cbn in H.
  - injection H as <-. exists []. now rewrite app_nil_r.
  - destruct (step s l) as [s1|] eqn:E; [|discriminate].
    destruct (order_step _ _ _ E) as [o1 H1]. destruct (IH _ _ H) as [o2 H2].
    exists (o1 ++ o2). now rewrite H2, H1, app_assoc.
Qed.

(* a Publish call that has returned is not accepted later *)
Lemma pret_stable s l s' p r : step s l = Some s' -> p_pc (pub s p) = PRet r -> p_pc (pub s' p) = PRet r.
Proof.
  intros H Hr. apply step_live_of in H. destruct H as [Hnp H].
  destruct l; cbn [step_live] in H; cbv zeta in H;
    unfold send_done, close_done, recv1, panic in H; brk H; injection H as <-; eqs; simp_goal;
    try exact Hr;
    match goal with
    | |- context [upd _ ?k _ ?j] => destruct (Nat.eqb j k) eqn:Eik
    end;
    try (rewrite ?(upd_other _ _ _ _ Eik); exact Hr);
    apply Nat.eqb_eq in Eik; subst; rewrite ?upd_same; simp_goal; try exact Hr; congruence.
Qed.

Lemma returned_not_added s l s' p r :
  step s l = Some s' -> p_pc (pub s p) = PRet r -> ~ In p (order s) -> ~ In p (order s').
Proof.
  intros H Hr Hn. apply step_live_of in H. destruct H as [Hnp H].
  destruct l; cbn [step_live] in H; cbv zeta in H;
    unfold send_done, close_done, recv1, panic in H; brk H; injection H as <-; eqs; simp_goal;
    try exact Hn.
  intros Hi. apply in_app_or in Hi. destruct Hi as [Hi|[<-|[]]]; [contradiction|congruence].
Qed.

Lemma returned_not_added_run ls : forall s s' p r,
  run s ls = Some s' -> p_pc (pub s p) = PRet r -> ~ In p (order s) -> ~ In p (order s').
Proof.
  induction ls as [|l ls IH]; intros s s' p r H Hr Hn; cbn in H.
  - now injection H as <-.
  - destruct (step s l) as [s1|] eqn:E; [|discriminate].
    eapply IH; [exact H|eapply pret_stable; eauto|eapply returned_not_added; eauto].
Qed.

(* program order: if call p1 had returned when call p2 had not yet started (one goroutine publishing
   p1, then p2), then p1 precedes p2 in the global order whenever both were accepted *)
Theorem program_order s1 ls s2 p1 p2 r :
  reachable s1 -> p_pc (pub s1 p1) = PRet r -> p_pc (pub s1 p2) = P0 ->
  run s1 ls = Some s2 -> In p1 (order s2) -> In p2 (order s2) ->
  exists a b c, order s2 = a ++ p1 :: b ++ p2 :: c.
Proof.
  intros R Hr H0 H I1 I2. destruct (order_run _ _ _ H) as [o Ho].
  assert (~ In p2 (order s1)) as N2.
  { intros Hi. destruct (h_frozen _ (hist_reachable _ R) p2 Hi) as [F _]. contradiction. }
  assert (In p1 (order s1)) as J1.
  { destruct (in_dec Nat.eq_dec p1 (order s1)) as [Y|N]; [exact Y|].
    exfalso. exact (returned_not_added_run _ _ _ _ _ H Hr N I1). }
  rewrite Ho in I2. apply in_app_or in I2. destruct I2 as [I2|I2]; [contradiction|].
  apply in_split in J1. destruct J1 as (a & b & Ha). apply in_split in I2. destruct I2 as (c & d & Hc).
  exists a, (b ++ c), d. rewrite Ho, Ha, Hc. rewrite <- app_assoc. cbn [app]. f_equal. f_equal. now rewrite <- app_assoc.
Qed.

(* ---- flush before idle -------------------------------------------------------------------- *)
Definition lastc (l : list wcall) : option wcall := match rev l with x :: _ => Some x | [] => None end.
Definition awaiting_flush (l : list wcall) : bool :=
  match lastc l with Some (WSend _ true) => true | _ => false end.

Lemma lastc_snoc l x : lastc (l ++ [x]) = Some x.
Proof. unfold lastc. now rewrite rev_app_distr. Qed.

(* a fan-out log ends with a successful Send only while the loop is about to Flush that writer *)
Lemma flush_inv_step s l s' :
  (forall i, awaiting_flush (s_llog (sub s i)) = true -> exists p t, pc s = Flushing p i t) ->
  step s l = Some s' ->
  forall i, awaiting_flush (s_llog (sub s' i)) = true -> exists p t, pc s' = Flushing p i t.
Proof.
  intros F H k A. specialize (F k).
  apply step_live_of in H. destruct H as [Hnp H].
  destruct l; cbn [step_live] in H; cbv zeta in H;
    unfold send_done, close_done, recv1, panic in H; brk H; injection H as <-; eqs;
    simp_in_hyp A; simp_goal; try (apply F; exact A).
  all: try match type of A with
       | context [upd _ ?i _ ?k0] =>
           let E := fresh "E" in
           destruct (Nat.eqb k0 i) eqn:E;
           [apply Nat.eqb_eq in E; subst; rewrite ?upd_same in A; simp_in_hyp A
           | rewrite ?(upd_other _ _ _ _ E) in A]
       end.
  all: try (unfold awaiting_flush in A; rewrite lastc_snoc in A; try discriminate A; eauto; fail).
  all: try exact (F A).
  all: try (destruct (F A) as (p' & t' & Hp'); congruence).
  all: destruct (F A) as (p' & t' & Hp'); injection Hp' as <- <- <-; rewrite Nat.eqb_refl in *; discriminate.
Qed.

Theorem flush_before_idle s i :
  reachable s -> awaiting_flush (s_llog (sub s i)) = true -> exists p t, pc s = Flushing p i t.
Proof.
  intros [ls H]. revert i.
  assert (forall i, awaiting_flush (s_llog (sub init i)) = true -> exists p t, pc init = Flushing p i t) as F0
    by (intros i A; discriminate A).
  revert H F0. generalize init. induction ls as [|l ls IH]; intros s0 H F0; cbn in H.
  - injection H as <-. exact F0.
  - destruct (step s0 l) as [s1|] eqn:E; [|discriminate]. eapply IH; [exact H|]. eapply flush_inv_step; eauto.
Qed.

(* in particular when the loop is idle every successful Send of the fan-out has been flushed *)
Corollary idle_all_flushed s i : reachable s -> pc s = Idle -> awaiting_flush (s_llog (sub s i)) = false.
Proof.
  intros R Hi. destruct (awaiting_flush (s_llog (sub s i))) eqn:A; [|reflexivity].
  destruct (flush_before_idle s i R A) as (p & t & Hp). congruence.
Qed.

(* ---- everything published before the cancellation was requested ---------------------------- *)
Definition canc_ok (s : state) (i : nat) : Prop :=
  (s_ctx (sub s i) = true -> s_cancel (sub s i) <> None) /\
  (forall c, s_cancel (sub s i) = Some c -> c <= length (order s)) /\
  (forall e, s_rem (sub s i) = Some (e, RUnsub) -> exists c, s_cancel (sub s i) = Some c /\ c <= e).

Lemma gotunsub_ctx s i : Inv s -> pc s = GotUnsub i -> s_ctx (sub s i) = true.
Proof.
  intros I Hpc. pose proof (inv_sub _ I i) as O. unfold loc in O. rewrite Hpc in O.
  cbn [view_of todo_of] in O. rewrite Nat.eqb_refl in O.
  destruct (s_ctx (sub s i)) eqn:C; [reflexivity|exfalso; crush_ok O].
Qed.

Lemma canc_step s l s' i : Inv s -> canc_ok s i -> step s l = Some s' -> canc_ok s' i.
Proof.
  intros I (C1 & C2 & C3) H. unfold canc_ok.
  apply step_live_of in H. destruct H as [Hnp H].
  destruct l; cbn [step_live] in H; cbv zeta in H;
    unfold send_done, close_done, recv1, panic in H; brk H; injection H as <-; eqs; simp_goal;
    try (repeat split; assumption).
  all: try match goal with
       | |- context [upd _ ?j _ ?k0] =>
           let E := fresh "E" in
           destruct (Nat.eqb k0 j) eqn:E;
           [apply Nat.eqb_eq in E; subst; rewrite ?upd_same; simp_goal
           | rewrite ?(upd_other _ _ _ _ E)]
       end; try (repeat split; assumption).
  all: try (split; [assumption|split; [|assumption]]; intros c Hc; specialize (C2 c Hc); rewrite ?app_length; lia).
  all: try (split; [assumption|split; [assumption|]]; intros e0 He; discriminate He).
  - (* Cancel i, already cancelled before *)
    split; [|split].
    + intros _; discriminate.
    + intros c Hc. injection Hc as <-. apply C2; assumption.
    + intros e0 He. destruct (C3 e0 He) as (c & E1 & E2). exists c. split; [congruence|exact E2].
  - (* Cancel i, the first time *)
    split; [|split].
    + intros _; discriminate.
    + intros c Hc. injection Hc as <-. lia.
    + intros e0 He. destruct (C3 e0 He) as (c & E1 & E2). congruence.
  - (* LRemove from GotUnsub *)
    split; [assumption|split; [assumption|]]. intros e0 He. injection He as <-.
    pose proof (gotunsub_ctx s _ I Heql) as Cx. specialize (C1 Cx).
    destruct (s_cancel _) as [c|] eqn:Ec; [|contradiction]. exists c. split; [reflexivity|]. now apply C2.
Qed.

Lemma canc_reachable s i : reachable s -> canc_ok s i.
Proof.
  intros [ls H].
  assert (canc_ok init i) as C0 by (unfold canc_ok; cbn; repeat split; intros; discriminate).
  assert (reachable init) as R0 by (exists []; reflexivity).
  revert H C0 R0. generalize init. induction ls as [|l ls IH]; intros s0 H C0 R0; cbn in H.
  - now injection H as <-.
  - destruct (step s0 l) as [s1|] eqn:E; [|discriminate].
    eapply IH; [exact H| |eapply reachable_step; eauto]. eapply canc_step; eauto. now apply inv_reachable.
Qed.

Lemma firstn_plus {A} n m (l : list A) : firstn (n + m) l = firstn n l ++ firstn m (skipn n l).
Proof.
  revert l. induction n as [|n IH]; intros l; [reflexivity|]. destruct l as [|x l]; cbn.
  - now rewrite firstn_nil.
  - now rewrite IH.
Qed.

Lemma skipn_plus {A} n m (l : list A) : skipn (n + m) l = skipn m (skipn n l).
Proof.
  revert l. induction n as [|n IH]; intros l; [reflexivity|]. destruct l as [|x l]; cbn.
  - now rewrite skipn_nil.
  - apply IH.
Qed.

Lemma slice_split l a b c : a <= b -> b <= c -> slice l a c = slice l a b ++ slice l b c.
Proof.
  intros H1 H2. unfold slice. replace (c - a) with ((b - a) + (c - b)) by lia.
  rewrite firstn_plus. f_equal. rewrite <- skipn_plus. now replace (a + (b - a)) with b by lia.
Qed.

(* a subscriber that was removed because it unsubscribed (its context was cancelled) had been
   handed every matching message the loop accepted between its registration and the moment its
   cancellation was requested (c <= e: the removal came after the request) *)
Theorem before_cancel s i r e c :
  reachable s -> s_reg (sub s i) = Some r -> s_rem (sub s i) = Some (e, RUnsub) ->
  s_cancel (sub s i) = Some c ->
  c <= e /\ exists rest, sends (s_llog (sub s i)) = filter (matches s i) (slice (order s) r c) ++ rest.
Proof.
  intros R Hr He Hc. destruct (canc_reachable s i R) as (_ & _ & C3).
  destruct (C3 e He) as (c' & E1 & E2). assert (c' = c) by congruence. subst c'. split; [exact E2|].
  rewrite deliveries by exact R. unfold due, upto. rewrite Hr, He.
  destruct (Nat.le_gt_cases r c) as [L|G].
  - rewrite (slice_split (order s) r c e L E2). rewrite filter_app. eauto.
  - unfold slice at 2. replace (c - r) with 0 by lia. cbn [firstn filter app]. eauto.
Qed.

(* ---- the statements over label sequences, as used in props/C03.v ------------------------------ *)
Lemma reach ls s : run init ls = Some s -> reachable s.
Proof. intros H. now exists ls. Qed.

Lemma deliveries_run ls s i : run init ls = Some s -> sends (s_llog (sub s i)) = due s i.
Proof. intros H. apply deliveries. eapply reach; eauto. Qed.
Lemma single_order_run ls s i : run init ls = Some s -> subseq (sends (s_llog (sub s i))) (order s).
Proof. intros H. apply single_order. eapply reach; eauto. Qed.
Lemma at_most_once_run ls s i : run init ls = Some s -> NoDup (sends (s_llog (sub s i))).
Proof. intros H. apply at_most_once. eapply reach; eauto. Qed.
Lemma only_matching_run ls s i p :
  run init ls = Some s -> In p (sends (s_llog (sub s i))) -> matches s i p = true /\ In p (order s).
Proof. intros H. apply only_matching. eapply reach; eauto. Qed.
Lemma unregistered_nothing_run ls s i :
  run init ls = Some s -> s_reg (sub s i) = None -> s_llog (sub s i) = [].
Proof. intros H. apply unregistered_nothing. eapply reach; eauto. Qed.
Lemma program_order_run ls1 s1 ls s2 p1 p2 r :
  run init ls1 = Some s1 -> p_pc (pub s1 p1) = PRet r -> p_pc (pub s1 p2) = P0 ->
  run s1 ls = Some s2 -> In p1 (order s2) -> In p2 (order s2) ->
  exists a b c, order s2 = a ++ p1 :: b ++ p2 :: c.
Proof. intros H. apply program_order. eapply reach; eauto. Qed.
Lemma flush_before_idle_run ls s i :
  run init ls = Some s -> awaiting_flush (s_llog (sub s i)) = true -> exists p t, pc s = Flushing p i t.
Proof. intros H. apply flush_before_idle. eapply reach; eauto. Qed.
Lemma idle_all_flushed_run ls s i :
  run init ls = Some s -> pc s = Idle -> awaiting_flush (s_llog (sub s i)) = false.
Proof. intros H. apply idle_all_flushed. eapply reach; eauto. Qed.
Lemma before_cancel_run ls s i r e c :
  run init ls = Some s -> s_reg (sub s i) = Some r -> s_rem (sub s i) = Some (e, RUnsub) ->
  s_cancel (sub s i) = Some c ->
  c <= e /\ exists rest, sends (s_llog (sub s i)) = filter (matches s i) (slice (order s) r c) ++ rest.
Proof. intros H. apply before_cancel. eapply reach; eauto. Qed.
