(* Every step of the LTS, seen from any subscriber j, is a local transition of JoeLocal.lstep.
   Hence the swept local invariant holds for every subscriber in every reachable state. *)
From GoSse Require Import Base JoeLts JoeLocal.
Local Open Scope nat_scope.

Definition some {A} (o : option A) : bool := match o with Some _ => true | None => false end.

Definition lpc_of (p : sub_pc) : lpc :=
  match p with
  | S0 => LS0 | AtSel1 => LSel1 | AtSel2 => LSel2 | AtSel3 => LSel3 | Draining => LDrain
  | SRet None => LRetNone | SRet (Some _) => LRetSome
  end.

Definition view_of (c : loop_pc) (j : nat) : view :=
  match c with
  | Top => VTop | Idle => VIdle
  | GotMsg _ | PutDone _ _ | ErrsReady _ | Fan _ _ => VBusy
  | Flushing _ i _ => if Nat.eqb j i then VFlushing else VBusy
  | Failing _ i _ _ => if Nat.eqb j i then VFailing else VBusy
  | Removing _ i _ => if Nat.eqb j i then VRemoving else VBusy
  | GotSub i => if Nat.eqb j i then VGotSub else VBusy
  | Replaying i => if Nat.eqb j i then VReplaying else VBusy
  | Rejecting i _ => if Nat.eqb j i then VRejecting else VBusy
  | Registering i => if Nat.eqb j i then VRegistering else VBusy
  | GotUnsub i => if Nat.eqb j i then VGotUnsub else VBusy
  | Exiting => VExiting | Exited => VExited | Panicked => VPanicked
  end.

Definition todo_of (c : loop_pc) : list nat :=
  match c with
  | Fan _ t | Flushing _ _ t | Failing _ _ _ t | Removing _ _ t => t
  | _ => []
  end.

Definition loc (s : state) (j : nat) : local :=
  mkL (view_of (pc s) j) (mem j (todo_of (pc s))) (mem j (subs s))
      (lpc_of (s_pc (sub s j))) (s_ctx (sub s j)) (some (s_dbuf (sub s j)))
      (s_dclosed (sub s j)) (some (s_fail (sub s j)))
      (match s_rem (sub s j), s_reg (sub s j) with
       | Some _, _ => Removed | None, Some _ => Reg | None, None => NeverReg end).

Definition kind (j : nat) (l : label) (s : state) : lk :=
  match l with
  | SubEnter i _ => if Nat.eqb j i then KEnter else KNone
  | SubClosed i => if Nat.eqb j i then KClosed else KNone
  | SubSend i => if Nat.eqb j i then KSubSend else KIdleBusy
  | SubDone i => if Nat.eqb j i then KDone else KNone
  | SubCtx i => if Nat.eqb j i then KCtx else KNone
  | SubUnsub i => if Nat.eqb j i then KUnsub else KIdleBusy
  | Cancel i => if Nat.eqb j i then KCancel else KNone
  | PubEnter _ _ | PubClosed _ | PubRecv _ => KNone
  | PubSend _ => KIdleBusy
  | ShutEnter _ | ShutClose _ | ShutDone _ | ShutCtx _ | HCancel _ => KNone
  | LIdle => match pc s with Top => KTopIdle | _ => KBusyIdle end
  | LPut _ _ | LPutRes _ => KNone
  | LErrs p => KErrs (intersects (s_topics (sub s j)) (p_topics (pub s p)))
  | LSend i v => if Nat.eqb j i then KSend (is_ok v) else KNone
  | LFlush i v => if Nat.eqb j i then KFlush (is_ok v) else KNone
  | LFail i => if Nat.eqb j i then KFail else KNone
  | LRemove i =>
      if Nat.eqb j i
      then match pc s with Removing _ _ _ => KRemoveFan | GotUnsub _ => KRemoveUnsub | _ => KRemoveExit end
      else match pc s with GotUnsub _ => KBusyTop | _ => KNone end
  | LRemoveSkip i =>
      if Nat.eqb j i
      then match pc s with Removing _ _ _ => KSkipFan | _ => KSkipUnsub end
      else match pc s with GotUnsub _ => KBusyTop | _ => KNone end
  | LReplay i => if Nat.eqb j i then KReplay else KNone
  | LRSend _ _ _ | LRFlush _ _ => KNone
  | LReplayed i v =>
      if Nat.eqb j i
      then match v with VOk => KReplayedOk | VErr _ => KReplayedErr | VPanic => KReplayedPanic end
      else KNone
  | LReject i => if Nat.eqb j i then KReject else KBusyTop
  | LReg i => if Nat.eqb j i then match pc s with Registering _ => KRegA | _ => KRegB end else KBusyTop
  | LDone => KIdleExiting
  | LExit => KExit
  end.

(* the labels whose step may panic on a subscriber's done channel *)
Definition subj (l : label) : option nat :=
  match l with LFail i | LRemove i | LReject i => Some i | _ => None end.

(* ---- list facts ------------------------------------------------------------ *)
Lemma mem_cons j x l : mem j (x :: l) = Nat.eqb j x || mem j l.
Proof. reflexivity. Qed.

Lemma mem_rem_neq j i l : Nat.eqb j i = false -> mem j (rem i l) = mem j l.
Proof.
  intros E. induction l as [|x l IH]; [reflexivity|]. cbn [rem].
  destruct (Nat.eqb i x) eqn:Eix.
  - apply Nat.eqb_eq in Eix. subst x. rewrite mem_cons, E. exact IH.
  - rewrite !mem_cons. now rewrite IH.
Qed.

Lemma mem_rem_same i l : mem i (rem i l) = false.
Proof.
  induction l as [|x l IH]; [reflexivity|]. cbn [rem].
  destruct (Nat.eqb i x) eqn:Eix; [exact IH|]. now rewrite mem_cons, Eix, IH.
Qed.

Lemma mem_filter j f l : mem j (filter f l) = mem j l && f j.
Proof.
  induction l as [|x l IH]; [reflexivity|]. cbn [filter].
  destruct (f x) eqn:Efx; rewrite ?mem_cons, IH.
  - destruct (Nat.eqb j x) eqn:E; [|reflexivity]. apply Nat.eqb_eq in E. subst x. now rewrite Efx.
  - destruct (Nat.eqb j x) eqn:E; [|reflexivity]. apply Nat.eqb_eq in E. subst x. rewrite Efx.
    now rewrite andb_false_r.
Qed.

Lemma mem_In j l : mem j l = true <-> In j l.
Proof.
  unfold mem. rewrite existsb_exists. split.
  - intros (x & Hx & E). apply Nat.eqb_eq in E. now subst.
  - intros H. exists j. split; [exact H|apply Nat.eqb_refl].
Qed.

Lemma upd_same {A} (f : nat -> A) i x : upd f i x i = x.
Proof. unfold upd. now rewrite Nat.eqb_refl. Qed.
Lemma upd_other {A} (f : nat -> A) i x j : Nat.eqb j i = false -> upd f i x j = f j.
Proof. unfold upd. now intros ->. Qed.

Lemma step_live_of s l s' : step s l = Some s' -> pc s <> Panicked /\ step_live s l = Some s'.
Proof. unfold step. destruct (pc s); intros H; try discriminate; split; try exact H; discriminate. Qed.

(* ---- the projection lemma -------------------------------------------------- *)
Ltac simp_in H :=
  rewrite ?upd_same in H;
  cbn [pc subs rep done_closed closed_closed order puts sub pub shut
       set_pc set_subs set_rep set_done_closed set_closed_closed set_order set_puts set_sub set_pub set_shut
       s_pc s_ctx s_dbuf s_dclosed s_topics s_rlog s_llog s_fail s_reg s_rem s_cancel s_rsnap w_rsnap
       w_pc w_ctx w_dbuf w_dclosed w_topics w_rlog w_llog w_fail w_reg w_rem w_cancel
       p_pc p_topics p_ebuf p_eclosed wp_pc wp_topics wp_ebuf wp_eclosed h_pc h_ctx] in H.

Ltac rw_in H :=
  repeat match goal with
  | E : ?a = _ |- _ =>
      tryif constr_eq E H then fail else
      match type of H with context [a] => rewrite E in H end
  end.

Ltac brk H :=
  repeat (simp_in H; rw_in H;
  match type of H with
  | context [match ?x with _ => _ end] =>
      lazymatch x with
      | context [match _ with _ => _ end] => fail
      | _ => destruct x eqn:?
      end
  end; try discriminate H); simp_in H; rw_in H.

Ltac eqs :=
  repeat match goal with
  | H : andb _ _ = true |- _ => apply andb_true_iff in H; destruct H
  | H : Nat.eqb _ _ = true |- _ => apply Nat.eqb_eq in H; subst
  | H : negb _ = true |- _ => apply negb_true_iff in H
  end.

Ltac rw :=
  repeat match goal with
  | H : ?a = _ |- context [?a] => rewrite H
  end.

Arguments mem : simpl never.
Arguments upd : simpl never.
Arguments rem : simpl never.
Arguments intersects : simpl never.

Lemma mem_nil j : mem j [] = false.
Proof. reflexivity. Qed.

Ltac norm E :=
  repeat (progress (rewrite ?upd_same, ?Nat.eqb_refl, ?mem_rem_same, ?mem_cons, ?mem_filter, ?mem_nil,
           ?(upd_other _ _ _ _ E), ?E, ?(mem_rem_neq _ _ _ E);
           unfold l_close, l_unreg, l_send, l_panic, w_view, w_lpc; cbn; rw)).

Ltac fin j i :=
  unfold kind, loc; cbn; rw;
  destruct (Nat.eqb j i) eqn:Eji;
  [apply Nat.eqb_eq in Eji; subst; norm (eq_refl 0); try reflexivity
  | try (rewrite Nat.eqb_refl in Eji; discriminate Eji); norm Eji; try reflexivity].

Ltac dispatch :=
  match goal with
  | |- context [kind ?j (SubEnter ?i _) _] => fin j i
  | |- context [kind ?j (SubClosed ?i) _] => fin j i
  | |- context [kind ?j (SubSend ?i) _] => fin j i
  | |- context [kind ?j (SubDone ?i) _] => fin j i
  | |- context [kind ?j (SubCtx ?i) _] => fin j i
  | |- context [kind ?j (SubUnsub ?i) _] => fin j i
  | |- context [kind ?j (Cancel ?i) _] => fin j i
  | |- context [kind ?j (LSend ?i _) _] => fin j i
  | |- context [kind ?j (LFlush ?i _) _] => fin j i
  | |- context [kind ?j (LFail ?i) _] => fin j i
  | |- context [kind ?j (LRemove ?i) _] => fin j i
  | |- context [kind ?j (LRemoveSkip ?i) _] => fin j i
  | |- context [kind ?j (LReplay ?i) _] => fin j i
  | |- context [kind ?j (LRSend ?i _ _) _] => fin j i
  | |- context [kind ?j (LRFlush ?i _) _] => fin j i
  | |- context [kind ?j (LReplayed ?i _) _] => fin j i
  | |- context [kind ?j (LReject ?i) _] => fin j i
  | |- context [kind ?j (LReg ?i) _] => fin j i
  | |- _ => unfold kind, loc; cbn; rw; norm (eq_refl 0); try reflexivity
  end.

Lemma proj j s l s' :
  step s l = Some s' -> (pc s' = Panicked -> subj l = Some j) ->
  lstep (kind j l s) (loc s j) = Some (loc s' j).
Proof.
  intros H Hp. apply step_live_of in H. destruct H as [Hnp H].
  destruct l; cbn [step_live] in H; cbv zeta in H;
    unfold send_done, close_done, recv1, panic in H; brk H; injection H as <-; eqs;
    try (specialize (Hp eq_refl); cbn in Hp; try discriminate Hp; injection Hp as <-).
  all: dispatch.
  all: try (destruct (s_rem (sub s _)); try destruct (s_reg (sub s _)); reflexivity).
Qed.
