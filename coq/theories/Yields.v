(* Small vocabulary on lists of yields, shared by the oracles (RunParse.v) and the theorems. *)
From GoSse Require Import Base Whatwg.

(* sse.Read offers no retry callback: its yields are the specification's without the retry notifications *)
Definition is_retry (y : yield) : bool := match y with YRetry _ => true | _ => false end.
Definition drop_retries (ys : list yield) : list yield := filter (fun y => negb (is_retry y)) ys.


(* the consumer answers false to event number k: nothing is yielded after it *)
Fixpoint cut_after (k : nat) (ys : list yield) : list yield :=
  match ys with
  | [] => []
  | YEv e :: r => match k with O => [YEv e] | S k' => YEv e :: cut_after k' r end
  | y :: r => y :: cut_after k r
  end.
Definition firstn' (stop : option nat) (ys : list yield) : list yield :=
  match stop with Some k => cut_after k ys | None => ys end.

