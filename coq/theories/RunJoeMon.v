(* Property monitors of the Joe family: [holds_joe_Cxx input observed] evaluates the property's
   clauses on the OBSERVED history (the event list inside the input, see RunJoe.v), independently
   of the LTS.  They demand exactly what the property texts state. *)
From GoSse Require Import Base Fields Queue Replayers Fifo.
From GoSse Require Import JoeLts RunJoe.
Local Open Scope nat_scope.

Definition code (e : val) : nat := as_nat (nth_val 0 e).
Definition a1 (e : val) : nat := as_nat (nth_val 1 e).
Definition a2 (e : val) : nat := as_nat (nth_val 2 e).
Definition a3 (e : val) : nat := as_nat (nth_val 3 e).
Definition a4 (e : val) : nat := as_nat (nth_val 4 e).

Definition is_ev (c i : nat) (e : val) : bool := Nat.eqb (code e) c && Nat.eqb (a1 e) i.
Definition has_ev (c i : nat) (evs : list val) : bool := existsb (is_ev c i) evs.
Definition has_code (c : nat) (evs : list val) : bool := existsb (fun e => Nat.eqb (code e) c) evs.

(* the events before / after the first one satisfying P *)
Fixpoint before (P : val -> bool) (evs : list val) : list val :=
  match evs with [] => [] | e :: r => if P e then [] else e :: before P r end.
Fixpoint after (P : val -> bool) (evs : list val) : list val :=
  match evs with [] => [] | e :: r => if P e then r else after P r end.

Fixpoint prefixb (a b : list nat) : bool :=
  match a, b with
  | [], _ => true
  | x :: a', y :: b' => Nat.eqb x y && prefixb a' b'
  | _ :: _, [] => false
  end.
Definition listeqb (a b : list nat) : bool := prefixb a b && Nat.eqb (length a) (length b).
Fixpoint nodupb (l : list nat) : bool :=
  match l with [] => true | x :: r => negb (mem x r) && nodupb r end.

Definition topics_of (c i : nat) (evs : list val) : list nat :=
  match find (is_ev c i) evs with Some e => dec_topics (nth_val 2 e) | None => [] end.

(* ---- C06 -------------------------------------------------------------------- *)
(* no call on a writer after its Subscribe returned (sub.return hook = 8, harness = 9) *)
Fixpoint quiet (ret : list nat) (evs : list val) : bool :=
  match evs with
  | [] => true
  | e :: r =>
      match code e with
      | 8 | 9 => quiet (a1 e :: ret) r
      | 38 | 39 => negb (mem (a1 e) ret) && quiet ret r
      | _ => quiet ret r
      end
  end.

(* the subscriber's own error: the first failing answer of its writer, or the error Replay returned for it *)
Fixpoint own_err (i : nat) (evs : list val) : option nat :=
  match evs with
  | [] => None
  | e :: r =>
      let v := if Nat.eqb (a1 e) i then
                 match code e with
                 | 38 => a4 e
                 | 39 => a2 e
                 | 32 => if Nat.eqb (a2 e) 98 then 0 else a2 e
                 | _ => 0
                 end
               else 0 in
      match v with 0 => own_err i r | _ => Some v end
  end.

(* Subscribe returned r: its own error if there is one, else nil - or ErrProviderClosed if it
   was never handed to Joe *)
Definition ret_ok (evs : list val) (e : val) : bool :=
  let i := a1 e in let r := a2 e in
  match own_err i evs with
  | Some x => Nat.eqb r x
  | None => Nat.eqb r 0 || (Nat.eqb r 1 && negb (has_ev 3 i evs))
  end.

Definition results_ok (evs : list val) : bool :=
  forallb (fun e => if Nat.eqb (code e) 9 then ret_ok evs e else true) evs.

(* "Joe does not panic", seen from the writer: every Send hands the writer a message.  The writer wrapper
   records a nil *Message as token 999999; the library's own Session dereferences the message it is given, so
   a Send(nil) IS a panic on Joe's goroutine with the real writer (the scenarios whose writers forward to a
   real Session show it as status 1).  The harness never publishes a nil message and the unchanged loop
   replaces the published message only by a non-nil one Put returned. *)
Definition nil_tok : N := 999999%N.
Definition sends_carry_message (evs : list val) : bool :=
  forallb (fun e => if Nat.eqb (code e) 38 then negb (N.eqb (as_n (nth_val 2 e)) nil_tok) else true) evs.

Definition holds_joe_c06 (i o : val) : bool :=
  let evs := events_of i in
  negb (Nat.eqb (status_of i) 1) && quiet [] evs && results_ok evs && sends_carry_message evs.

(* ---- C07 -------------------------------------------------------------------- *)
Definition all_answered (evs : list val) : bool :=
  forallb (fun e => match code e with
                    | 1 => has_ev 9 (a1 e) evs
                    | 11 => has_ev 15 (a1 e) evs
                    | 16 => has_ev 22 (a1 e) evs
                    | _ => true end) evs.

Definition put_verdict (p : nat) (evs : list val) : option nat :=
  match find (is_ev 40 p) evs with Some e => Some (a2 e) | None => None end.

(* Publish returned r: nil = delivered (it was accepted), ErrProviderClosed = it was not accepted,
   anything else = what Put answered *)
Definition pub_res_ok (evs : list val) (e : val) : bool :=
  let p := a1 e in
  match a2 e with
  | 0 => has_ev 12 p evs
  | 1 => negb (has_ev 12 p evs)
  | r => match put_verdict p evs with Some v => Nat.eqb v r | None => false end
  end.

Definition is_exit (e : val) : bool := Nat.eqb (code e) 37.

Fixpoint live_at_end (live : list nat) (evs : list val) : list nat :=
  match evs with
  | [] => live
  | e :: r => match code e with
              | 34 => live_at_end (a1 e :: live) r
              | 29 => live_at_end (rem (a1 e) live) r
              | _ => live_at_end live r
              end
  end.

Definition shut_res_ok (evs : list val) (e : val) : bool :=
  let h := a1 e in
  match a2 e with
  | 0 => has_code 37 (before (fun x => is_ev 22 h x) evs)           (* nil: the loop has exited *)
  | 1 => true
  | 2 => has_ev 23 h (before (fun x => is_ev 22 h x) evs)           (* its own context had been cancelled *)
  | _ => false
  end.

(* first half: every call returns, with the right value; one closer; the loop exits with nobody registered *)
Definition c07_calls (i : val) : bool :=
  let evs := events_of i in
  let late := after is_exit evs in
  let early := before is_exit evs in
  let shut_results := filter (fun e => Nat.eqb (code e) 22) evs in
  let closers := filter (fun e => negb (Nat.eqb (a2 e) 1)) shut_results in
  Nat.eqb (status_of i) 0
  && all_answered evs
  && forallb (fun e => if Nat.eqb (code e) 15 then pub_res_ok evs e else true) evs
  && forallb (shut_res_ok evs) shut_results
  (* exactly one caller closes; the others get ErrProviderClosed *)
  && (if has_code 16 evs then Nat.eqb (length closers) 1 else true)
  (* when the loop exits nobody is registered any more, and the loop does nothing afterwards *)
  && (if has_code 37 evs then match live_at_end [] early with [] => true | _ => false end else true)
  && forallb (fun e => negb ((24 <=? code e) && (code e <=? 41))) late
  (* calls made after the loop has exited are refused *)
  && forallb (fun e => match code e with
                       | 1 => forallb (fun x => if is_ev 9 (a1 e) x then Nat.eqb (a2 x) 1 else true) evs
                       | 11 => forallb (fun x => if is_ev 15 (a1 e) x then Nat.eqb (a2 x) 1 else true) evs
                       | _ => true end) late.

(* ---- C03 -------------------------------------------------------------------- *)
(* one pass: who is registered (between loop.reg and loop.remove), which (subscriber, message)
   deliveries are due (at loop.errs: every registered subscriber whose topics intersect), which
   were made (writer Send outside a replay), flush-before-idle *)
Record c3 := mkC3 {
  c_live : list nat; c_repl : option nat;
  c_exp : list (nat * nat); c_act : list (nat * nat);
  c_pend : list nat; c_ok : bool }.

Definition c3_step (evs : list val) (st : c3) (e : val) : c3 :=
  let i := a1 e in
  match code e with
  | 34 => mkC3 (i :: c_live st) (c_repl st) (c_exp st) (c_act st) (c_pend st) (c_ok st)
  | 29 => mkC3 (rem i (c_live st)) (c_repl st) (c_exp st) (c_act st) (c_pend st) (c_ok st)
  | 41 => mkC3 (c_live st) (Some i) (c_exp st) (c_act st) (c_pend st) (c_ok st)
  | 32 => mkC3 (c_live st) None (c_exp st) (c_act st) (c_pend st) (c_ok st)
  | 27 =>
      let due := filter (fun j => intersects (topics_of 1 j evs) (topics_of 11 i evs)) (c_live st) in
      mkC3 (c_live st) (c_repl st) (c_exp st ++ map (fun j => (j, i)) due) (c_act st) (c_pend st) (c_ok st)
  | 38 =>
      let pend := if Nat.eqb (a4 e) 0 then i :: rem i (c_pend st) else rem i (c_pend st) in
      let inrepl := match c_repl st with Some j => Nat.eqb i j | None => false end in
      mkC3 (c_live st) (c_repl st) (c_exp st)
           (if inrepl then c_act st else c_act st ++ [(i, a2 e)]) pend (c_ok st)
  | 39 => mkC3 (c_live st) (c_repl st) (c_exp st) (c_act st) (rem i (c_pend st)) (c_ok st)
  | 24 => mkC3 (c_live st) (c_repl st) (c_exp st) (c_act st) (c_pend st)
               (c_ok st && match c_pend st with [] => true | _ => false end)
  | _ => st
  end.

Definition c3_run (evs : list val) : c3 :=
  fold_left (c3_step evs) evs (mkC3 [] None [] [] [] true).

Definition proj_i (i : nat) (l : list (nat * nat)) : list nat :=
  map snd (filter (fun x => Nat.eqb (fst x) i) l).

Definition subs_of (evs : list val) : list nat :=
  map a1 (filter (fun e => Nat.eqb (code e) 1) evs).

(* exactly once, in order, only matching, only while registered *)
Definition deliveries_ok (complete : bool) (evs : list val) : bool :=
  let st := c3_run evs in
  forallb (fun i => if complete then listeqb (proj_i i (c_act st)) (proj_i i (c_exp st))
                    else prefixb (proj_i i (c_act st)) (proj_i i (c_exp st)))
          (* also writers that never subscribed must have got nothing *)
          (subs_of evs ++ map fst (c_act st)).

Definition errs_order (evs : list val) : list nat := map a1 (filter (fun e => Nat.eqb (code e) 27) evs).
Definition puts_order (evs : list val) : list nat := map a1 (filter (fun e => Nat.eqb (code e) 40) evs).

(* program order of each publisher thread *)
Definition thread_order_ok (evs : list val) : bool :=
  let enters := filter (fun e => Nat.eqb (code e) 11) evs in
  let E := errs_order evs in
  let thread_of p := match find (is_ev 11 p) evs with Some e => a4 e | None => 0 end in
  forallb (fun e =>
    let t := a4 e in
    let entered_t := map a1 (filter (fun x => Nat.eqb (a4 x) t) enters) in
    listeqb (filter (fun p => mem p E) entered_t) (filter (fun p => Nat.eqb (thread_of p) t) E)) enters.

(* "every message accepted by Publish is handed ... to each subscriber that was registered before it and is still
   registered ...": the deliveries of a message the loop took are the clause above (due at loop.errs).  A Publish
   call that returned anything but a refusal (ErrProviderClosed, ErrNoTopic) WITHOUT the loop having taken the
   message handed it to nobody: then no matching subscriber may have been registered during the whole call - from
   before the harness made it (event 42) until it returned (event 15) *)
Definition accepted_ok (evs : list val) : bool :=
  forallb (fun e =>
    if Nat.eqb (code e) 15 && negb (Nat.eqb (a2 e) 1) && negb (Nat.eqb (a2 e) 90) && negb (has_ev 27 (a1 e) evs)
    then let p := a1 e in
         let pre := before (is_ev 42 p) evs in
         let mid := before (is_ev 15 p) (after (is_ev 42 p) evs) in
         let tp := topics_of 42 p evs in
         negb (existsb (fun j => intersects (topics_of 1 j evs) tp && negb (has_ev 29 j mid)) (live_at_end [] pre))
    else true) evs.

Definition c03_core (i : val) : bool :=
  let evs := events_of i in
  let complete := Nat.eqb (status_of i) 0 in
  deliveries_ok complete evs
  && accepted_ok evs
  && c_ok (c3_run evs)
  (* one global order: the fan-out order is the order of the Put calls (the linearisation witness) *)
  && prefixb (puts_order evs) (errs_order evs) && nodupb (errs_order evs)
  && thread_order_ok evs.

Definition holds_joe_c03 (i o : val) : bool := c03_core i.

(* ---- C07, second half -------------------------------------------------------- *)
(* "every pending and future Publish returns (delivered, or ErrProviderClosed)": a Publish call that returned nil
   was delivered, whatever Shutdown did meanwhile - the loop took it (loop.errs is what lets Publish return), and
   every subscriber that was registered and matching when the loop took it (the due list of the C03 pass, computed
   at loop.errs: between loop.errs and the end of the fan-out the loop removes nobody but a subscriber whose own
   Send/Flush just failed, after that call) had its Send call for this message.  A request to shut down that arrives
   while the message is inside Joe (in Put, or in some subscriber's Send with others still to come) changes nothing:
   the loop looks at j.done only when it is back at its select.  Demanded of runs that ended (status 0). *)
Definition pub_nil (p : nat) (evs : list val) : bool :=
  existsb (fun e => is_ev 15 p e && Nat.eqb (a2 e) 0) evs.

Definition delivered_ok (evs : list val) : bool :=
  let st := c3_run evs in
  forallb (fun e => if Nat.eqb (code e) 15 && Nat.eqb (a2 e) 0 then has_ev 27 (a1 e) evs else true) evs
  && forallb (fun jp => negb (pub_nil (snd jp) evs) || existsb (pair_eqb jp) (c_act st)) (c_exp st).

Definition holds_joe_c07 (i o : val) : bool :=
  c07_calls i && delivered_ok (events_of i).

(* ---- C17 -------------------------------------------------------------------- *)
Definition is_rep_panic (e : val) : bool :=
  (Nat.eqb (code e) 40 || Nat.eqb (code e) 32) && Nat.eqb (a2 e) 98.

(* once the replayer has panicked Joe goes on as if none were configured: nobody is turned away any more
   (loop.reject exists only for an error Replay returned), and every subscription the loop takes from then
   on is registered - what it then receives is the C03 clause *)
Definition after_panic_ok (complete : bool) (evs : list val) : bool :=
  let late := after is_rep_panic evs in
  negb (has_code 33 late)
  && (negb complete || forallb (fun e => if Nat.eqb (code e) 31 then has_ev 34 (a1 e) late else true) late).

Definition holds_joe_c17 (i o : val) : bool :=
  let evs := events_of i in
  let complete := Nat.eqb (status_of i) 0 in
  (* everybody's deliveries are what C03 says, whatever the others' writers answered *)
  c03_core i
  (* only a subscriber whose own writer failed is removed for failure, and it gets that error *)
  && forallb (fun e => if Nat.eqb (code e) 28
                       then match own_err (a1 e) evs with Some x => Nat.eqb x (a2 e) | None => false end
                       else true) evs
  && results_ok evs
  (* Put answered an error: Publish returns it, and the message is still fanned out *)
  && forallb (fun e => if Nat.eqb (code e) 40 && negb (Nat.eqb (a2 e) 0) && negb (Nat.eqb (a2 e) 98)
                       then forallb (fun x => if is_ev 15 (a1 e) x then Nat.eqb (a2 x) (a2 e) else true) evs
                            && (negb complete || has_ev 27 (a1 e) evs)
                       else true) evs
  (* after a replayer panic: the call goes on (message fanned out / subscriber registered), the
     replayer is never called again *)
  && forallb (fun e => if Nat.eqb (code e) 40 && Nat.eqb (a2 e) 98
                       then (negb complete || has_ev 27 (a1 e) evs)
                            (* ... and that Publish returns nil, as it would without a replayer *)
                            && forallb (fun x => if is_ev 15 (a1 e) x then Nat.eqb (a2 x) 0 else true) evs
                       else if Nat.eqb (code e) 32 && Nat.eqb (a2 e) 98
                       then (negb complete || has_ev 34 (a1 e) evs)
                       else true) evs
  && negb (has_code 40 (after is_rep_panic evs))
  && negb (has_code 41 (after is_rep_panic evs))
  && after_panic_ok complete evs
  (* "later calls no longer use it" is said of a PANIC only: while the replayer has not panicked it is asked about
     every publication - the loop starts no fan-out (loop.errs) for a publication it has not put to the replayer
     (an error that Put returned, however often, never takes the replayer out of use) *)
  && (norep_of i || existsb is_rep_panic evs
      || forallb (fun e => if Nat.eqb (code e) 27 then has_ev 40 (a1 e) evs else true) evs).

(* ---- C04 -------------------------------------------------------------------- *)
Definition opt_bytes_eqb (a b : option bytes) : bool :=
  match a, b with
  | None, None => true
  | Some x, Some y => bytes_eqb x y
  | _, _ => false
  end.
Definition id_of (v : val) : option bytes := as_opt as_b v.

(* the entries the replayer accepted before subscriber i's Replay started, in Put order *)
Definition put_hist (i : nat) (evs : list val) : list entry :=
  flat_map (fun e => if Nat.eqb (code e) 40 && Nat.eqb (a2 e) 0
                     then [mke (match id_of (nth_val 3 e) with Some b => b | None => [] end) [] (N.of_nat (a1 e)) 0%Z]
                     else [])
           (before (is_ev 41 i) evs).

Definition replay_ok (i : val) (e41 : val) : bool :=
  let evs := events_of i in
  let cfg := nth_val 1 (nth_val 0 i) in
  let kind := as_nat (nth_val 0 cfg) in
  let cap := as_nat (nth_val 1 cfg) in
  let auto := as_bool (nth_val 2 cfg) in
  let j := a1 e41 in
  let H := put_hist j evs in
  (* 1: the last cap accepted events; 2: all of them; 3: a ValidReplayer (TTL 1000 s) whose clock jumps +600 s right after
     the m-th accepted Put and +500 s right after the (m+k)-th, cap = 100 m + k: once m+k events are accepted the first m are
     expired for every later Replay, before that none is (whether they have been collected yet - by the next Put or
     by the application's own GC() call, which some scenarios make right after the second jump - changes nothing) *)
  let B := match kind with
           | 1 => lastn cap H
           | 2 => H
           | 3 => if (Nat.div cap 100 + Nat.modulo cap 100 <=? length H)%nat then skipn (Nat.div cap 100) H else H
           | _ => []
           end in
  let lastid := match find (is_ev 1 j) evs with Some e => id_of (nth_val 3 e) | None => None end in
  let tj := topics_of 1 j evs in
  let expected :=
    match spec_resume B lastid auto with
    | None => []
    | Some es => map (fun en => N.to_nat (e_tok en))
                     (filter (fun en => intersects tj (topics_of 11 (N.to_nat (e_tok en)) evs)) es)
    end in
  let during := before (is_ev 32 j) (after (is_ev 41 j) evs) in
  let actual := map a2 (filter (fun e => is_ev 38 j e) during) in
  let finished_ok := match find (is_ev 32 j) evs with Some e => Nat.eqb (a2 e) 0 | None => false end in
  (* a Send of the replay failed: the replay ends there (nothing is skipped, the writer is not called again - not by
     the replayer and, the subscription being refused with exactly that error, never by the fan-out) *)
  let send_failed := fun e => is_ev 38 j e && negb (Nat.eqb (a4 e) 0) in
  let failed_send_ok :=
    match find send_failed during with
    | None => true
    | Some f =>
        negb (existsb (fun e => is_ev 38 j e || is_ev 39 j e) (after send_failed (after (is_ev 41 j) evs)))
        && match find (is_ev 32 j) evs with Some e => Nat.eqb (a2 e) (a4 f) | None => true end
        && negb (has_ev 34 j evs)
    end in
  match kind with
  | 0 => true
  | _ => prefixb actual expected && (if finished_ok then Nat.eqb (length actual) (length expected) else true)
         (* no Put falls between the replay and the registration *)
         && negb (has_code 40 during)
         && failed_send_ok
  end.

(* an event carries the same ID live and replayed: the ID Put returned for it (its own ID if Put
   did not accept it) *)
Definition same_id_ok (evs : list val) : bool :=
  forallb (fun e =>
    if Nat.eqb (code e) 38 then
      let tok := a2 e in
      let want := match find (is_ev 40 tok) evs with
                  | Some p => if Nat.eqb (a2 p) 0 then id_of (nth_val 3 p)
                              else match find (is_ev 11 tok) evs with Some x => id_of (nth_val 3 x) | None => None end
                  | None => match find (is_ev 11 tok) evs with Some x => id_of (nth_val 3 x) | None => None end
                  end in
      opt_bytes_eqb (id_of (nth_val 3 e)) want
    else true) evs.

Definition holds_joe_c04 (i o : val) : bool :=
  let evs := events_of i in
  c03_core i
  && forallb (fun e => if Nat.eqb (code e) 41 then replay_ok i e else true) evs
  && same_id_ok evs.
