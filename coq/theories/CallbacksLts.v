(* C13, schedules: the callback registry with its lock, as a labelled transition system.

   client_connection.go: dispatch takes mu.RLock and releases it by a deferred RUnlock, i.e.
   AFTER the user callbacks have run (lines 145-160); addSubscriber, addSubscriberToAll and the
   removers take mu.Lock (lines 62, 70, 78, 90).  Hence a subscription or removal issued by
   another goroutine while an event is being dispatched takes effect - and its call returns -
   only between two dispatches; such a call is one atomic step [AOp] that is enabled only when
   no dispatch is in progress.  A dispatch is [ABegin] (read lock, look up the callbacks of the
   type and the to-all callbacks), one [AInvoke] per callback, [AEnd] (unlock).  A schedule is
   any sequence of enabled steps: the theorems quantify over all of them, i.e. over every
   interleaving of any number of subscribing/unsubscribing goroutines with the stream.
   Events are dispatched one after the other by the goroutine that runs Connect.  Definitions only. *)
From GoSse Require Import Base Callbacks.
Local Open Scope nat_scope.

Record cstate := mkcs {
  c_reg : reg;
  c_pending : option (list sub);   (* Some l: a dispatch holds the read lock, l still to be invoked *)
  c_ev : nat;                      (* number of dispatches begun *)
  c_log : list (nat * sub)         (* invocations so far: (event number, subscription), in order *)
}.

Definition cs_init : cstate := mkcs reg_empty None 0 [].

Inductive act :=
| AOp (o : op)        (* a whole SubscribeEvent / SubscribeToAll / remover call of some goroutine *)
| ABegin (t : bytes)
| AInvoke
| AEnd.

Definition cstep (st : cstate) (a : act) : option cstate :=
  match a with
  | AOp (Dispatch _) => None
  | AOp o =>
      match c_pending st with
      | Some _ => None                       (* the write lock is not available *)
      | None => Some (mkcs (fst (step (c_reg st) o)) None (c_ev st) (c_log st))
      end
  | ABegin t =>
      match c_pending st with
      | Some _ => None                       (* one event after the other *)
      | None => Some (mkcs (c_reg st) (Some (dispatch t (c_reg st))) (S (c_ev st)) (c_log st))
      end
  | AInvoke =>
      match c_pending st with
      | Some (x :: rest) => Some (mkcs (c_reg st) (Some rest) (c_ev st) (c_log st ++ [(c_ev st, x)]))
      | _ => None
      end
  | AEnd =>
      match c_pending st with
      | Some [] => Some (mkcs (c_reg st) None (c_ev st) (c_log st))
      | _ => None
      end
  end.

Fixpoint crun (st : cstate) (acts : list act) : option cstate :=
  match acts with
  | [] => Some st
  | a :: rest => match cstep st a with Some st' => crun st' rest | None => None end
  end.

(* the history a schedule amounts to: its subscription operations and the events, in the order
   in which they took effect *)
Definition proj_act (a : act) : list op :=
  match a with AOp o => [o] | ABegin t => [Dispatch t] | _ => [] end.
Definition proj (acts : list act) : list op := flat_map proj_act acts.

(* the invocation log of the atomic model, events numbered 1, 2, ... *)
Definition astate := (reg * nat * list (nat * sub))%type.
Definition astep (a : astate) (o : op) : astate :=
  let '(r, ev, log) := a in
  match o with
  | Dispatch t => (r, S ev, log ++ map (fun e => (S ev, e)) (dispatch t r))
  | _ => (fst (step r o), ev, log)
  end.
Definition arun (ops : list op) : astate := fold_left astep ops (reg_empty, 0, []).
Definition alog (ops : list op) : list (nat * sub) := snd (arun ops).
