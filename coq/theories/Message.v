(* message.go: Message, appendText, WriteTo (as the sequence of Write calls),
   UnmarshalText, Clone (value semantics; aliasing is the subject of SliceHeap.v). *)
From GoSse Require Import Base Lines Fields Queue FieldParser.
From GoSse.Gen Require Import Params.
Local Open Scope nat_scope.

Record chunk := mkc { c_content : bytes; c_comment : bool }.
Record msg := mkm { m_chunks : list chunk; m_id : field; m_type : field; m_retry : Z (* nanoseconds *) }.

Definition msg_empty : msg := mkm [] None None 0%Z.

(* message.go:64-73: the inner loop, one NextChunk per iteration while c != "" *)
Fixpoint split_chunks (fuel : nat) (c : bytes) : list bytes :=
  match fuel with
  | O => []
  | S f => match c with
           | [] => []
           | _ => let '(content, rest, _) := next_chunk c in content :: split_chunks f rest
           end
  end.

Definition append_text (m : msg) (is_comment : bool) (strs : list bytes) : msg :=
  mkm (m_chunks m ++ flat_map (fun c => map (fun x => mkc x is_comment) (split_chunks (length c) c)) strs)
      (m_id m) (m_type m) (m_retry m).

(* time.Duration.Milliseconds: integer division truncating toward zero *)
Definition millis_of (d : Z) : Z := Z.quot d 1000000.

(* message.go:161-168: the decimal digits, written backwards into a buffer of
   [retry_buf_len] bytes by the loop [for millis != 0 { buf[i] = '0' + millis%10; i--; millis /= 10 }];
   one digit too many is an index-out-of-range panic ([None]) *)
Fixpoint digits_loop (slots : nat) (n : N) (acc : bytes) : option bytes :=
  if (n =? 0)%N then Some acc
  else match slots with
       | O => None
       | S s => digits_loop s (n / 10)%N ((48 + n mod 10)%N :: acc)
       end.

Definition retry_digits (millis : Z) : option bytes := digits_loop retry_buf_len (Z.to_N millis) [].

(* the arguments of the successive Write calls of WriteTo before the final
   newline (message.go:124-202); [None] = panic *)
Definition field_calls (fb : bytes) (f : field) : list bytes :=
  match f with Some v => [fb; v; newline_bytes] | None => [] end.

Definition retry_calls (d : Z) : option (list bytes) :=
  let millis := millis_of d in
  if (millis <=? 0)%Z then Some []
  else match retry_digits millis with
       | Some ds => Some [field_bytes_retry; ds; newline_bytes]
       | None => None
       end.

Definition chunk_calls (c : chunk) : list bytes :=
  [if c_comment c then field_bytes_comment else field_bytes_data; c_content c; newline_bytes].

Definition body_calls (m : msg) : option (list bytes) :=
  match retry_calls (m_retry m) with
  | Some rc => Some (field_calls field_bytes_id (m_id m) ++ field_calls field_bytes_event (m_type m)
                     ++ rc ++ flat_map chunk_calls (m_chunks m))
  | None => None
  end.

(* all Write calls with a writer that never fails; message.go:203-207: the
   terminating newline is written iff something was written before *)
Definition write_calls (m : msg) : option (list bytes) :=
  match body_calls m with
  | Some calls => Some (if length (concat calls) =? 0 then [] else calls ++ [newline_bytes])
  | None => None
  end.

(* the wire form: MarshalText / String / WriteTo into a buffer *)
Definition wire (m : msg) : option bytes :=
  match write_calls m with Some calls => Some (concat calls) | None => None end.

(* ---- WriteTo against a failing writer ------------------------------------ *)
(* verdict of one Write call: accept everything, or accept the first k bytes
   (k <= len) and return error e (e > 0) *)
Inductive wverdict := WOk | WFail (k : nat) (e : N).

(* run the calls against the script: (bytes counted, error, bytes the writer accepted) *)
Fixpoint run_writes (calls : list bytes) (script : list wverdict) : nat * N * bytes :=
  match calls with
  | [] => (0, 0%N, [])
  | c :: rest =>
      match script with
      | WFail k e :: _ => (Nat.min k (length c), e, firstn k c)
      | _ =>
          let '(n, e, acc) := run_writes rest (tl script) in
          (length c + n, e, c ++ acc)
      end
  end.

(* message.go:181-208 *)
Definition write_to (m : msg) (script : list wverdict) : option (nat * N * bytes) :=
  match body_calls m with
  | None => None
  | Some calls =>
      let '(n, e, acc) := run_writes calls script in
      if negb (e =? 0)%N then Some (n, e, acc)
      else if n =? 0 then Some (0, 0%N, [])
      else
        let '(o, e2, acc2) := run_writes [newline_bytes] (skipn (length calls) script) in
        Some (n + o, e2, acc ++ acc2)
  end.

(* ---- UnmarshalText, message.go:283-338 ----------------------------------- *)
Definition all_digits (s : bytes) : bool := forallb (fun b => (48 <=? b)%N && (b <=? 57)%N) s.
Definition two63 : N := 9223372036854775808%N.
Definition two64z : Z := 18446744073709551616%Z.

(* strconv.ParseInt(s, 10, 64) on a string of digits: Horner, out of range above 2^63-1 *)
Fixpoint horner (acc : N) (s : bytes) : N :=
  match s with [] => acc | b :: r => horner (acc * 10 + (b - 48))%N r end.
Definition parse_int_digits (s : bytes) : option Z :=
  match s with
  | [] => None
  | _ => let n := horner 0 s in if (n <? two63)%N then Some (Z.of_N n) else None
  end.

(* int64 multiplication wraps *)
Definition wrap64 (z : Z) : Z :=
  let r := (z mod two64z)%Z in if (r <? 9223372036854775808)%Z then r else (r - two64z)%Z.

Inductive unmarshal_res := UOk (m : msg) | UErrRetry (value : bytes) | UErrEOF.

Definition has_nul (s : bytes) : bool := existsb (fun b => (b =? NUL)%N) s.

(* the loop over the fields up to the end of the first event *)
Fixpoint unmarshal_fields (fs : list pfield) (m : msg) : msg + bytes :=
  match fs with
  | [] => inl m
  | f :: rest =>
      match pf_name f with
      | FRetry =>
          if all_digits (pf_value f) then
            match parse_int_digits (pf_value f) with
            | Some milli => unmarshal_fields rest (mkm (m_chunks m) (m_id m) (m_type m) (wrap64 (milli * 1000000)))
            | None => inr (pf_value f)
            end
          else inr (pf_value f)
      | FData => unmarshal_fields rest (mkm (m_chunks m ++ [mkc (pf_value f) false]) (m_id m) (m_type m) (m_retry m))
      | FComment => unmarshal_fields rest (mkm (m_chunks m ++ [mkc (pf_value f) true]) (m_id m) (m_type m) (m_retry m))
      | FEvent => unmarshal_fields rest (mkm (m_chunks m) (m_id m) (Some (pf_value f)) (m_retry m))
      | FID => if has_nul (pf_value f) then unmarshal_fields rest m
               else unmarshal_fields rest (mkm (m_chunks m) (Some (pf_value f)) (m_type m) (m_retry m))
      | FEnd => inl m
      end
  end.

(* fields up to and including the first end-of-event field, and the parser state there *)
Fixpoint fields_until_end (fuel : nat) (f : fp) : list pfield * fp :=
  match fuel with
  | O => ([], f)
  | S fuel' =>
      match fp_next f with
      | (Some fld, f') =>
          match pf_name fld with
          | FEnd => ([fld], f')
          | _ => let '(fs, f'') := fields_until_end fuel' f' in (fld :: fs, f'')
          end
      | (None, f') => ([], f')
      end
  end.

Definition unmarshal (p : bytes) : unmarshal_res :=
  let s := fp_set_remove_bom (fp_keep (fp_new p) true) true in
  let '(fs, s') := fields_until_end (S (length p)) s in
  match unmarshal_fields fs msg_empty with
  | inr v => UErrRetry v
  | inl m =>
      (* a retry error returns before the parser is asked again, hence before its error is seen *)
      if (match m_chunks m with [] => true | _ => false end
          && negb (is_set (m_type m)) && (m_retry m =? 0)%Z && negb (is_set (m_id m)))
         || fp_err s'
      then UErrEOF else UOk m
  end.
