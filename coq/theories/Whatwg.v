(* Specification: the WHATWG event-stream parsing / interpretation algorithm
   (HTML Living Standard, 9.2.5-9.2.6), written from the standard, byte by byte,
   independently of the code.  Bytes are not decoded as UTF-8 (Go strings are
   byte sequences; events are compared as bytes).  go-sse's three documented
   adaptations are parameters ([mode]); [strict] is the standard itself. *)
From GoSse Require Import Base.
Local Open Scope N_scope.

Record event := mkev { ev_id : bytes; ev_type : bytes; ev_data : bytes }.

Inductive serr := EEOF | EUnexpectedEOF | ETooLong | EReader (n : N) | ECtx.
Inductive yield := YEv (e : event) | YRetry (ms : N) | YErr (e : serr).

Record mode := mkmode {
  md_dispatch_dirty : bool;   (* dispatch when any of data/event/id (retry) was seen, not only when data is non-empty *)
  md_retry_dirties : bool;    (* connections: a valid retry field also makes the event dispatchable *)
  md_default_type : bytes;    (* "message" in the standard, empty in go-sse *)
  md_flush_at_eof : bool;     (* dispatch a pending event at a clean end after a terminated line; unterminated: ErrUnexpectedEOF *)
  md_eof_is_error : bool;     (* connections report the clean end as io.EOF *)
  md_retry_bits : N           (* retry values must fit this many bits (the standard leaves overflow open) *)
}.

Definition s_message : bytes := [109; 101; 115; 115; 97; 103; 101].
Definition strict : mode := mkmode false false s_message false false 63.
Definition gosse_read : mode := mkmode true false [] true false 63.
Definition gosse_conn : mode := mkmode true true [] true true 63.

Definition s_data : bytes := [100; 97; 116; 97].
Definition s_event : bytes := [101; 118; 101; 110; 116].
Definition s_id : bytes := [105; 100].
Definition s_retry : bytes := [114; 101; 116; 114; 121].
Definition s_bom : bytes := [239; 187; 191].

Record wst := mkw {
  w_line : bytes;       (* the current, not yet terminated line *)
  w_after_cr : bool;    (* the previous byte was a CR that ended a line *)
  w_data : bytes; w_type : bytes; w_last_id : bytes;
  w_dirty : bool        (* a data/event/id (retry) field was seen since the last dispatch *)
}.

Definition w_init (last_id : bytes) : wst := mkw [] false [] [] last_id false.

Fixpoint split_colon (s : bytes) : bytes * option bytes :=
  match s with
  | [] => ([], None)
  | b :: r => if b =? COLON then ([], Some r)
              else let '(n, v) := split_colon r in (b :: n, v)
  end.

Definition strip_space (s : bytes) : bytes :=
  match s with b :: r => if b =? SP then r else s | [] => [] end.

Definition is_digit (b : N) : bool := (48 <=? b) && (b <=? 57).
Fixpoint digits_value (acc : N) (s : bytes) : N :=
  match s with [] => acc | b :: r => digits_value (acc * 10 + (b - 48)) r end.

(* "if the field value consists of only ASCII digits, interpret it as a base-ten integer" *)
Definition retry_value (m : mode) (v : bytes) : option N :=
  match v with
  | [] => None
  | _ => if forallb is_digit v
         then let n := digits_value 0 v in if n <? 2 ^ md_retry_bits m then Some n else None
         else None
  end.

Fixpoint strip_last_lf (s : bytes) : bytes :=
  match s with
  | [] => []
  | [b] => if b =? LF then [] else [b]
  | b :: r => b :: strip_last_lf r
  end.

(* "dispatch the event" *)
Definition dispatch (m : mode) (st : wst) : wst * list yield :=
  let cleared := mkw (w_line st) (w_after_cr st) [] [] (w_last_id st) false in
  let ev := mkev (w_last_id st)
                 (match w_type st with [] => md_default_type m | t => t end)
                 (strip_last_lf (w_data st)) in
  if md_dispatch_dirty m then
    if w_dirty st then (cleared, [YEv ev]) else (st, [])
  else
    match w_data st with
    | [] => (cleared, [])
    | _ => (cleared, [YEv ev])
    end.

(* "process the field" *)
Definition process_field (m : mode) (st : wst) (name value : bytes) : wst * list yield :=
  if bytes_eqb name s_event then
    (mkw (w_line st) (w_after_cr st) (w_data st) value (w_last_id st) true, [])
  else if bytes_eqb name s_data then
    (mkw (w_line st) (w_after_cr st) (w_data st ++ value ++ [LF]) (w_type st) (w_last_id st) true, [])
  else if bytes_eqb name s_id then
    if existsb (fun b => b =? NUL) value then (st, [])
    else (mkw (w_line st) (w_after_cr st) (w_data st) (w_type st) value true, [])
  else if bytes_eqb name s_retry then
    match retry_value m value with
    | Some n => (mkw (w_line st) (w_after_cr st) (w_data st) (w_type st) (w_last_id st)
                     (w_dirty st || md_retry_dirties m), [YRetry n])
    | None => (st, [])
    end
  else (st, []).

(* a complete line (without its terminator) *)
Definition process_line (m : mode) (st : wst) (line : bytes) : wst * list yield :=
  match line with
  | [] => dispatch m st
  | b :: _ =>
      if b =? COLON then (st, [])
      else
        let '(name, v) := split_colon line in
        process_field m st name (match v with Some v' => strip_space v' | None => [] end)
  end.

(* one byte of the stream *)
Definition feed (m : mode) (st : wst) (b : N) : wst * list yield :=
  if w_after_cr st && (b =? LF) then
    (mkw (w_line st) false (w_data st) (w_type st) (w_last_id st) (w_dirty st), [])
  else if (b =? LF) || (b =? CR) then
    let '(st', ys) := process_line m (mkw [] (b =? CR) (w_data st) (w_type st) (w_last_id st) (w_dirty st)) (w_line st) in
    (st', ys)
  else
    (mkw (w_line st ++ [b]) false (w_data st) (w_type st) (w_last_id st) (w_dirty st), []).

Fixpoint feed_all (m : mode) (st : wst) (s : bytes) : wst * list yield :=
  match s with
  | [] => (st, [])
  | b :: r => let '(st', ys) := feed m st b in
              let '(st'', ys') := feed_all m st' r in (st'', ys ++ ys')
  end.

Definition strip_bom (s : bytes) : bytes :=
  match s with
  | a :: b :: c :: r => if (a =? 239) && (b =? 187) && (c =? 191) then r else s
  | _ => s
  end.

Inductive ending := CleanEOF | ReadError (e : serr).

(* how the stream ends *)
Definition finish (m : mode) (st : wst) (e : ending) : list yield :=
  match e with
  | ReadError err => [YErr err]   (* pending data is discarded, the failure is reported as itself *)
  | CleanEOF =>
      if md_flush_at_eof m then
        match w_line st with
        | [] => snd (dispatch m st) ++ (if md_eof_is_error m then [YErr EEOF] else [])
        | _ => [YErr EUnexpectedEOF]
        end
      else []  (* the standard: pending data is discarded *)
  end.

Definition interp (m : mode) (last_id : bytes) (stream : bytes) (e : ending) : list yield :=
  let '(st, ys) := feed_all m (w_init last_id) (strip_bom stream) in
  ys ++ finish m st e.

Definition events_of (ys : list yield) : list event :=
  flat_map (fun y => match y with YEv e => [e] | _ => [] end) ys.
