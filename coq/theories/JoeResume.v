(* C04 on the LTS: Replay and registration happen in one loop iteration, so what the replayer was
   offered when it replays for subscriber i is exactly the prefix of the global order that ends
   where i's live window begins - no gap, no overlap.  The replayer itself is abstract here (any
   function of the Put history); the concrete replayers are the subject of C08/C09. *)
From GoSse Require Import Base JoeLts JoeLocal JoeProj JoePub JoeInv JoeSafety JoeHist JoeDeliver.
From Coq Require Import Lia.
Local Open Scope nat_scope.

(* the messages Put has been called for, when the replayer is still alive: all accepted messages,
   except the one in flight whose Put has not been called yet *)
Definition putable (s : state) : list nat :=
  match pc s with GotMsg _ => removelast (order s) | _ => order s end.

Definition snap_view (v : view) : bool :=
  match v with VReplaying | VRejecting | VRegistering => true | _ => false end.

Record Snap (s : state) : Prop := mkSnap {
  sn_puts : rep s = true -> map fst (puts s) = putable s;
  sn_prefix : forall i k, s_rsnap (sub s i) = Some k ->
              k <= length (puts s) /\ k <= length (order s) /\
              map fst (firstn k (puts s)) = firstn k (order s);
  sn_now : forall i, snap_view (view_of (pc s) i) = true -> s_rsnap (sub s i) = Some (length (order s));
  sn_none : forall i, s_pc (sub s i) = S0 \/ s_pc (sub s i) = AtSel1 \/ view_of (pc s) i = VGotSub ->
            s_rsnap (sub s i) = None;
  sn_reg : forall i r k, s_reg (sub s i) = Some r -> s_rsnap (sub s i) = Some k -> k = r
}.

Lemma firstn_app_le {A} k (l m : list A) : k <= length l -> firstn k (l ++ m) = firstn k l.
Proof.
  intros H. rewrite firstn_app. replace (k - length l) with 0 by lia. cbn [firstn]. now rewrite app_nil_r.
Qed.

Lemma snap_puts_step s l s' :
  Inv s -> Hist s -> Snap s -> step s l = Some s' -> rep s' = true -> map fst (puts s') = putable s'.
Proof.
  intros I HH SS H Hr. pose proof (sn_puts _ SS) as P. unfold putable in *.
  step_cases H l; simp_in_hyp Hr; simp_goal; simp_in_hyp P; try (apply P; exact Hr); try discriminate Hr;
    try congruence.
  - (* PubSend *) rewrite removelast_last. apply P. exact Hr.
  - (* LPut *)
    match goal with Hq : pc s = GotMsg ?q |- _ =>
      destruct (h_last _ HH q) as [o Ho]; [rewrite Hq; reflexivity|] end.
    assert (rep s = true) as Hrep by assumption.
    rewrite map_app. cbn [map fst]. rewrite (P Hrep), Ho, removelast_last. reflexivity.
  - rw. apply P. exact Hr.
  - rw. apply P. exact Hr.
Qed.

Ltac sub_upd :=
  try match goal with
  | |- context [upd _ ?j _ ?k0] =>
      let E := fresh "E" in
      destruct (Nat.eqb k0 j) eqn:E;
      [apply Nat.eqb_eq in E; subst; rewrite ?upd_same; simp_goal
      | rewrite ?(upd_other _ _ _ _ E)]
  end.
Ltac sub_upd_in H :=
  try match type of H with
  | context [upd _ ?j _ ?k0] =>
      let E := fresh "E" in
      destruct (Nat.eqb k0 j) eqn:E;
      [apply Nat.eqb_eq in E; subst; rewrite ?upd_same in H; simp_in_hyp H
      | rewrite ?(upd_other _ _ _ _ E) in H]
  end.

Lemma snap_prefix_step s l s' :
  Inv s -> Hist s -> Snap s -> step s l = Some s' ->
  forall i k, s_rsnap (sub s' i) = Some k ->
    k <= length (puts s') /\ k <= length (order s') /\ map fst (firstn k (puts s')) = firstn k (order s').
Proof.
  intros I HH SS H i k Hk. pose proof (sn_prefix _ SS i k) as P. pose proof (sn_puts _ SS) as Q.
  unfold putable in Q.
  step_cases H l; simp_in_hyp Hk; simp_goal; try (apply P; exact Hk); sub_upd_in Hk; try (apply P; exact Hk).
  all: try (destruct (P Hk) as (P1 & P2 & P3); rewrite ?app_length; cbn [length];
            rewrite ?firstn_app_le by lia; repeat split; try lia; exact P3).
  (* LReplay i: the snapshot is taken now *)
  injection Hk as <-. simp_in_hyp Q.
  assert (rep s = true) as Hrep by assumption. specialize (Q Hrep).
  assert (length (puts s) = length (order s)) as L by (rewrite <- Q; now rewrite map_length).
  repeat split; try lia. rewrite firstn_all. rewrite L. rewrite firstn_all. exact Q.
Qed.

Lemma snap_now_step s l s' :
  Inv s -> Hist s -> Snap s -> step s l = Some s' ->
  forall i, snap_view (view_of (pc s') i) = true -> s_rsnap (sub s' i) = Some (length (order s')).
Proof.
  intros I HH SS H i Hv. pose proof (sn_now _ SS i) as P. pose proof (sn_puts _ SS) as Q.
  unfold putable in Q.
  step_cases H l; simp_in_hyp Hv; simp_goal; cbn [view_of snap_view] in Hv, P; try discriminate Hv;
    try (apply P; exact Hv).
  all: try (destruct (Nat.eqb i _) eqn:E; cbn [snap_view] in Hv, P; try discriminate Hv;
            apply Nat.eqb_eq in E; subst; rewrite ?upd_same; simp_goal; try (apply P; reflexivity)).
  all: try (sub_upd; apply P; rw; exact Hv).
  all: try (sub_upd; apply P; exact Hv).
  - (* LReplay *) simp_in_hyp Q. assert (rep s = true) as Hrep by assumption. specialize (Q Hrep).
    f_equal. rewrite <- Q. now rewrite map_length.
  - rewrite Heql in Hv. cbn [view_of] in Hv. sub_upd; apply P; exact Hv.
  - rewrite Heql in Hv. cbn [view_of] in Hv. sub_upd; apply P; exact Hv.
Qed.

Lemma gotsub_waiting s i : Inv s -> view_of (pc s) i = VGotSub -> s_pc (sub s i) = AtSel2 \/ s_pc (sub s i) = AtSel3.
Proof.
  intros I V. pose proof (inv_sub _ I i) as O. unfold loc in O. rewrite V in O.
  destruct (s_pc (sub s i)) as [| | | | |[r|]]; auto; exfalso; crush_ok O.
Qed.

Lemma snap_none_step s l s' :
  Inv s -> Snap s -> step s l = Some s' ->
  forall i, s_pc (sub s' i) = S0 \/ s_pc (sub s' i) = AtSel1 \/ view_of (pc s') i = VGotSub ->
  s_rsnap (sub s' i) = None.
Proof.
  intros I SS H i Hc. pose proof (sn_none _ SS i) as P.
  step_cases H l; simp_in_hyp Hc; simp_goal; cbn [view_of] in Hc, P.
  all: sub_upd_in Hc; sub_upd; try (rewrite ?Nat.eqb_refl in *); try rewrite E in *.
  all: try (apply P; tauto).
  all: try (apply P; destruct Hc as [Hc|[Hc|Hc]]; try discriminate Hc; tauto).
  all: try (destruct Hc as [Hc|[Hc|Hc]]; discriminate Hc).
  all: try (rw_in Hc; cbn [view_of] in Hc; rewrite ?Nat.eqb_refl in Hc;
            repeat match goal with E0 : Nat.eqb _ _ = false |- _ => rewrite E0 in Hc end;
            apply P; destruct Hc as [Hc|[Hc|Hc]]; try discriminate Hc; tauto).
  1-2: exfalso; match goal with II : Inv ?s0, Hq : pc ?s0 = GotSub ?j |- _ =>
         destruct (gotsub_waiting s0 j II) as [W|W]; [rewrite Hq; cbn [view_of]; now rewrite Nat.eqb_refl| |];
         destruct Hc as [Hc|[Hc|Hc]]; congruence end.
  all: apply P; destruct Hc as [Hc|[Hc|Hc]]; [tauto|tauto|]; destruct (Nat.eqb i i1); discriminate Hc.
Qed.

Lemma snap_reg_step s l s' :
  Inv s -> Snap s -> step s l = Some s' ->
  forall i r k, s_reg (sub s' i) = Some r -> s_rsnap (sub s' i) = Some k -> k = r.
Proof.
  intros I SS H i r k Hr Hk. pose proof (sn_reg _ SS i r k) as P.
  pose proof (sn_now _ SS i) as Nw. pose proof (sn_none _ SS i) as Nn.
  step_cases H l; simp_in_hyp Hr; simp_in_hyp Hk; simp_goal; try (apply P; assumption).
  all: sub_upd_in Hr; rewrite ?upd_same in Hk; rewrite ?(upd_other _ _ _ _ E) in Hk; simp_in_hyp Hk;
       try (apply P; assumption).
  - (* LReplay i: not registered yet *)
    exfalso. match goal with Hq : pc s = GotSub ?j |- _ =>
      destruct (subscribing_never s j I) as [R _]; [rewrite Hq; cbn [view_of]; rewrite Nat.eqb_refl; auto|] end.
    congruence.
  - (* LReg *)
    injection Hr as <-. cbn [view_of] in Nw, Nn. rewrite Nat.eqb_refl in Nw, Nn.
    first [ specialize (Nw eq_refl); congruence
          | exfalso; rewrite Nn in Hk by auto; discriminate Hk ].
  - injection Hr as <-. cbn [view_of] in Nw, Nn. rewrite Nat.eqb_refl in Nw, Nn.
    first [ specialize (Nw eq_refl); congruence
          | exfalso; rewrite Nn in Hk by auto; discriminate Hk ].
Qed.

Lemma snap_init : Snap init.
Proof. split; cbn; intros; try discriminate; auto. Qed.

Lemma snap_step s l s' : Inv s -> Hist s -> Snap s -> step s l = Some s' -> Snap s'.
Proof.
  intros I HH SS H. split.
  - eapply snap_puts_step; eauto.
  - eapply snap_prefix_step; eauto.
  - eapply snap_now_step; eauto.
  - eapply snap_none_step; eauto.
  - eapply snap_reg_step; eauto.
Qed.

Theorem snap_reachable s : reachable s -> Snap s.
Proof.
  intros [ls H]. assert (reachable init) as R0 by (exists []; reflexivity).
  pose proof snap_init as C0.
  revert H C0 R0. generalize init. induction ls as [|l ls IH]; intros s0 H C0 R0; cbn in H.
  - now injection H as <-.
  - destruct (step s0 l) as [s1|] eqn:E; [|discriminate].
    eapply IH; [exact H| |eapply reachable_step; eauto].
    eapply snap_step; eauto; [now apply inv_reachable|now apply hist_reachable].
Qed.

(* ---- C04 ---------------------------------------------------------------------------------------- *)

(* replay + registration in one loop iteration: when Replay was called for i the replayer had been
   offered (Put) exactly the messages order[0 .. reg_i), each once, in that order; i's live window
   starts at reg_i.  So nothing falls between the replayed part and the live part, and nothing is
   in both. *)
Theorem replay_boundary s i r k :
  reachable s -> s_reg (sub s i) = Some r -> s_rsnap (sub s i) = Some k ->
  k = r /\ map fst (firstn k (puts s)) = firstn r (order s).
Proof.
  intros R Hr Hk. pose proof (snap_reachable s R) as SS.
  pose proof (sn_reg _ SS i r k Hr Hk) as ->. split; [reflexivity|].
  apply (sn_prefix _ SS i r Hk).
Qed.

(* everything i's writer was handed: first by the replayer, then by the fan-out *)
Theorem replay_then_live s i :
  reachable s -> sends (wlog s i) = sends (s_rlog (sub s i)) ++ due s i.
Proof. intros R. unfold wlog. rewrite sends_app. now rewrite deliveries. Qed.

(* the elements after the first occurrence of q *)
Fixpoint after_tok (q : nat) (l : list nat) : list nat :=
  match l with [] => [] | x :: r => if Nat.eqb x q then r else after_tok q r end.

Lemma after_tok_app q l m : In q l -> after_tok q (l ++ m) = after_tok q l ++ m.
Proof.
  induction l as [|x l IH]; intros Hi; [contradiction|]. cbn.
  destruct (Nat.eqb x q) eqn:E; [reflexivity|]. apply IH. destruct Hi as [->|Hi]; [|exact Hi].
  rewrite Nat.eqb_refl in E. discriminate.
Qed.

Lemma firstn_slice l r u : r <= u -> firstn u l = firstn r l ++ slice l r u.
Proof.
  intros L. unfold slice. replace u with (r + (u - r)) at 1 by lia. apply firstn_plus.
Qed.

(* a replayer that, like the ones of C08/C09, replays the matching accepted events after the
   presented one [q]: if every Put before the registration succeeded and q is among them, the
   subscriber's complete Send sequence is the matching part of the global order after q, up to the
   end of its window - replayed and live parts joined without gap or duplicate *)
Theorem resume_no_gap_no_dup s i r k q :
  reachable s -> s_reg (sub s i) = Some r -> s_rsnap (sub s i) = Some k ->
  sends (s_rlog (sub s i)) = filter (matches s i) (after_tok q (map fst (firstn k (puts s)))) ->
  In q (firstn r (order s)) ->
  sends (wlog s i) = filter (matches s i) (after_tok q (firstn (upto s i) (order s))).
Proof.
  intros R Hr Hk Hrep Hq. destruct (replay_boundary s i r k R Hr Hk) as [-> B].
  rewrite replay_then_live by exact R. rewrite Hrep, B. unfold due. rewrite Hr.
  destruct (h_pos _ (hist_reachable s R) i r Hr) as (P1 & P2 & P3).
  assert (r <= upto s i) as L.
  { unfold upto. destruct (s_rem (sub s i)) as [[e w]|] eqn:M; [apply (P3 e w eq_refl)|].
    destruct (unreached (pc s) i) eqn:U; [|exact P1].
    assert (r < length (order s)); [|lia]. apply P2; [reflexivity|].
    destruct (pc s); cbn in U |- *; try discriminate U; discriminate. }
  rewrite (firstn_slice (order s) r (upto s i) L). rewrite after_tok_app by exact Hq.
  now rewrite filter_app.
Qed.

(* the presented event is the newest one (or unknown to / unset for the replayer): a replayer that
   replays nothing leaves exactly the live part *)
Theorem resume_nothing_replayed s i :
  reachable s -> sends (s_rlog (sub s i)) = [] -> sends (wlog s i) = due s i.
Proof. intros R E. rewrite replay_then_live by exact R. now rewrite E. Qed.

Lemma replay_boundary_run ls s i r k :
  run init ls = Some s -> s_reg (sub s i) = Some r -> s_rsnap (sub s i) = Some k ->
  k = r /\ map fst (firstn k (puts s)) = firstn r (order s).
Proof. intros H. apply replay_boundary. eapply reach; eauto. Qed.
Lemma replay_then_live_run ls s i :
  run init ls = Some s -> sends (wlog s i) = sends (s_rlog (sub s i)) ++ due s i.
Proof. intros H. apply replay_then_live. eapply reach; eauto. Qed.
Lemma resume_no_gap_no_dup_run ls s i r k q :
  run init ls = Some s -> s_reg (sub s i) = Some r -> s_rsnap (sub s i) = Some k ->
  sends (s_rlog (sub s i)) = filter (matches s i) (after_tok q (map fst (firstn k (puts s)))) ->
  In q (firstn r (order s)) ->
  sends (wlog s i) = filter (matches s i) (after_tok q (firstn (upto s i) (order s))).
Proof. intros H. apply resume_no_gap_no_dup. eapply reach; eauto. Qed.
Lemma resume_nothing_replayed_run ls s i :
  run init ls = Some s -> sends (s_rlog (sub s i)) = [] -> sends (wlog s i) = due s i.
Proof. intros H. apply resume_nothing_replayed. eapply reach; eauto. Qed.
