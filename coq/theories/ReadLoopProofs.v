(* read_loop_spec: the read loop of event.go, fed with the fields of the lines of a stream, yields
   exactly Whatwg.interp of that stream - for every stream, both entry points, every ending, every
   early-stop position.  (The interpretation half of C01; no scanner, no segmentation here.) *)
From GoSse Require Import Base Lines FieldParser Whatwg WhatwgLines Split Scanner Reader ReadLoop Yields LineStepProofs.
Local Open Scope nat_scope.

(* the read loop over an explicit field sequence that ends with Parser.Err() = err *)
Fixpoint fold_fields (on_retry ignore_eof : bool) (stop : option nat) (fs : list pfield) (err : option serr)
         (s : rl) (delivered : nat) : list yield :=
  match fs with
  | f :: r =>
      match rl_field on_retry s f with
      | (s', ActNone) => fold_fields on_retry ignore_eof stop r err s' delivered
      | (s', ActRetry n) => YRetry n :: fold_fields on_retry ignore_eof stop r err s' delivered
      | (s', ActDispatch) =>
          if consumer_refuses stop delivered then [YEv (rl_event s')]
          else YEv (rl_event s') :: fold_fields on_retry ignore_eof stop r err (rl_cleared s') (S delivered)
      end
  | [] =>
      let is_eof := match err with Some EEOF => true | _ => false end in
      if rl_dirty s && is_eof && consumer_refuses stop delivered then [YEv (rl_event s)]
      else (if rl_dirty s && is_eof then [YEv (rl_event s)] else []) ++
           (match err with Some e => if ignore_eof && is_eof then [] else [YErr e] | None => [] end)
  end.

(* the fields FieldParser hands out for a sequence of complete lines (comments are not kept) *)
Definition fields_of (ls : list bytes) : list pfield :=
  flat_map (fun l => match scan_segment false l with Some f => [f] | None => [] end) ls.

(* Parser.Err() at the end of the input: the reader's error, else ErrUnexpectedEOF if the last line is
   unterminated, else io.EOF *)
Definition end_err (tl : bytes) (e : ending) : option serr :=
  match e with
  | ReadError x => Some x
  | CleanEOF => Some (match tl with [] => EEOF | _ => EUnexpectedEOF end)
  end.

(* a read error is not io.EOF *)
Definition ending_ok (e : ending) : Prop := e <> ReadError EEOF.

(* cutting for a consumer that has already taken [d] events *)
Definition cutd (stop : option nat) (d : nat) (ys : list yield) : list yield :=
  match stop with Some k => cut_after (k - d) ys | None => ys end.

Lemma vis_app on_retry a b : vis on_retry (a ++ b) = vis on_retry a ++ vis on_retry b.
Proof. destruct on_retry; cbn [vis]; [reflexivity|]. unfold drop_retries. apply filter_app. Qed.

Lemma cutd_nil stop d : cutd stop d [] = [].
Proof. destruct stop; reflexivity. Qed.

Lemma cutd_retry stop d n ys : cutd stop d (YRetry n :: ys) = YRetry n :: cutd stop d ys.
Proof. destruct stop; reflexivity. Qed.

Lemma cutd_err stop d e : cutd stop d [YErr e] = [YErr e].
Proof. destruct stop; reflexivity. Qed.

Lemma cutd_event stop d e ys : (forall k, stop = Some k -> d <= k) ->
  cutd stop d (YEv e :: ys) = if consumer_refuses stop d then [YEv e] else YEv e :: cutd stop (S d) ys.
Proof.
  intros H. destruct stop as [k|]; [|reflexivity]. specialize (H k eq_refl).
  cbn [cutd consumer_refuses cut_after].
  destruct (k - d) eqn:E.
  - assert (k <=? d = true) as -> by (apply Nat.leb_le; lia). reflexivity.
  - assert (k <=? d = false) as -> by (apply Nat.leb_gt; lia).
    replace (k - S d) with n by lia. reflexivity.
Qed.

(* the end of the input *)
Lemma finish_step on_retry stop s d tl e :
  sb_ok (rl_sb s) -> ending_ok e -> (forall k, stop = Some k -> d <= k) ->
  fold_fields on_retry (negb on_retry) stop [] (end_err tl e) s d
  = cutd stop d (vis on_retry (finish (mode_for on_retry) (set_line (st_of s) tl false) e)).
Proof.
  intros Hsb He Hd. cbn [fold_fields]. unfold finish.
  destruct e as [|x].
  - replace (md_flush_at_eof (mode_for on_retry)) with true by (destruct on_retry; reflexivity).
    cbn [set_line w_line end_err].
    destruct tl as [|t tl'].
    + (* terminated last line: flush *)
      pose proof (line_step on_retry s [] Hsb) as (H1 & H2 & _). cbv zeta in H1, H2.
      cbn [process_line] in H1, H2.
      assert (Hdisp : snd (dispatch (mode_for on_retry) (set_line (st_of s) [] false))
                      = snd (dispatch (mode_for on_retry) (st_of s))).
      { rewrite dispatch_set_line. reflexivity. }
      rewrite Hdisp, vis_app, H2.
      unfold line_yields. change (scan_segment false []) with (Some (mkpf FEnd [])).
      cbn [rl_field pf_name].
      replace (md_eof_is_error (mode_for on_retry)) with on_retry by (destruct on_retry; reflexivity).
      destruct (rl_dirty s); cbn [andb snd app].
      * rewrite cutd_event by exact Hd.
        destruct (consumer_refuses stop d); [reflexivity|].
        destruct on_retry; cbn [negb andb vis app]; [now rewrite cutd_err|now rewrite cutd_nil].
      * destruct on_retry; cbn [negb andb vis app]; [now rewrite cutd_err|now rewrite cutd_nil].
    + (* unterminated last line *)
      rewrite Bool.andb_false_r. cbn [andb app].
      rewrite Bool.andb_false_r.
      destruct on_retry; cbn [vis drop_retries filter is_retry negb]; now rewrite cutd_err.
  - cbn [end_err]. assert (Hx : x <> EEOF) by (intros ->; now apply He).
    destruct x; try congruence; rewrite ?Bool.andb_false_r; cbn [andb app];
      destruct on_retry; cbn [vis drop_retries filter is_retry negb]; now rewrite cutd_err.
Qed.

(* the lines of a stream, from any state of the loop *)
Lemma fold_lines on_retry stop ls : forall s d tl e,
  sb_ok (rl_sb s) -> ending_ok e -> (forall k, stop = Some k -> d <= k) ->
  fold_fields on_retry (negb on_retry) stop (fields_of ls) (end_err tl e) s d
  = cutd stop d (vis on_retry
      (let '(st, ys) := run_lines (mode_for on_retry) (st_of s) ls in
       ys ++ finish (mode_for on_retry) (set_line st tl false) e)).
Proof.
  induction ls as [|l ls IH]; intros s d tl e Hsb He Hd.
  - cbn [fields_of flat_map run_lines app]. now apply finish_step.
  - cbn [run_lines].
    pose proof (line_step on_retry s l Hsb) as (H1 & H2 & H3). cbv zeta in H1, H2, H3.
    destruct (process_line (mode_for on_retry) (st_of s) l) as [st1 ys1]. cbn [fst snd] in H1, H2.
    subst st1.
    unfold fields_of. cbn [flat_map]. fold (fields_of ls).
    unfold line_yields in H2, H3 |- *.
    destruct (run_lines (mode_for on_retry) (st_of (fst _)) ls) as [st2 ys2] eqn:E2.
    rewrite <- app_assoc, vis_app, H2.
    destruct (scan_segment false l) as [f|]; cbn [app].
    + cbn [fold_fields].
      destruct (rl_field on_retry s f) as [s' [| n |]]; cbn [fst snd app] in *.
      * rewrite IH by assumption. now rewrite E2.
      * rewrite cutd_retry. f_equal. rewrite IH by assumption. now rewrite E2.
      * rewrite cutd_event by exact Hd.
        destruct (consumer_refuses stop d) eqn:Hr; [reflexivity|]. f_equal.
        rewrite IH; [now rewrite E2|assumption|assumption|].
        intros k ->. specialize (Hd k eq_refl). cbn [consumer_refuses] in Hr. apply Nat.leb_gt in Hr. lia.
    + cbn [fst snd] in *. rewrite IH by assumption. now rewrite E2.
Qed.

(* ---- read_loop_spec ------------------------------------------------------------------------------ *)
Theorem read_loop_spec on_retry stop last_id stream e :
  ending_ok e ->
  let '(ls, tl) := wlines (strip_bom stream) in
  fold_fields on_retry (negb on_retry) stop (fields_of ls) (end_err tl e) (mkrl last_id [] [] false) 0
  = firstn' stop (vis on_retry (interp (mode_for on_retry) last_id stream e)).
Proof.
  intros He. rewrite <- interp_lines_eq. unfold interp_lines.
  destruct (wlines (strip_bom stream)) as [ls tl].
  rewrite (fold_lines on_retry stop ls (mkrl last_id [] [] false) 0 tl e); [|left; reflexivity|exact He|intros; lia].
  change (st_of (mkrl last_id [] [] false)) with (w_init last_id).
  destruct stop as [k|]; cbn [cutd firstn']; [now rewrite Nat.sub_0_r|reflexivity].
Qed.

(* ---- ReadLoop.read_loop is fold_fields over whatever Parser.Next hands out ---------------------------- *)
(* [pf_run p fs err]: successive calls of Parser.Next from p return the fields fs and then false,
   with Parser.Err() = err *)
Inductive pf_run : parser -> list pfield -> option serr -> Prop :=
| pf_field p f p' fs err : parser_next p = (NextField f, p') -> pf_run p' fs err -> pf_run p (f :: fs) err
| pf_end p p' : parser_next p = (NextFalse, p') -> pf_run p [] (parser_err p').

Theorem read_loop_pf p fs err : pf_run p fs err ->
  forall fuel on_retry ignore_eof stop s d, length fs < fuel ->
    fst (read_loop fuel on_retry ignore_eof stop p s d)
    = (fold_fields on_retry ignore_eof stop fs err s d, EndNormal).
Proof.
  induction 1 as [p f p' fs err Hn Hr IH|p p' Hn]; intros fuel on_retry ignore_eof stop s d Hf.
  - destruct fuel as [|fuel]; [cbn in Hf; lia|]. cbn [length] in Hf.
    cbn [read_loop fold_fields]. rewrite Hn.
    destruct (rl_field on_retry s f) as [s' [|n|]].
    + apply IH. lia.
    + specialize (IH fuel on_retry ignore_eof stop s' d ltac:(lia)).
      destruct (read_loop fuel on_retry ignore_eof stop p' s' d) as [[ys e] p2]. cbn [fst] in *.
      injection IH as -> ->. reflexivity.
    + destruct (consumer_refuses stop d); [reflexivity|].
      specialize (IH fuel on_retry ignore_eof stop (rl_cleared s') (S d) ltac:(lia)).
      destruct (read_loop fuel on_retry ignore_eof stop p' (rl_cleared s') (S d)) as [[ys e] p2]. cbn [fst] in *.
      injection IH as -> ->. reflexivity.
  - destruct fuel as [|fuel]; [cbn in Hf; lia|].
    cbn [read_loop fold_fields]. rewrite Hn.
    destruct (rl_dirty s && _ && consumer_refuses stop d); reflexivity.
Qed.
