(* Facts about the specifications of Fifo.v that spell out the property texts
   of C08 / C09 / C18 on the abstract lists. *)
From GoSse Require Import Base Fields Queue Replayers Fifo.
Local Open Scope nat_scope.

(* ---- last N --------------------------------------------------------------- *)
Lemma skipn_app_le {A} k (l r : list A) : k <= length l -> skipn k (l ++ r) = skipn k l ++ r.
Proof. intros H. rewrite skipn_app. replace (k - length l) with 0 by lia. reflexivity. Qed.

Lemma skipn_skipn' {A} a b (l : list A) : skipn a (skipn b l) = skipn (b + a) l.
Proof.
  revert l; induction b as [|b IH]; intros l; cbn; [reflexivity|].
  destruct l; [now rewrite !skipn_nil|]. apply IH.
Qed.

Lemma lastn_length {A} n (l : list A) : length (lastn n l) = Nat.min n (length l).
Proof. unfold lastn. rewrite skipn_length. lia. Qed.

Lemma lastn_app_lastn {A} n (l : list A) e : 0 < n -> lastn n (lastn n l ++ [e]) = lastn n (l ++ [e]).
Proof.
  intros Hn. unfold lastn at 1 3. rewrite !app_length, lastn_length. cbn [length].
  unfold lastn. destruct (Nat.le_gt_cases (length l) n) as [Hle|Hgt].
  - replace (length l - n) with 0 by lia. cbn [skipn]. f_equal. lia.
  - rewrite !skipn_app_le by (rewrite ?skipn_length; lia). rewrite skipn_skipn'. f_equal. f_equal. lia.
Qed.

(* the entries accepted by the Puts of a history, with the IDs they were stored under *)
Fixpoint fs_accepted (s : fspec) (ops : list fop) : list entry :=
  match ops with
  | [] => []
  | op :: rest =>
      match op with
      | FPut m_id tok topics =>
          match spec_put_id m_id (fs_next s) topics with
          | inr (id, _) => mke id topics tok 0%Z :: fs_accepted (fst (fs_step s op)) rest
          | inl _ => fs_accepted (fst (fs_step s op)) rest
          end
      | FReplay _ _ _ => fs_accepted s rest
      end
  end.

Lemma fs_cap_step s op : fs_cap (fst (fs_step s op)) = fs_cap s.
Proof.
  destruct op; cbn; [|reflexivity]. unfold fs_put. destruct (spec_put_id _ _ _) as [e|[id nx]]; reflexivity.
Qed.

(* the buffer holds exactly the last N successfully put events *)
Lemma fs_buffer_last_n_gen ops : forall s hist,
  0 < fs_cap s -> fs_l s = lastn (fs_cap s) hist ->
  fs_l (fs_after s ops) = lastn (fs_cap s) (hist ++ fs_accepted s ops).
Proof.
  induction ops as [|op ops IH]; intros s hist Hc Hl; cbn [fs_after fs_accepted].
  - now rewrite app_nil_r.
  - destruct op as [m_id tok topics|id topics script].
    + cbn [fs_step]. unfold fs_put. destruct (spec_put_id m_id (fs_next s) topics) as [e|[id nx]] eqn:E; cbn [fst].
      * apply IH; assumption.
      * rewrite (IH _ (hist ++ [mke id topics tok 0%Z])); cbn [fs_cap fs_l]; auto.
        -- now rewrite <- app_assoc.
        -- rewrite Hl. now apply lastn_app_lastn.
    + cbn [fs_step fst]. apply IH; assumption.
Qed.

Lemma fs_buffer_last_n n auto ops :
  0 < n -> fs_l (fs_after (fs_new n auto) ops) = lastn n (fs_accepted (fs_new n auto) ops).
Proof. intros Hn. now apply (fs_buffer_last_n_gen ops (fs_new n auto) []). Qed.

(* automatic IDs are the decimals 0, 1, 2, ... in Put order *)
Fixpoint n_seq (start : N) (len : nat) : list N :=
  match len with O => [] | S k => start :: n_seq (start + 1)%N k end.

Lemma fs_auto_ids ops : forall s c,
  fs_next s = Some c ->
  map e_id (fs_accepted s ops) = map format_uint (n_seq c (length (fs_accepted s ops))).
Proof.
  induction ops as [|op ops IH]; intros s c Hc; cbn [fs_accepted]; [reflexivity|].
  destruct op as [m_id tok topics|id topics script]; [|now apply IH].
  cbn [fs_step]. unfold fs_put, spec_put_id. rewrite Hc.
  destruct topics as [|t ts]; [now apply IH|]. destruct m_id as [i|]; [now apply IH|].
  cbn [fst map length n_seq]. f_equal. now apply IH.
Qed.

(* invalid puts are rejected and not stored *)
Lemma fs_put_rejected s m_id tok topics e :
  snd (fs_put s m_id tok topics) = PutErr e -> fst (fs_put s m_id tok topics) = s.
Proof.
  unfold fs_put. destruct (spec_put_id m_id (fs_next s) topics) as [e'|[id nx]]; cbn; [reflexivity|discriminate].
Qed.

Lemma fs_put_reject_iff s m_id tok topics :
  (exists e, snd (fs_put s m_id tok topics) = PutErr e) <->
  (topics = [] \/ (fs_next s = None /\ m_id = None) \/ (fs_next s <> None /\ m_id <> None)).
Proof.
  unfold fs_put, spec_put_id. destruct topics as [|t ts]; cbn.
  - split; [intros _; now left|intros _; eauto].
  - destruct (fs_next s) as [c|], m_id as [i|]; cbn; split; intro H;
      try (destruct H as [e H]; discriminate);
      try (eexists; reflexivity);
      try (right; right; split; discriminate);
      try (right; left; split; reflexivity);
      try (destruct H as [H|[[H1 H2]|[H1 H2]]]; congruence).
Qed.

(* ---- replay --------------------------------------------------------------- *)
Lemma spec_sends_calls es script c :
  In c (fst (spec_sends es script)) -> c = CFlush \/ exists e, In e es /\ c = CSend (e_tok e) (e_id e).
Proof.
  revert script; induction es as [|m r IH]; intros script; cbn [spec_sends].
  - destruct (next_verdict script). cbn. intros [<-|[]]. now left.
  - destruct (next_verdict script) as [v script']. destruct (v =? 0)%N.
    + destruct (spec_sends r script') as [calls res] eqn:E. cbn [fst]. intros [<-|H].
      * right. exists m. split; [now left|reflexivity].
      * specialize (IH script'). rewrite E in IH. destruct (IH H) as [->|(e & He & ->)]; [now left|].
        right. exists e. split; [now right|reflexivity].
    + cbn. intros [<-|[]]. right. exists m. split; [now left|reflexivity].
Qed.

(* with a writer that never fails: every kept entry is sent, in order, then one Flush *)
Lemma spec_sends_all_ok es :
  spec_sends es [] = (map (fun e => CSend (e_tok e) (e_id e)) es ++ [CFlush], 0%N).
Proof. induction es as [|m r IH]; cbn; [reflexivity|]. now rewrite IH. Qed.

(* the ID of a buffered, non-newest event whose ID is not carried by an earlier entry *)
Lemma find_pos_app pre e post :
  (forall x, In x pre -> e_id x <> e_id e) -> find_pos (pre ++ e :: post) (e_id e) = Some (length pre).
Proof.
  induction pre as [|x pre IH]; intros H; cbn.
  - now rewrite bytes_eqb_refl.
  - destruct (bytes_eqb (e_id x) (e_id e)) eqn:E.
    + apply bytes_eqb_eq in E. exfalso. apply (H x); [now left|assumption].
    + rewrite IH; [reflexivity|]. intros y Hy. apply H. now right.
Qed.

Lemma spec_replay_buffered pre e post keep auto script :
  (forall x, In x pre -> e_id x <> e_id e) -> post <> [] ->
  spec_replay (pre ++ e :: post) keep (Some (e_id e)) auto script = spec_sends (filter keep post) script.
Proof.
  intros Hpre Hpost. unfold spec_replay, spec_resume. rewrite find_pos_app by assumption.
  rewrite app_length. cbn [length].
  destruct (Nat.eqb_spec (S (length pre)) (length pre + S (length post))) as [E|E].
  - destruct post; [congruence|cbn in E; lia].
  - replace (S (length pre)) with (length pre + 1) by lia. rewrite <- skipn_skipn'.
    rewrite skipn_app, skipn_all, Nat.sub_diag. cbn. reflexivity.
Qed.

Lemma spec_replay_newest pre e keep auto script :
  (forall x, In x pre -> e_id x <> e_id e) ->
  spec_replay (pre ++ [e]) keep (Some (e_id e)) auto script = ([], 0%N).
Proof.
  intros Hpre. unfold spec_replay, spec_resume. rewrite find_pos_app by assumption.
  rewrite app_length. cbn [length]. replace (length pre + 1) with (S (length pre)) by lia.
  now rewrite Nat.eqb_refl.
Qed.

Lemma spec_replay_unset l keep auto script : spec_replay l keep None auto script = ([], 0%N).
Proof. reflexivity. Qed.

Lemma find_pos_none l v : (forall x, In x l -> e_id x <> v) -> find_pos l v = None.
Proof.
  induction l as [|x l IH]; intros H; cbn; [reflexivity|].
  destruct (bytes_eqb (e_id x) v) eqn:E.
  - apply bytes_eqb_eq in E. exfalso. apply (H x); [now left|assumption].
  - rewrite IH; [reflexivity|]. intros y Hy. apply H. now right.
Qed.

(* manual IDs: an ID carried by no buffered entry (never issued, or evicted) replays nothing *)
Lemma spec_replay_absent_manual l v keep script :
  (forall x, In x l -> e_id x <> v) -> spec_replay l keep (Some v) false script = ([], 0%N).
Proof. intros H. unfold spec_replay, spec_resume. now rewrite find_pos_none. Qed.

(* automatic IDs: an ID that is not an issued numeral, or a numeral not below the oldest buffered one, replays nothing *)
Lemma spec_replay_absent_auto l v keep script :
  (forall x, In x l -> e_id x <> v) ->
  (parse_issued v = None \/
   match l with h :: _ => exists n f, parse_issued v = Some n /\ parse_uint (e_id h) = Some f /\ (f <= n)%N | [] => True end) ->
  spec_replay l keep (Some v) true script = ([], 0%N).
Proof.
  intros H Hc. unfold spec_replay, spec_resume. rewrite find_pos_none by assumption.
  destruct Hc as [->|Hc]; [reflexivity|].
  destruct l as [|h t]; [now destruct (parse_issued v)|].
  destruct Hc as (n & f & -> & -> & Hle). destruct (N.ltb_spec n f); [lia|reflexivity].
Qed.

(* ---- ValidReplayer specification facts ------------------------------------ *)
From Coq Require Import Sorted.

Fixpoint vs_accepted (s : vspec) (ops : list vop) : list entry :=
  match ops with
  | [] => []
  | op :: rest =>
      match op with
      | VPut now m_id tok topics =>
          match topics, spec_put_id m_id (vs_next s) topics with
          | _ :: _, inr (id, _) => mke id topics tok (now + vs_ttl s) :: vs_accepted (fst (vs_step s op)) rest
          | _, _ => vs_accepted (fst (vs_step s op)) rest
          end
      | _ => vs_accepted (fst (vs_step s op)) rest
      end
  end.

(* a collection only ever removes entries whose expiry is not after now *)
Lemma collect_keeps_unexpired l now e : In e l -> (now < e_exp e)%Z -> In e (collect l now).
Proof.
  induction l as [|x l IH]; intros Hin Hexp; cbn; [exact Hin|].
  destruct (Z.ltb_spec now (e_exp x)); [exact Hin|].
  destruct Hin as [->|Hin]; [lia|]. now apply IH.
Qed.

Lemma collect_incl l now e : In e (collect l now) -> In e l.
Proof.
  induction l as [|x l IH]; cbn; [auto|]. destruct (now <? e_exp x)%Z; [auto|]. intros H. right. now apply IH.
Qed.

Lemma vs_ttl_step s op : vs_ttl (fst (vs_step s op)) = vs_ttl s.
Proof.
  destruct op as [now m_id tok topics|now id topics script|now|now g]; cbn; try reflexivity.
  unfold vs_put. destruct topics; [reflexivity|]. destruct (spec_put_id _ _ _) as [e|[id nx]]; reflexivity.
Qed.

(* one step keeps every stored entry that is unexpired at that step's instant *)
Lemma vs_step_keeps s op e :
  In e (vs_l s) -> (vop_now op < e_exp e)%Z -> In e (vs_l (fst (vs_step s op))).
Proof.
  intros Hin Hexp. destruct op as [now m_id tok topics|now id topics script|now|now g]; cbn in *.
  - unfold vs_put. destruct topics as [|t ts]; [exact Hin|].
    set (due := (_ && _)%bool).
    assert (H1 : In e (if due then collect (vs_l s) now else vs_l s)).
    { destruct due; [now apply collect_keeps_unexpired|exact Hin]. }
    destruct (spec_put_id m_id (vs_next s) (t :: ts)) as [er|[id nx]]; cbn [fst vs_l]; [exact H1|].
    apply in_or_app. now left.
  - exact Hin.
  - now apply collect_keeps_unexpired.
  - exact Hin.
Qed.

Lemma vs_step_stores s now m_id tok topics id nx :
  topics <> [] -> spec_put_id m_id (vs_next s) topics = inr (id, nx) ->
  In (mke id topics tok (now + vs_ttl s)) (vs_l (fst (vs_step s (VPut now m_id tok topics)))).
Proof.
  intros Ht E. cbn. unfold vs_put. destruct topics as [|t ts]; [congruence|]. rewrite E. cbn [fst vs_l].
  apply in_or_app. right. now left.
Qed.

(* an unexpired event is never dropped: whenever and however often collection runs *)
Lemma vs_unexpired_kept ops : forall s e,
  In e (vs_l s ++ vs_accepted s ops) ->
  Forall (fun op => (vop_now op < e_exp e)%Z) ops ->
  In e (vs_l (vs_after s ops)).
Proof.
  induction ops as [|op ops IH]; intros s e Hin Hall; cbn [vs_after vs_accepted] in *.
  - now rewrite app_nil_r in Hin.
  - inversion Hall as [|? ? Hop Hrest]; subst. apply IH; [|assumption].
    apply in_app_or in Hin. apply in_or_app. destruct Hin as [Hin|Hin].
    + left. now apply vs_step_keeps.
    + destruct op as [now m_id tok topics|now id topics script|now|now g]; try (now right).
      destruct topics as [|t ts]; [now right|].
      destruct (spec_put_id m_id (vs_next s) (t :: ts)) as [er|[id nx]] eqn:E; [now right|].
      destruct Hin as [<-|Hin]; [|now right].
      left. now apply (vs_step_stores s now m_id tok (t :: ts) id nx).
Qed.

Lemma in_skipn' {A} (x : A) k l : In x (skipn k l) -> In x l.
Proof. revert l; induction k as [|k IH]; intros [|y l] H; cbn in *; auto. Qed.

(* Replay never sends an event at or after its expiry, and only matching ones *)
Lemma vs_replay_never_stale s now id topics script c :
  In c (fst (vs_replay s now id topics script)) ->
  c = CFlush \/ exists e, In e (vs_l s) /\ c = CSend (e_tok e) (e_id e) /\ (now < e_exp e)%Z /\
                         topics_intersect topics (e_topics e) = true.
Proof.
  unfold vs_replay, spec_replay. destruct (spec_resume (vs_l s) id (is_some (vs_next s))) as [es|] eqn:E; [|intros []].
  intros H. apply spec_sends_calls in H as [->|(e & He & ->)]; [now left|]. right.
  apply filter_In in He as [He Hk]. apply andb_true_iff in Hk as [Hk1 Hk2]. apply Z.ltb_lt in Hk1.
  exists e. repeat split; auto.
  unfold spec_resume in E. destruct id as [v|]; [|discriminate].
  destruct (find_pos (vs_l s) v) as [p|].
  - destruct (S p =? length (vs_l s)); [discriminate|]. injection E as <-.
    change (In e (skipn (S p) (vs_l s))) in He. now apply in_skipn' in He.
  - destruct (is_some (vs_next s)); [|discriminate]. destruct (parse_issued v); [|discriminate].
    destruct (vs_l s) as [|h t]; [discriminate|]. destruct (parse_uint (e_id h)); [|discriminate].
    destruct (_ <? _)%N; [|discriminate]. injection E as <-. exact He.
Qed.

(* non-decreasing clock: expiry instants are sorted, so a collection removes every expired entry *)
Fixpoint clock_mono (t : Z) (ops : list vop) : Prop :=
  match ops with [] => True | op :: r => (t <= vop_now op)%Z /\ clock_mono (vop_now op) r end.

Definition exp_le (a b : entry) : Prop := (e_exp a <= e_exp b)%Z.
Definition sorted_upto (l : list entry) (b : Z) : Prop :=
  StronglySorted exp_le l /\ Forall (fun e => (e_exp e <= b)%Z) l.

Lemma collect_sorted_upto l now b : sorted_upto l b -> sorted_upto (collect l now) b.
Proof.
  intros [Hs Hb]. induction l as [|x l IH]; cbn; [split; assumption|].
  destruct (now <? e_exp x)%Z; [split; assumption|].
  inversion Hs; subst. inversion Hb; subst. now apply IH.
Qed.

Lemma collect_all_unexpired l now : StronglySorted exp_le l -> Forall (fun e => (now < e_exp e)%Z) (collect l now).
Proof.
  intros Hs. induction l as [|x l IH]; cbn; [constructor|].
  destruct (Z.ltb_spec now (e_exp x)).
  - inversion Hs as [|? ? Hl Hx]; subst. constructor; [assumption|].
    eapply Forall_impl; [|exact Hx]. unfold exp_le. intros a Ha. lia.
  - inversion Hs; subst. now apply IH.
Qed.

Lemma sorted_upto_app l b e :
  sorted_upto l b -> (b <= e_exp e)%Z -> sorted_upto (l ++ [e]) (e_exp e).
Proof.
  intros [Hs Hb] He. split.
  - induction l as [|x l IH]; cbn; [repeat constructor|].
    inversion Hs as [|? ? Hl Hx]; subst. inversion Hb as [|? ? Hxb Hlb]; subst. constructor; [now apply IH|].
    apply Forall_app. split; [assumption|]. constructor; [|constructor]. unfold exp_le. lia.
  - apply Forall_app. split; [|constructor; [lia|constructor]].
    eapply Forall_impl; [|exact Hb]. intros a Ha. cbn in Ha. lia.
Qed.

Lemma sorted_upto_weaken l b b' : sorted_upto l b -> (b <= b')%Z -> sorted_upto l b'.
Proof. intros [Hs Hb] H. split; [assumption|]. eapply Forall_impl; [|exact Hb]. intros a Ha. cbn in Ha. lia. Qed.

Lemma vs_step_sorted s op t :
  (0 <= vs_ttl s)%Z -> sorted_upto (vs_l s) (t + vs_ttl s) -> (t <= vop_now op)%Z ->
  sorted_upto (vs_l (fst (vs_step s op))) (vop_now op + vs_ttl s).
Proof.
  intros Httl Hs Ht. destruct op as [now m_id tok topics|now id topics script|now|now g]; cbn in *.
  - unfold vs_put. destruct topics as [|t0 ts]; [eapply sorted_upto_weaken; [exact Hs|lia]|].
    set (due := (_ && _)%bool).
    assert (H1 : sorted_upto (if due then collect (vs_l s) now else vs_l s) (t + vs_ttl s)).
    { destruct due; [now apply collect_sorted_upto|exact Hs]. }
    destruct (spec_put_id m_id (vs_next s) (t0 :: ts)) as [er|[id nx]]; cbn [fst vs_l].
    + eapply sorted_upto_weaken; [exact H1|lia].
    + apply (sorted_upto_app _ (t + vs_ttl s) (mke id (t0 :: ts) tok (now + vs_ttl s))); [exact H1|cbn; lia].
  - eapply sorted_upto_weaken; [exact Hs|lia].
  - eapply sorted_upto_weaken; [apply collect_sorted_upto; exact Hs|lia].
  - eapply sorted_upto_weaken; [exact Hs|lia].
Qed.

Lemma vs_sorted_after ops : forall s t,
  (0 <= vs_ttl s)%Z -> sorted_upto (vs_l s) (t + vs_ttl s) -> clock_mono t ops ->
  StronglySorted exp_le (vs_l (vs_after s ops)).
Proof.
  induction ops as [|op ops IH]; intros s t Httl Hs Hm; cbn [vs_after].
  - apply Hs.
  - destruct Hm as [Ht Hm]. apply (IH _ (vop_now op)); [now rewrite vs_ttl_step| |assumption].
    rewrite vs_ttl_step. now apply vs_step_sorted with (t := t).
Qed.
