(* What the interpreter makes of a response body that is CUT after any number of bytes
   (C05): exactly the events of the messages whose encodings lie wholly inside the received
   prefix; a partially received message never produces an event. *)
From GoSse Require Import Base Lines Fields Queue FieldParser Message MessageProofs MessageApi Whatwg TextLines WireDecode.
Local Open Scope nat_scope.

Definition no_event (ys : list yield) : Prop := events_of ys = [].

Lemma no_event_app a b : no_event (a ++ b) <-> no_event a /\ no_event b.
Proof.
  unfold no_event. rewrite events_of_app. split.
  - intros H. apply app_eq_nil in H. exact H.
  - intros [-> ->]. reflexivity.
Qed.

(* fields other than the end-of-event field never dispatch *)
Lemma field_effect_no_event md st f : pf_name f <> FEnd -> no_event (snd (field_effect md st f)).
Proof.
  intros Hn. unfold field_effect. destruct (pf_name f); try congruence; try reflexivity;
    unfold process_field;
    repeat match goal with
           | |- context [if ?c then _ else _] => destruct c
           | |- context [match retry_value ?a ?b with _ => _ end] => destruct (retry_value a b)
           end; reflexivity.
Qed.

Lemma run_pfields_no_event md : forall fs st,
  Forall (fun f => pf_name f <> FEnd) fs -> no_event (snd (run_pfields md st fs)).
Proof.
  induction fs as [|f fs IH]; intros st Hall; cbn [run_pfields]; [reflexivity|].
  inversion Hall as [|? ? Hf Hrest]; subst.
  pose proof (field_effect_no_event md st f Hf) as H1.
  destruct (field_effect md st f) as [st1 y1]. specialize (IH st1 Hrest).
  destruct (run_pfields md st1 fs) as [st2 y2]. cbn [snd] in *. apply no_event_app. auto.
Qed.

(* everything of a wire form but its last byte (the terminating LF) produces no event *)
Lemma wire_body_no_event md m w st :
  msg_wf m -> wire m = Some w -> w <> [] -> clean st ->
  exists body, w = body ++ [LF] /\ no_event (snd (feed_all md st body)).
Proof.
  intros Hwf Hw Hne Hc. unfold wire, write_calls in Hw.
  destruct (body_calls m) as [calls|] eqn:Eb; [|discriminate].
  pose proof (body_calls_lines m calls Eb) as Hl.
  destruct (Nat.eqb_spec (length (concat calls)) 0) as [Hz|Hnz]; injection Hw as <-; [congruence|].
  exists (concat calls). split.
  - rewrite concat_app. reflexivity.
  - rewrite Hl. pose proof (msg_lines_ok m Hwf) as Hok.
    rewrite (feed_msg_lines md m (msg_lines m) st); auto.
    + apply run_pfields_no_event. rewrite Forall_map. eapply Forall_impl; [|exact Hok]. intros p (_ & _ & H). exact H.
    + eapply Forall_impl; [|exact Hok]. intros p (H & _). exact H.
Qed.

(* prefixes *)
Definition is_pre {A} (p s : list A) : Prop := exists r, s = p ++ r.

Lemma feed_all_pre_yields md st p s :
  is_pre p s -> is_pre (snd (feed_all md st p)) (snd (feed_all md st s)).
Proof.
  intros [r ->]. rewrite feed_all_app. destruct (feed_all md st p) as [st1 y1].
  destruct (feed_all md st1 r) as [st2 y2]. cbn [snd]. now exists y2.
Qed.

Lemma no_event_pre a b : is_pre a b -> no_event b -> no_event a.
Proof. intros [r ->] H. apply no_event_app in H. tauto. Qed.

(* a PROPER prefix of a wire form produces no event *)
Lemma proper_prefix_no_event md m w st p :
  msg_wf m -> wire m = Some w -> clean st -> is_pre p w -> p <> w ->
  no_event (snd (feed_all md st p)).
Proof.
  intros Hwf Hw Hc [r Hr] Hneq.
  destruct w as [|b w']; [destruct p; [congruence|discriminate]|].
  destruct (wire_body_no_event md m (b :: w') st Hwf Hw ltac:(discriminate) Hc) as (body & Hb & Hno).
  assert (Hp : is_pre p body).
  { rewrite Hb in Hr. destruct r as [|x r'] using rev_ind.
    - rewrite List.app_nil_r in Hr. congruence.
    - rewrite app_assoc in Hr. apply app_inj_tail in Hr as [Hr _]. now exists r'. }
  eapply no_event_pre; [apply feed_all_pre_yields; exact Hp|exact Hno].
Qed.

(* cutting a concatenation: whole items, then a proper prefix of the next one *)
Lemma firstn_concat_split {A} (ws : list (list A)) : forall c,
  exists k p, firstn c (concat ws) = concat (firstn k ws) ++ p /\
              ((k = length ws /\ p = []) \/ (k < length ws /\ is_pre p (nth k ws []) /\ p <> nth k ws [])).
Proof.
  induction ws as [|w ws IH]; intros c.
  - exists 0, []. cbn. rewrite firstn_nil. split; [reflexivity|]. left. auto.
  - cbn [concat]. rewrite firstn_app.
    destruct (Nat.lt_ge_cases c (length w)) as [Hlt|Hge].
    + exists 0, (firstn c w). replace (c - length w) with 0 by lia. cbn [firstn concat app].
      rewrite List.app_nil_r. split; [reflexivity|]. right. cbn [length nth]. split; [lia|]. split.
      * exists (skipn c w). now rewrite firstn_skipn.
      * intros H. apply (f_equal (@length A)) in H. rewrite firstn_length in H. lia.
    + rewrite firstn_all2 by lia. destruct (IH (c - length w)) as (k & p & Hf & Hk).
      exists (S k), p. cbn [firstn concat length nth]. rewrite Hf, app_assoc. split; [reflexivity|].
      destruct Hk as [[-> ->]|(H1 & H2 & H3)]; [left; auto|right; repeat split; auto; lia].
Qed.

Lemma Forall2_firstn {A B} (R : A -> B -> Prop) k : forall l1 l2, Forall2 R l1 l2 -> Forall2 R (firstn k l1) (firstn k l2).
Proof.
  induction k as [|k IH]; intros l1 l2 H; cbn [firstn]; [constructor|].
  destruct H; constructor; auto.
Qed.

Lemma Forall2_nth {A B} (R : A -> B -> Prop) l1 l2 k da db :
  Forall2 R l1 l2 -> k < length l2 -> R (nth k l1 da) (nth k l2 db).
Proof.
  intros H. revert k. induction H as [|a b l1 l2 Hab H IH]; intros k Hk; cbn [length] in Hk; [lia|].
  destruct k; cbn [nth]; [assumption|]. apply IH. lia.
Qed.

Lemma Forall_firstn {A} (P : A -> Prop) k l : Forall P l -> Forall P (firstn k l).
Proof. revert l; induction k as [|k IH]; intros l H; cbn [firstn]; [constructor|]. destruct H; constructor; auto. Qed.

Lemma Forall_nth_default {A} (P : A -> Prop) l k d : Forall P l -> k < length l -> P (nth k l d).
Proof. intros H Hk. rewrite Forall_forall in H. apply H, nth_In, Hk. Qed.

Lemma interp_proj md last s e :
  interp md last s e = snd (feed_all md (w_init last) (strip_bom s)) ++ finish md (fst (feed_all md (w_init last) (strip_bom s))) e.
Proof. unfold interp. destruct (feed_all md (w_init last) (strip_bom s)). reflexivity. Qed.
Lemma feed_all_app_proj md st a b :
  feed_all md st (a ++ b) = (fst (feed_all md (fst (feed_all md st a)) b),
                             snd (feed_all md st a) ++ snd (feed_all md (fst (feed_all md st a)) b)).
Proof. rewrite feed_all_app. destruct (feed_all md st a) as [s1 y1]. cbn [fst snd]. destruct (feed_all md s1 b). reflexivity. Qed.

(* THE CUT: the first c bytes of the concatenated wire forms, then a transport error.
   The received prefix consists of the first k encodings in full and a proper prefix of the next
   one (or of nothing more); exactly the first k messages are interpreted. *)
Theorem prefix_decode md ms ws last c e :
  Forall msg_ok ms -> Forall2 (fun m w => wire m = Some w) ms ws ->
  exists k p,
    firstn c (concat ws) = concat (firstn k ws) ++ p /\
    ((k = length ws /\ p = []) \/ (k < length ws /\ is_pre p (nth k ws []) /\ p <> nth k ws [])) /\
    interp md last (firstn c (concat ws)) (ReadError e)
      = all_yields md last (firstn k ms)
        ++ snd (feed_all md (cst (fold_left msg_last (firstn k ms) last)) p) ++ [YErr e] /\
    no_event (snd (feed_all md (cst (fold_left msg_last (firstn k ms) last)) p)) /\
    events_of (interp md last (firstn c (concat ws)) (ReadError e)) = expected_events md last (firstn k ms).
Proof.
  intros Hok Hw.
  assert (Hlen : length ms = length ws) by (clear - Hw; induction Hw; cbn; congruence).
  destruct (firstn_concat_split ws c) as (k & p & Hf & Hk).
  exists k, p. split; [exact Hf|]. split; [exact Hk|].
  pose proof (Forall2_firstn _ k ms ws Hw) as Hwk. pose proof (Forall_firstn _ k ms Hok) as Hokk.
  assert (Hno : no_event (snd (feed_all md (cst (fold_left msg_last (firstn k ms) last)) p))).
  { destruct Hk as [[_ ->]|(H1 & H2 & H3)]; [reflexivity|].
    pose proof (Forall2_nth _ ms ws k msg_empty [] Hw H1) as Hwire. cbn beta in Hwire.
    assert (Hkms : k < length ms) by (rewrite Hlen; exact H1).
    pose proof (Forall_nth_default _ ms k msg_empty Hok Hkms) as [Hwf _].
    apply (proper_prefix_no_event md (nth k ms msg_empty) (nth k ws []) _ p Hwf Hwire); auto. split; reflexivity. }
  assert (Hint : interp md last (firstn c (concat ws)) (ReadError e)
      = all_yields md last (firstn k ms)
        ++ snd (feed_all md (cst (fold_left msg_last (firstn k ms) last)) p) ++ [YErr e]).
  { rewrite interp_proj, strip_bom_id.
    2:{ pose proof (concat_no_bom ms ws Hw) as Hnb. destruct (concat ws) as [|a r]; [now rewrite firstn_nil|].
        destruct c; [exact I|]. exact Hnb. }
    rewrite Hf, feed_all_app_proj. change (w_init last) with (cst last).
    pose proof (feed_wires md (firstn k ms) (firstn k ws) last Hokk Hwk) as Hfw. unfold bytes in *.
    rewrite Hfw. cbn [fst snd finish].
    now rewrite <- app_assoc. }
  split; [exact Hint|]. split; [exact Hno|].
  rewrite Hint, !events_of_app, events_of_all_yields. unfold no_event in Hno. rewrite Hno. cbn. now rewrite List.app_nil_r.
Qed.
