(* val-level entry points of family "e2e" (C05): the library's client against the library's
   server over connections cut by the scenario.  The observed per-attempt trace is part of the
   input line (see harness/cmd/impl-run/e2e.go); [run_e2e] checks that the trace is one the model
   of EndToEnd.v allows (every attempt: header = the model's Last-Event-ID, body = a prefix of what
   the model's replayer + encoder send after that ID, dispatched events = the specification
   interpreter on the bytes actually read); [holds_e2e] is the property itself on the outcome. *)
From GoSse Require Import Base Lines Fields Queue FieldParser Message MessageApi Whatwg WhatwgLines TextLines WireDecode PrefixDecode EndToEnd Run.
Local Open Scope N_scope.

Definition dec_pub (p : val) : msg :=
  api_build ([OpSetID (as_b (nth_val 0 p))]
             ++ (match as_b (nth_val 1 p) with [] => [] | t => [OpSetType t] end)
             ++ [OpAppend false (map as_b (as_l (nth_val 2 p)))]).

Definition enc_events (evs : list event) : val := VL (map enc_event evs).

Fixpoint is_prefix_of_some_suffix (b : bytes) (order : list msg) : bool :=
  FieldParser.is_prefix b (concat (map wire' order)) ||
  match order with [] => false | _ :: r => is_prefix_of_some_suffix b r end.

(* attempts: returns the index+reason of the first attempt the model does not allow *)
Fixpoint check_attempts (order : list msg) (last : bytes) (idx : N) (atts : list val) : val :=
  match atts with
  | [] => VN 1
  | a :: rest =>
      let hdr := as_opt as_b (nth_val 0 a) in
      let no_resp := as_bool (nth_val 1 a) in
      let body := as_b (nth_val 2 a) in
      let end_err := as_bool (nth_val 3 a) in
      let evs := nth_val 4 a in
      let expect_hdr := match last with [] => None | _ => Some last end in
      if negb (val_eqb (vopt VB hdr) (vopt VB expect_hdr)) then VL [VN idx; VN 1]      (* wrong Last-Event-ID *)
      else if no_resp then
        (if val_eqb evs (VL []) then check_attempts order last (idx + 1) rest else VL [VN idx; VN 2])
      else
        (* interp_lines = interp (WhatwgLines.interp_lines_eq), linear in the length of a line *)
        let ys := interp_lines gosse_conn last body (if end_err then ReadError (EReader 0) else CleanEOF) in
        let mine := events_of ys in
        if negb (val_eqb evs (enc_events mine)) then VL [VN idx; VN 3]                 (* dispatched <> specification *)
        else if negb (match hdr with
                      | Some h => FieldParser.is_prefix body (concat (map wire' (resume order h)))
                      | None => is_prefix_of_some_suffix body order
                      end) then VL [VN idx; VN 4]                                       (* body <> what the model sends *)
        else check_attempts order (last_of mine last) (idx + 1) rest
  end.

Definition run_e2e (i : val) : val :=
  check_attempts (map dec_pub (as_l (nth_val 2 i))) [] 0 (as_l (nth_val 3 i)).

(* ---- the property on the outcome: from the first event it received on, the client got exactly
   the published sequence - each event once, in order, with the published ID, type and data -
   caught up in time, and the server was still alive to shut down cleanly *)
Definition spec_event (p : val) : val :=
  VL [VB (as_b (nth_val 0 p)); VB (as_b (nth_val 1 p));
      VB (join_lf (flat_map text_lines_fast (map as_b (as_l (nth_val 2 p)))))].

Fixpoint drop_until_id (id : bytes) (pubs : list val) : list val :=
  match pubs with
  | [] => []
  | p :: r => if bytes_eqb (as_b (nth_val 0 p)) id then pubs else drop_until_id id r
  end.

Definition holds_e2e (i o : val) : bool :=
  let pubs := as_l (nth_val 2 i) in
  let received := flat_map (fun a => as_l (nth_val 4 a)) (as_l (nth_val 3 i)) in
  let flags := nth_val 4 i in
  as_bool (nth_val 0 flags) && as_bool (nth_val 1 flags) &&
  match received with
  | [] => false
  | e :: _ => val_eqb (VL received) (VL (map spec_event (drop_until_id (as_b (nth_val 0 e)) pubs)))
  end.
