(* C07 - Shutdown terminates everything; no provider call blocks forever.
   Statements only; proofs in theories/{JoeLive,JoeTerm}.v (on top of the C06 invariant).
   All theorems are about the LTS JoeLts.step and quantify over all label sequences from [init]
   (any number of calls, every interleaving, every verdict).  [internal] labels are the system's
   own steps: everything except starting a call, cancelling a context, and the calls a Replay
   makes on the new subscriber's writer (user code; the proviso "Send/Flush - and Replay - return"
   is the assumption that the environment supplies verdicts). *)
From GoSse Require Import Base JoeLts JoeLocal JoeProj JoePub JoeInv JoeSafety JoeLive JoeTerm.
Local Open Scope nat_scope.

(* after j.done is closed, as long as the loop has not exited or any Subscribe/Publish/Shutdown
   call has not returned, some internal step is enabled: nothing waits for anything but itself *)
Theorem C07_progress :
  forall ls s,
  run init ls = Some s -> done_closed s = true -> unfinished s ->
  exists l, internal l = true /\ step s l <> None.
Proof. exact progress_run. Qed.

(* every sequence of internal steps is finite (from ANY state in which the calls ever started are
   among 0..n-1): a lexicographic measure - pending work of the calls, then of the loop's current
   iteration - decreases at each internal step.  With C07_progress: every maximal execution after
   Shutdown was called ends in a state that is not [unfinished]: all Subscribe, Publish and
   Shutdown calls returned, the loop exited. *)
Theorem C07_terminates : forall n, well_founded (istep n).
Proof. exact internal_terminates. Qed.

(* ... namely: where no internal step is enabled any more after j.done was closed, the loop has
   exited and every Subscribe, Publish and Shutdown call has returned *)
Theorem C07_maximal_execution_finished :
  forall ls s,
  run init ls = Some s -> done_closed s = true ->
  (forall l, internal l = true -> step s l = None) ->
  pc s = Exited /\ (forall i, sub_pending (s_pc (sub s i)) = false)
  /\ (forall p, pub_pending (p_pc (pub s p)) = false) /\ (forall h, shut_pending (h_pc (shut s h)) = false).
Proof. exact maximal_finished_run. Qed.

Theorem C07_measure_decreases :
  forall n s l s', bounded n s -> internal l = true -> step s l = Some s' -> lex_lt (mu n s') (mu n s).
Proof. exact measure_step. Qed.

Theorem C07_reachable_bounded : forall ls s, run init ls = Some s -> exists n, bounded n s.
Proof. exact bounded_run. Qed.

(* Shutdown returns nil only once j.closed is closed: the loop has exited and has released every
   subscriber *)
Theorem C07_shutdown_nil :
  forall ls s h,
  run init ls = Some s -> h_pc (shut s h) = HRet None ->
  closed_closed s = true /\ pc s = Exited /\ forall j, registered s j = false.
Proof. exact shutdown_nil_run. Qed.

(* any other result is its context's error (and its context was cancelled) or ErrProviderClosed
   (and somebody had closed j.done) - never a panic (C06_no_panic) *)
Theorem C07_shutdown_err :
  forall ls s h e,
  run init ls = Some s -> h_pc (shut s h) = HRet (Some e) ->
  (e = E_CTX /\ h_ctx (shut s h) = true) \/ (e = E_CLOSED /\ done_closed s = true).
Proof. exact shutdown_err_run. Qed.

(* exactly one caller's close(j.done) succeeds (the one that waits / returns nil or its context's
   error); repeated and concurrent callers get ErrProviderClosed *)
Theorem C07_one_closer :
  forall ls s h h',
  run init ls = Some s -> closer (shut s h) = true -> closer (shut s h') = true ->
  h = h' /\ done_closed s = true.
Proof. exact one_closer_run. Qed.

Theorem C07_closer_exists :
  forall ls s, run init ls = Some s -> done_closed s = true -> exists h, closer (shut s h) = true.
Proof. exact closer_exists_run. Qed.

(* j.done stays closed *)
Theorem C07_done_closed_stable :
  forall ls s s', run s ls = Some s' -> done_closed s = true -> done_closed s' = true.
Proof. exact done_closed_run. Qed.

(* no deadlock: from every reachable state a new Shutdown call can enter and close j.done (or find
   it closed); from there C07_progress and C07_terminates apply *)
Theorem C07_no_deadlock :
  forall ls s h,
  run init ls = Some s -> h_pc (shut s h) = H0 ->
  exists s', run s [ShutEnter h; ShutClose h] = Some s' /\ done_closed s' = true.
Proof. exact shutdown_possible_run. Qed.

(* non-vacuity: a run in which Shutdown races a pending Publish and a registered subscriber ends
   with everything returned and the loop exited *)
Definition shutdown_schedule : list label :=
  [LIdle; SubEnter 0 [0]; SubSend 0; LReplay 0; LReplayed 0 VOk; LReg 0; LIdle;
   PubEnter 0 [0]; ShutEnter 0; ShutEnter 1; ShutClose 1; ShutClose 0;
   PubSend 0; LPut 0 VOk; LPutRes 0; LErrs 0; LSend 0 VOk; LFlush 0 VOk; LIdle; PubRecv 0;
   LDone; LRemove 0; LExit; SubDone 0; ShutDone 1].

Example C07_example_shutdown_race :
  match run init shutdown_schedule with
  | Some s => pc s = Exited /\ s_pc (sub s 0) = SRet None /\ p_pc (pub s 0) = PRet None
              /\ h_pc (shut s 0) = HRet (Some E_CLOSED) /\ h_pc (shut s 1) = HRet None
              /\ wlog s 0 = [WSend 0 true; WFlush true]
  | None => False
  end.
Proof. vm_compute. repeat split. Qed.

Example C07_example_measure :
  match run init (firstn 12 shutdown_schedule) with
  | Some s => mu 2 s = (6, 3)
  | None => False
  end.
Proof. vm_compute. reflexivity. Qed.
