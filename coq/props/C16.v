(* C16 - Session and Server keep the HTTP side of the protocol.
   Only statements closed by [exact]; model: theories/Session.v (session.go, server.go:131-222),
   proofs: theories/SessionProofs.v, SessionOps.v, SessionTheorems.v.

   Vocabulary.  The http.ResponseWriter is the environment: a [script] of verdicts, one per
   Write or Flush call of the writer in call order ([WOk], or [WFail k e]: a Write accepts k
   bytes and fails with error e / a Flush fails with error e; [script_ok]: errors are not
   nil), and the log of the calls made on it ([LHeaderSet name value], [LWrite bytes verdict],
   [LFlush outcome], [LWriteHeader code]).  [run_calls (fresh reports script) calls] runs a
   sequence of Send/Flush calls on a fresh Session ([reports]: the writer was reached through
   FlushError, so flush errors come back) and yields, per call, the value it returned (0 = nil)
   and the writer calls it made; [full_log] concatenates them.  All theorems are for every
   call sequence, every message and every script.  net/http itself is not modelled. *)
From GoSse Require Import Base Lines Fields Message MessageProofs Session SessionProofs SessionOps SessionTheorems SessionOracle.
From GoSse.Gen Require Import Params.
Local Open Scope nat_scope.

(* The whole log obeys the upgrade protocol (automaton [urun], Session.v): no Write before
   "Content-Type: text/event-stream" has been set and then flushed successfully, and no header
   is set once that has happened. *)
Theorem C16_upgrade_first_once :
  forall reports script calls rs sf ok,
    script_ok script -> run_calls (fresh reports script) calls = (rs, sf, ok) ->
    exists st, urun UNone (full_log rs) = Some st.
Proof. exact upgrade_protocol. Qed.

(* ... spelled out: every Write is preceded by the header set and, after it, a successful Flush *)
Theorem C16_upgrade_before_every_write :
  forall reports script calls rs sf ok pre b v post,
    script_ok script -> run_calls (fresh reports script) calls = (rs, sf, ok) ->
    full_log rs = pre ++ LWrite b v :: post ->
    exists p1 p2 p3, pre = p1 ++ LHeaderSet header_content_type content_type_value :: p2 ++ LFlush 0 :: p3.
Proof. exact write_after_upgrade. Qed.

(* ... and only once: after the successful upgrade flush no header is ever set again *)
Theorem C16_upgrade_once :
  forall reports script calls rs sf ok pre post,
    script_ok script -> run_calls (fresh reports script) calls = (rs, sf, ok) ->
    full_log rs = pre ++ LHeaderSet header_content_type content_type_value :: LFlush 0 :: post ->
    Forall (fun c => is_header_set c = false) post.
Proof. exact no_header_after_upgrade. Qed.

(* Per call: the bytes the writer accepted during a Send are the message's encoding [wire m]
   when it returned nil, and a prefix of it otherwise; a Flush writes nothing. *)
Theorem C16_body :
  forall reports script calls rs sf ok i e seg c,
    script_ok script -> run_calls (fresh reports script) calls = (rs, sf, ok) ->
    nth_error rs i = Some (e, seg) -> nth_error calls i = Some c ->
    match c with
    | CSend m => forall w, wire m = Some w ->
                           (exists rest, w = accepted seg ++ rest) /\ (e = 0%N -> accepted seg = w)
    | CFlush => accepted seg = []
    end.
Proof. exact body_per_call. Qed.

(* Hence up to the first failing call the body is exactly the concatenation of the encodings
   of the messages sent, in call order. *)
Theorem C16_body_concat :
  forall reports script calls rs sf ok,
    script_ok script -> run_calls (fresh reports script) calls = (rs, sf, ok) ->
    forall n, n <= length rs ->
              (forall j e seg, j < n -> nth_error rs j = Some (e, seg) -> e = 0%N) ->
              accepted (full_log (firstn n rs)) = concat (map call_wire (firstn n calls)).
Proof. exact body_concat. Qed.

(* A Flush call that returned nil leaves, in the log up to and including it, a successful
   writer flush with no Write after it (the upgrade flush itself when nothing was written). *)
Theorem C16_flush :
  forall reports script calls rs sf ok i seg,
    script_ok script -> run_calls (fresh reports script) calls = (rs, sf, ok) ->
    nth_error rs i = Some (0%N, seg) -> nth_error calls i = Some CFlush ->
    exists pre post, full_log (firstn (S i) rs) = pre ++ LFlush 0 :: post /\
                     forallb (fun c => negb (is_write c)) post = true.
Proof. exact flush_pushes_explicit. Qed.

(* Every call returns the first error the writer answered during it, nil if there was none. *)
Theorem C16_first_error :
  forall reports script calls rs sf ok i e seg,
    script_ok script -> run_calls (fresh reports script) calls = (rs, sf, ok) ->
    nth_error rs i = Some (e, seg) -> e = first_error seg.
Proof. exact first_error_returned. Qed.

(* ... and the errors the writer answers are the script's, in order: the k-th Write/Flush of the
   whole log got the k-th verdict ([plays], Session.v; a missing verdict = success; a writer
   reached through plain Flush() cannot report).  With C16_first_error: a call returns the first
   failing verdict it reaches. *)
Theorem C16_first_error_is_the_scripts :
  forall reports script calls rs sf ok,
    script_ok script -> run_calls (fresh reports script) calls = (rs, sf, ok) ->
    plays reports (full_log rs) script = true.
Proof. exact script_played_in_order. Qed.

(* The direct oracle the harness applies to OBSERVED logs ([session_ok], Session.v: upgrade
   automaton, per-call body/flush/error clauses) accepts everything the model does: an oracle
   alarm can only come with a model/implementation mismatch. *)
Theorem C16_oracle_accepts_model :
  forall reports script calls rs sf,
    script_ok script -> Forall has_wire calls ->
    run_calls (fresh reports script) calls = (rs, sf, true) ->
    session_ok calls rs = true.
Proof. exact session_oracle_sound. Qed.

(* ServeHTTP, for every writer shape, header, OnSession result, provider behaviour and script. *)
Theorem C16_serve :
  forall w h ons prov perr script,
    let r := serve_http w h ons prov perr script in
    (can_flush w = false ->
     sv_sub r = None /\ sv_results r = [] /\ sv_user r = [] /\ In (LWriteHeader 500) (sv_server r)) /\
    (can_flush w = true ->
     (request_accepted ons = false -> sv_sub r = None /\ sv_results r = [] /\ sv_server r = []) /\
     (request_accepted ons = true ->
      sv_sub r = Some (expected_topics ons, expected_lei h) /\
      (forall msg, perr = Some msg -> sv_ok r = true -> In (LWriteHeader 500) (sv_server r)) /\
      (perr = None -> sv_server r = []))).
Proof. exact serve_spec. Qed.

(* the provider's client is a fresh Session on the request's writer: C16_upgrade_first_once ...
   C16_first_error apply to the calls the provider makes *)
Theorem C16_serve_session :
  forall w h ons prov perr script k,
    get_response_writer w = Some k -> request_accepted ons = true ->
    let r := serve_http w h ons prov perr script in
    exists sf, run_calls (fresh (match k with RWFlushError => true | RWFlusher => false end) script) prov
               = (sv_results r, sf, sv_ok r).
Proof. exact serve_session. Qed.

(* getResponseWriter finds a flushing writer iff there is one in the Unwrap chain ... *)
Theorem C16_response_writer_found :
  forall w, get_response_writer w = None <-> can_flush w = false.
Proof. exact get_response_writer_can_flush. Qed.

(* ... namely the outermost layer of the chain that has any flush method, and flush errors come
   back exactly when that layer has FlushError (even if it also has a plain Flush) *)
Theorem C16_response_writer_order :
  forall w,
    get_response_writer w =
    match find (fun l : bool * bool => fst l || snd l) (chain w) with
    | Some (true, _) => Some RWFlushError
    | Some (false, _) => Some RWFlusher
    | None => None
    end.
Proof. exact get_response_writer_chain. Qed.

(* the constants re-read from session.go are the ones of the property text *)
Example C16_header_is_content_type_event_stream :
  header_content_type = [67; 111; 110; 116; 101; 110; 116; 45; 84; 121; 112; 101]%N /\
  content_type_value = [116; 101; 120; 116; 47; 101; 118; 101; 110; 116; 45; 115; 116; 114; 101; 97; 109]%N.
Proof. vm_compute. split; reflexivity. Qed.

(* non-vacuity: the first flush fails, the next Send upgrades again and only then writes *)
Example C16_witness_failed_upgrade :
  let m := append_text msg_empty false [[97]%N] in
  fst (fst (run_calls (fresh true [WFail 0 7%N]) [CSend m; CSend m; CFlush]))
  = [(7%N, [LHeaderSet header_content_type content_type_value; LFlush 7]);
     (0%N, [LHeaderSet header_content_type content_type_value; LFlush 0;
            LWrite field_bytes_data WOk; LWrite [97]%N WOk; LWrite newline_bytes WOk; LWrite newline_bytes WOk]);
     (0%N, [LFlush 0])].
Proof. vm_compute. reflexivity. Qed.

Example C16_witness_serve_500 :
  sv_server (serve_http (Shape false false (Some (Shape false false None))) [] None [] None [])
  = [LHeaderSet header_content_type http_error_content_type; LWriteHeader 500;
     LWrite (serve_unsupported_message ++ [LF]) WOk].
Proof. vm_compute. reflexivity. Qed.
