(* C16 - placeholder while the theorems are being written *)
From GoSse Require Import Base Session.
