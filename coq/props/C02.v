(* C02 - Encoded messages decode to exactly what was appended (no injection).
   Statements only; proofs in theories/{WireDecode,TextLines,MessageApi,MessageProofs}.v.
   [interp md last stream CleanEOF] is the WHATWG interpretation algorithm of Whatwg.v
   (md = strict: the standard itself; gosse_read / gosse_conn: go-sse's documented adaptations),
   [wire m] the encoding of a message, [text_lines s] the lines of a string where every CR, LF
   or CR LF is one line break. *)
From GoSse Require Import Base Lines Fields FieldParser Message MessageProofs MessageApi Whatwg TextLines WireDecode.

(* AppendData / AppendComment store exactly the lines of the appended strings, in call order,
   and every stored line is a single line (no CR, no LF) *)
Theorem C02_append_stores_lines :
  forall m is_comment strs,
  m_chunks (append_text m is_comment strs)
  = m_chunks m ++ flat_map (fun s => map (fun x => mkc x is_comment) (text_lines s)) strs.
Proof. exact append_text_lines. Qed.

Theorem C02_lines_are_single : forall s, Forall no_nl (text_lines s).
Proof. exact text_lines_single. Qed.

(* the data lines of a message = the lines of the strings given to AppendData, in order;
   comments contribute nothing *)
Theorem C02_data_lines :
  forall m is_comment strs,
  msg_datas (append_text m is_comment strs) = msg_datas m ++ (if is_comment then [] else flat_map text_lines strs).
Proof. exact msg_datas_append. Qed.

(* Messages built through the public API whose ID has no NUL are "ok" *)
Theorem C02_api_messages_ok :
  forall ops, (forall v, m_id (api_build ops) = Some v -> has_nul v = false) -> msg_ok (api_build ops).
Proof. exact api_build_ok. Qed.

(* MAIN: for every sequence of ok messages, the concatenation of their wire forms is interpreted -
   by the standard's algorithm and by each go-sse adaptation of it - as exactly [expected_events]:
   per message, in order, at most one event, with nothing of one message reaching a neighbour *)
Theorem C02_decodes_to_expected :
  forall md ms ws last,
  Forall msg_ok ms -> Forall2 (fun m w => wire m = Some w) ms ws ->
  events_of (interp md last (concat ws) CleanEOF) = expected_events md last ms.
Proof. exact wires_decode. Qed.

(* ... and the interpreter reports nothing else: besides the events only the retry values of the
   messages that carry one and, in connection mode, the final io.EOF *)
Theorem C02_nothing_else :
  forall md ms ws last,
  Forall msg_ok ms -> Forall2 (fun m w => wire m = Some w) ms ws ->
  interp md last (concat ws) CleanEOF =
  all_yields md last ms ++ (if md_flush_at_eof md && md_eof_is_error md then [YErr EEOF] else []).
Proof. exact wires_decode_yields. Qed.

(* what [expected_events] is, spelled out.  Under the standard: one event exactly for the messages
   that have data ... *)
Theorem C02_strict_one_event_per_message_with_data :
  forall m, msg_dispatches strict m = nonempty (msg_datas m).
Proof. exact strict_dispatches. Qed.

(* ... whose Data is the LF-join of the data lines, Type the type set (the standard's default
   otherwise), ID the most recently set ID *)
Theorem C02_event_data_is_join : forall md last m, ev_data (msg_event md last m) = join_lf (msg_datas m).
Proof. exact msg_event_data. Qed.
Theorem C02_event_type_and_id :
  forall md last m,
  ev_type (msg_event md last m) = (match value (m_type m) with [] => md_default_type md | t => t end) /\
  ev_id (msg_event md last m) = (match m_id m with Some v => v | None => last end).
Proof. intros; split; reflexivity. Qed.

(* D9 (known finding): an ID containing NUL is accepted by NewID but ignored by every conforming
   decoder, so the event carries the previous ID: the statement above is false without the NUL guard *)
Definition c02_nul_msgs : list msg :=
  [api_build [OpSetID [112]; OpAppend false [[120]]]; api_build [OpSetID [97; 0; 98]; OpAppend false [[121]]]].
Example C02_refuted_nul_id :
  match map wire c02_nul_msgs with
  | [Some w1; Some w2] =>
      map ev_id (events_of (interp strict [] (w1 ++ w2) CleanEOF)) = [[112]; [112]] /\
      map ev_id (expected_events strict [] c02_nul_msgs) = [[112]; [97; 0; 98]]
  | _ => False
  end.
Proof. vm_compute. split; reflexivity. Qed.

(* non-vacuity: payloads crafted to look like protocol syntax stay inside their event *)
Definition c02_sample : list msg :=
  [api_build [OpSetID [49]; OpAppend false [[105; 100; 58; 32; 120; 10; 10; 100; 97; 116; 97; 58; 32; 121]]; OpAppend true [[10; 100; 97; 116; 97; 58; 122]]];
   api_build [OpSetType [116]; OpSetRetry 5000000%Z; OpAppend false [[13; 10; 13]]]].
Example C02_sample_decodes :
  match map wire c02_sample with
  | [Some w1; Some w2] =>
      events_of (interp strict [] (w1 ++ w2) CleanEOF) =
      [mkev [49] s_message [105; 100; 58; 32; 120; 10; 10; 100; 97; 116; 97; 58; 32; 121];
       mkev [49] [116] [10]]
  | _ => False
  end.
Proof. vm_compute. reflexivity. Qed.
