(* C08 - FiniteReplayer behaves as a bounded FIFO of the last N events.
   Statements only; proofs in theories/{QueueProofs,ReplayersProofs,FifoFacts,ReplayersTop}.v.
   [fr_*] is the model of replay.go (index-for-index ring buffer), [fs_*] the
   list specification of Fifo.v. *)
From GoSse Require Import Base Fields Queue Replayers Fifo FifoFacts ReplayersProofs ReplayersTop.
From GoSse.Gen Require Import Params.

(* Refinement: for every capacity N >= the minimum, both ID modes and every history of
   valid/invalid Puts and Replays with any writer script, the code never panics and its
   outputs (Put results/errors, the Send/Flush calls of every Replay, returned errors)
   are exactly those of the list specification. *)
Theorem C08_refines :
  forall n auto ops, (finite_min_count <= n)%nat -> (N.of_nat (length ops) <= two64)%N ->
  exists s tr, fr_new n auto = Some s /\ fr_trace s ops = (tr, true) /\
               map fst tr = fs_run (fs_new n auto) ops.
Proof. exact finite_top. Qed.

Theorem C08_capacity_below_minimum_rejected :
  forall n auto, (n < finite_min_count)%nat -> fr_new n auto = None.
Proof. exact finite_rejects_small. Qed.

(* What the specification says, spelled out.
   The buffer holds exactly the last N successfully put events: *)
Theorem C08_buffer_is_last_N :
  forall n auto ops, (0 < n)%nat ->
  fs_l (fs_after (fs_new n auto) ops) = lastn n (fs_accepted (fs_new n auto) ops).
Proof. exact fs_buffer_last_n. Qed.

(* ... hence it never holds more than N events, and exactly min(N, number accepted) of them -
   it fills up and then stays full for every history *)
Theorem C08_never_more_than_N :
  forall n auto ops, (0 < n)%nat ->
  (length (fs_l (fs_after (fs_new n auto) ops)) <= n)%nat /\
  length (fs_l (fs_after (fs_new n auto) ops)) = Nat.min n (length (fs_accepted (fs_new n auto) ops)).
Proof. exact fs_never_more_than_n. Qed.

(* Put rejects exactly: no topics / no ID in manual mode / an ID in automatic mode ... *)
Theorem C08_put_rejects_exactly :
  forall s m_id tok topics,
  (exists e, snd (fs_put s m_id tok topics) = PutErr e) <->
  (topics = [] \/ (fs_next s = None /\ m_id = None) \/ (fs_next s <> None /\ m_id <> None)).
Proof. exact fs_put_reject_iff. Qed.

(* ... and a rejected message is not stored (nothing changes at all) *)
Theorem C08_rejected_not_stored :
  forall s m_id tok topics e,
  snd (fs_put s m_id tok topics) = PutErr e -> fst (fs_put s m_id tok topics) = s.
Proof. exact fs_put_rejected. Qed.

(* automatic mode assigns the consecutive decimals 0,1,2,... in Put order *)
Theorem C08_auto_ids_consecutive :
  forall n ops,
  map e_id (fs_accepted (fs_new n true) ops) =
  map format_uint (n_seq 0 (length (fs_accepted (fs_new n true) ops))).
Proof. intros n ops. exact (fs_auto_ids ops (fs_new n true) 0%N eq_refl). Qed.

(* Replay with the ID of a buffered, non-newest event sends exactly the later buffered
   events whose topics intersect, in Put order, stopping at the first Send error, and
   flushes iff all Sends succeeded *)
Theorem C08_replay_buffered :
  forall pre e post keep auto script,
  (forall x, In x pre -> e_id x <> e_id e) -> post <> [] ->
  spec_replay (pre ++ e :: post) keep (Some (e_id e)) auto script = spec_sends (filter keep post) script.
Proof. exact spec_replay_buffered. Qed.

Theorem C08_replay_all_sent_then_flush :
  forall es, spec_sends es [] = (map (fun e => CSend (e_tok e) (e_id e)) es ++ [CFlush], 0%N).
Proof. exact spec_sends_all_ok. Qed.

(* the newest ID, an unset ID, and (manual IDs) an ID no buffered event carries -
   never issued or evicted - replay nothing: not a single call on the writer *)
Theorem C08_replay_newest_nothing :
  forall pre e keep auto script,
  (forall x, In x pre -> e_id x <> e_id e) ->
  spec_replay (pre ++ [e]) keep (Some (e_id e)) auto script = ([], 0%N).
Proof. exact spec_replay_newest. Qed.

Theorem C08_replay_unset_nothing :
  forall l keep auto script, spec_replay l keep None auto script = ([], 0%N).
Proof. exact spec_replay_unset. Qed.

Theorem C08_replay_absent_manual_nothing :
  forall l v keep script,
  (forall x, In x l -> e_id x <> v) -> spec_replay l keep (Some v) false script = ([], 0%N).
Proof. exact spec_replay_absent_manual. Qed.

(* automatic IDs: anything that is not an issued numeral ("02", "zz", >= 2^64), or a
   numeral not below the oldest buffered ID and carried by no buffered event (not yet issued) *)
Theorem C08_replay_never_issued_auto_nothing :
  forall l v keep script,
  (forall x, In x l -> e_id x <> v) ->
  (parse_issued v = None \/
   match l with h :: _ => exists n f, parse_issued v = Some n /\ parse_uint (e_id h) = Some f /\ (f <= n)%N | [] => True end) ->
  spec_replay l keep (Some v) true script = ([], 0%N).
Proof. exact spec_replay_absent_auto. Qed.

(* non-vacuity / sanity values computed by the model itself *)
Example C08_example_wraparound_newest :
  (* N = 3, automatic IDs, 3 puts, Replay(newest = "2"): nothing (the defect repaired by the first fix) *)
  let ops := [FPut None 1 [[]]; FPut None 2 [[]]; FPut None 3 [[]]; FReplay (Some [50]) [[]] []] in
  match fr_new 3 true with
  | Some s => map fst (fst (fr_trace s ops)) =
              [OPut (PutOk [48]); OPut (PutOk [49]); OPut (PutOk [50]); OReplay ([], 0%N)]
  | None => False
  end.
Proof. vm_compute. reflexivity. Qed.

Example C08_example_replay_middle :
  let ops := [FPut None 1 [[]]; FPut None 2 [[]]; FPut None 3 [[]]; FPut None 4 [[]]; FReplay (Some [50]) [[]] []] in
  match fr_new 3 true with
  | Some s => nth 4 (map fst (fst (fr_trace s ops))) OGC = OReplay ([CSend 4 [51]; CFlush], 0%N)
  | None => False
  end.
Proof. vm_compute. reflexivity. Qed.
