(* C04 - resuming with Last-Event-ID yields exactly the missed events, then live ones.
   Statements only; proofs in theories/JoeResume.v (on top of the C06 invariant and the C03 history
   invariant).  About the LTS JoeLts.step, all label sequences from [init] (all histories of
   publishes before the subscription, all interleavings of the Subscribe call with concurrent
   Publish calls, all verdicts).

   Joe's part of the property is the BOUNDARY between replay and live delivery; what a replayer
   replays for a presented ID is the replayer's business (C08: FiniteReplayer, C09: ValidReplayer,
   list specifications in Fifo.v).  Here the replayer is abstract: the calls it makes on the new
   subscriber's writer are arbitrary labels (LRSend/LRFlush); the theorems say what Joe guarantees
   around them, and the composition with a replayer that satisfies the C08/C09 specification
   ("the matching accepted events after the presented one") is C04_no_gap_no_dup.

   A message is identified with its Publish call; the ID an event carries is attached to that
   identity when Put returns (the message fanned out IS the one Put returned, joe.go:252-254), so
   live and replayed copies of a publish carry the same ID by construction of the model - on the
   real code this clause is checked by the monitor (same_id_ok in RunJoeMon.v). *)
From GoSse Require Fields Queue Replayers Fifo JoeResumeSpec.
From GoSse Require Import Base JoeLts JoeLocal JoeProj JoePub JoeInv JoeSafety JoeHist JoeDeliver JoeResume.
Local Open Scope nat_scope.

(* Replay and registration happen in one loop iteration: when Replay was called for i (snapshot k
   of the Put history) the replayer had been offered exactly order[0 .. reg_i), in that order, and
   i's live window starts at reg_i - whatever Publish calls are pending or running concurrently *)
Theorem C04_replay_boundary :
  forall ls s i r k,
  run init ls = Some s -> s_reg (sub s i) = Some r -> s_rsnap (sub s i) = Some k ->
  k = r /\ map fst (firstn k (puts s)) = firstn r (order s).
Proof. exact replay_boundary_run. Qed.

(* all Send calls on i's writer: first the replayer's, then the fan-out's = the matching part of
   order[reg_i .. upto_i) (C03) *)
Theorem C04_replay_then_live :
  forall ls s i, run init ls = Some s -> sends (wlog s i) = sends (s_rlog (sub s i)) ++ due s i.
Proof. exact replay_then_live_run. Qed.

(* with a replayer that replays the matching events it was offered after the presented one, q:
   every later matching event exactly once, in publish order, replayed part then live part, no
   gap, no duplicate, no reordering at the boundary *)
Theorem C04_no_gap_no_dup :
  forall ls s i r k q,
  run init ls = Some s -> s_reg (sub s i) = Some r -> s_rsnap (sub s i) = Some k ->
  sends (s_rlog (sub s i)) = filter (matches s i) (after_tok q (map fst (firstn k (puts s)))) ->
  In q (firstn r (order s)) ->
  sends (wlog s i) = filter (matches s i) (after_tok q (firstn (upto s i) (order s))).
Proof. exact resume_no_gap_no_dup_run. Qed.

(* presenting the newest ID, a never-issued ID or none: the replayer replays nothing (C08/C09), and
   live delivery proceeds exactly as for any subscriber *)
Theorem C04_nothing_replayed :
  forall ls s i, run init ls = Some s -> sends (s_rlog (sub s i)) = [] -> sends (wlog s i) = due s i.
Proof. exact resume_nothing_replayed_run. Qed.

(* the replayer hypothesis of C04_no_gap_no_dup is what the C08/C09 specification says: presenting
   the ID of a buffered event, [Fifo.spec_resume] yields exactly the entries stored after it (nothing
   when it is the newest), and [Fifo.spec_replay] sends every kept one of them, in Put order, then
   flushes.  (FiniteReplayer / ValidReplayer refine this specification: C08_refines, C09.) *)
Theorem C04_spec_resume_is_after :
  forall l id auto p,
  Fifo.find_pos l id = Some p ->
  match Fifo.spec_resume l (Some id) auto with
  | Some es => es = JoeResumeSpec.after_id id l /\ es <> []
  | None => JoeResumeSpec.after_id id l = []
  end.
Proof. exact JoeResumeSpec.spec_resume_buffered. Qed.

Theorem C04_spec_replay_sends_all_after :
  forall l keep id auto p,
  Fifo.find_pos l id = Some p -> JoeResumeSpec.after_id id l <> [] ->
  Fifo.spec_replay l keep (Some id) auto [] =
  (map (fun e => Replayers.CSend (Replayers.e_tok e) (Replayers.e_id e)) (filter keep (JoeResumeSpec.after_id id l))
   ++ [Replayers.CFlush], 0%N).
Proof. exact JoeResumeSpec.spec_replay_buffered_all. Qed.

(* non-vacuity: two messages are published, subscriber 0 resumes from message 0 while message 2 is
   pending (its Publish has entered, is accepted only after the registration); the replayer replays
   message 1; message 2 arrives live *)
Definition resume_schedule : list label :=
  [LIdle;
   PubEnter 0 [0]; PubSend 0; LPut 0 VOk; LPutRes 0; LErrs 0; LIdle; PubRecv 0;
   PubEnter 1 [0]; PubSend 1; LPut 1 VOk; LPutRes 1; LErrs 1; LIdle; PubRecv 1;
   PubEnter 2 [0];
   SubEnter 0 [0]; SubSend 0; LReplay 0; LRSend 0 1 VOk; LRFlush 0 VOk; LReplayed 0 VOk; LReg 0; LIdle;
   PubSend 2; LPut 2 VOk; LPutRes 2; LErrs 2; LSend 0 VOk; LFlush 0 VOk; LIdle; PubRecv 2].

Example C04_example_resume :
  match run init resume_schedule with
  | Some s => order s = [0; 1; 2] /\ s_reg (sub s 0) = Some 2 /\ s_rsnap (sub s 0) = Some 2
              /\ sends (s_rlog (sub s 0)) = [1] /\ sends (s_llog (sub s 0)) = [2]
              /\ sends (wlog s 0) = filter (matches s 0) (after_tok 0 (firstn (upto s 0) (order s)))
  | None => False
  end.
Proof. vm_compute. repeat split. Qed.
