(* C06 - the provider never crashes and never touches a subscriber after Subscribe returned.
   Statements only; proofs in theories/{JoeLocal,JoeProj,JoePub,JoeInv,JoeSafety}.v.

   The theorems are about the labelled transition system [JoeLts.step] (joe.go transcribed: one
   label per channel operation, select choice, close, call into user code; see JoeLts.v).  They
   quantify over ALL label sequences from [init]: every interleaving of any number of Subscribe,
   Publish, Shutdown calls, context cancellations, and every verdict (ok / error / panic) of every
   Send, Flush, Put and Replay call.  That the real Joe's behaviours are paths of this LTS is
   checked on every run by trace inclusion (family joe_c06), not proved. *)
From GoSse Require Import Base JoeLts JoeLocal JoeProj JoePub JoeInv JoeSafety.
Local Open Scope nat_scope.

(* Joe does not panic: [Panicked] is entered by closing a closed channel or sending on a closed
   channel (a subscriber's done, a publisher's errs, j.closed); it is unreachable. *)
Theorem C06_no_panic :
  forall ls s, run init ls = Some s -> pc s <> Panicked.
Proof. exact no_panic_run. Qed.

(* once Subscribe call i has returned (for whatever reason, with whatever value r), no step of any
   continuation appends to the log of calls made on its MessageWriter (replay calls and fan-out
   calls alike) *)
Theorem C06_quiet_after_return :
  forall ls1 s1 i r ls2 s2,
  run init ls1 = Some s1 -> s_pc (sub s1 i) = SRet r -> run s1 ls2 = Some s2 ->
  wlog s2 i = wlog s1 i.
Proof. exact quiet_after_return_run. Qed.

(* what Subscribe returns: the failure the loop recorded for this subscriber if there is one, else
   nil - or ErrProviderClosed for a call that found Joe shut down before it was handed over, whose
   writer was never called *)
Theorem C06_return_value :
  forall ls s i r,
  run init ls = Some s -> s_pc (sub s i) = SRet r ->
  match s_fail (sub s i) with
  | Some e => r = Some e
  | None => r = None \/ (r = Some E_CLOSED /\ wlog s i = [] /\ s_reg (sub s i) = None)
  end.
Proof. exact return_value_run. Qed.

(* ... where the recorded failure is the subscriber's own: it is written only when the loop
   executes done_i <- e, after i's own Send or Flush answered e, or after Replay for i returned e *)
Theorem C06_recorded_failure_is_own :
  forall s l s' i,
  step s l = Some s' -> s_fail (sub s' i) <> s_fail (sub s i) ->
  (exists p e todo, l = LFail i /\ pc s = Failing p i e todo /\ s_fail (sub s' i) = Some e) \/
  (exists e, l = LReject i /\ pc s = Rejecting i e /\ s_fail (sub s' i) = Some e).
Proof. exact fail_origin. Qed.

Theorem C06_failing_after_own_error :
  forall s l s' p i e todo,
  step s l = Some s' -> pc s' = Failing p i e todo -> pc s <> pc s' ->
  l = LSend i (VErr e) \/ l = LFlush i (VErr e).
Proof. exact failing_origin. Qed.

Theorem C06_rejecting_after_replay_error :
  forall s l s' i e,
  step s l = Some s' -> pc s' = Rejecting i e -> pc s <> pc s' -> l = LReplayed i (VErr e).
Proof. exact rejecting_origin. Qed.

(* the invariant behind the three theorems, for every subscriber in every reachable state *)
Theorem C06_invariant :
  forall ls s j, run init ls = Some s -> ok (loc s j) = true.
Proof. exact invariant_run. Qed.

(* non-vacuity: the schedule that crashed the unrepaired code (a Send fails, the context is
   cancelled before Joe has processed either, Subscribe hands in the unsubscription) is a path of
   the LTS; it ends with Subscribe returning the Send error and no panic *)
Definition race_schedule : list label :=
  [LIdle; SubEnter 0 [0]; SubSend 0; LReplay 0; LReplayed 0 VOk; LReg 0; LIdle;
   PubEnter 0 [0]; PubSend 0; LPut 0 VOk; LPutRes 0; LErrs 0; LSend 0 (VErr 100);
   Cancel 0; SubCtx 0; LFail 0; LRemove 0; LIdle; SubUnsub 0; LRemoveSkip 0; SubDone 0].

Example C06_example_fail_cancel_race :
  match run init race_schedule with
  | Some s => s_pc (sub s 0) = SRet (Some 100) /\ pc s = Top /\ wlog s 0 = [WSend 0 false]
              /\ s_fail (sub s 0) = Some 100
  | None => False
  end.
Proof. vm_compute. repeat split. Qed.

(* and the model does panic where Go does: closing a subscriber's channel twice (here by forcing
   the unguarded removal that the first fix took out is not expressible - instead: a state that
   violates the invariant, done_0 closed while still registered) *)
Example C06_example_double_close_panics :
  let s0 := set_subs (set_sub init 0 (w_dclosed (w_pc sub0 AtSel2) true)) [0] in
  match step (set_pc s0 (GotUnsub 0)) (LRemove 0) with
  | Some s => pc s = Panicked
  | None => False
  end.
Proof. vm_compute. reflexivity. Qed.
