(* C12 - the retry schedule follows the Backoff configuration.
   Statements only; proofs in theories/BackoffProofs.v (unit level) and theories/ConnectProofs.v
   (the schedule as Connect uses it: OnRetry, attempts).
   [merge_defaults], [bc_*], [next_interval], [grow_interval] are the model of client.go:136-229
   (Backoff.v: Z nanoseconds, exact rationals for float64, truncation for float64 -> int64; the
   clock reading and the RNG draw of every next() call are universally quantified inputs);
   [base_seq], [grow_spec], [wait_ok], [jitter_lo/hi], [series_of], [limit_refuses] are the
   specification, written from the property text.

   A history is any list of: HFail elapsed u (an attempt ended - transport failure or dropped
   stream - and next() is consulted [elapsed] after the start of the series, RNG draw u in [0,1)),
   HSuccess (a response was validated: reset(0)), HRetry ms (the server sent "retry: ms"). *)
From GoSse Require Import Base Whatwg Backoff BackoffProofs Connect ConnectClass ConnectSchedule ConnectAgain.
From GoSse.Gen Require Import Params.
Local Open Scope Z_scope.

(* The configuration every Connection runs with (NewConnection -> mergeDefaults) is well-formed:
   InitialInterval > 0, Multiplier >= 1, Jitter = -1 or in (0,1) - for every configuration given. *)
Theorem C12_normalised :
  forall b0, 0 < rden (bo_mul b0) -> 0 < rden (bo_jitter b0) -> backoff_wf (merge_defaults b0).
Proof. exact merge_wf. Qed.

(* ... and it is the given one wherever that is admissible: InitialInterval <= 0 -> default,
   Multiplier < 1 -> default, Jitter: -1 is KEPT ("no randomization"), (0,1) kept, anything else
   -> default; the three limits are untouched. *)
Theorem C12_defaults :
  forall b0, raw_ok b0 ->
  let b := merge_defaults b0 in
  bo_initial b = (if 0 <? bo_initial b0 then bo_initial b0 else default_initial_interval) /\
  bo_mul b = (if rle (rz 1) (bo_mul b0) then bo_mul b0 else default_mul) /\
  (req (bo_jitter b0) jitter_off = true -> bo_jitter b = bo_jitter b0) /\
  (rlt (rz 0) (bo_jitter b0) && rlt (bo_jitter b0) (rz 1) = true -> bo_jitter b = bo_jitter b0) /\
  (req (bo_jitter b0) jitter_off = false -> rlt (rz 0) (bo_jitter b0) && rlt (bo_jitter b0) (rz 1) = false ->
   bo_jitter b = default_jitter) /\
  bo_max_interval b = bo_max_interval b0 /\ bo_max_elapsed b = bo_max_elapsed b0 /\
  bo_max_retries b = bo_max_retries b0.
Proof. exact merge_fields. Qed.

(* THE SCHEDULE.  For every configuration and every history [pre]: let b1 be the base set by the
   last reset of [pre] (InitialInterval after a successful connection or "retry: 0", the server's
   value after a positive retry field, InitialInterval if there was none) and n the number of
   attempt ends since.  Then the answer of the next call of next() is
     - "no retry" if MaxRetries < 0, or MaxRetries > 0 and n >= MaxRetries  (at most MaxRetries
       consecutive retries; MaxRetries = 0 never refuses);
     - otherwise some wait w with  w = b_n  when Jitter = -1,  floor(b_n(1-J)) <= w <= ceil(b_n(1+J))
       otherwise, where b_0 = b1 and b_(k+1) = min(floor(b_k * Multiplier), MaxInterval) when
       MaxInterval > 0, else floor(b_k * Multiplier); the retry is granted with exactly this w
       unless MaxElapsedTime > 0 and elapsed + w > MaxElapsedTime, in which case: no retry. *)
Theorem C12_schedule :
  forall b0 pre e u,
  raw_ok b0 -> draws_ok pre -> 0 <= rnum u < rden u ->
  let b := merge_defaults b0 in
  let '(b1, n) := series_of b (bo_initial b) O pre in
  exists answer,
    snd (bc_run b (pre ++ [HFail e u])) = snd (bc_run b pre) ++ [answer] /\
    if limit_refuses b n then answer = None
    else exists w, wait_ok b (base_seq b b1 n) w /\
                   answer = if (0 <? bo_max_elapsed b) && (bo_max_elapsed b <? e + w) then None else Some w.
Proof. exact schedule_merged. Qed.

(* The controller's state after any history: its next base is b_k and its counter k, where k is
   the number of attempt ends of the current series that the retry limit did not refuse.  In
   particular a successful connection (or a retry field) resets both. *)
Theorem C12_state :
  forall b0 h, raw_ok b0 -> draws_ok h ->
  let b := merge_defaults b0 in
  let '(b1, n) := series_of b (bo_initial b) O h in
  fst (bc_run b h) = mkbctl (base_seq b b1 (counted b n)) (Z.of_nat (counted b n)).
Proof. exact schedule_state_merged. Qed.

(* Whenever a retry IS granted with wait w: MaxRetries >= 0, fewer than MaxRetries attempt ends
   precede it in its series (when MaxRetries > 0), elapsed + w <= MaxElapsedTime (when set), and
   w is the exact / jittered k-th base. *)
Theorem C12_granted_respects_limits :
  forall b0 pre e u w,
  raw_ok b0 -> draws_ok pre -> 0 <= rnum u < rden u ->
  let b := merge_defaults b0 in
  snd (bc_run b (pre ++ [HFail e u])) = snd (bc_run b pre) ++ [Some w] ->
  let '(b1, n) := series_of b (bo_initial b) O pre in
  0 <= bo_max_retries b /\ (0 < bo_max_retries b -> Z.of_nat n < bo_max_retries b) /\
  (0 < bo_max_elapsed b -> e + w <= bo_max_elapsed b) /\ wait_ok b (base_seq b b1 n) w.
Proof. exact granted_respects_limits_merged. Qed.

(* MaxRetries = 0 and no MaxElapsedTime: unbounded - every attempt end is followed by a retry. *)
Theorem C12_unbounded :
  forall b0 pre e u,
  raw_ok b0 -> bo_max_retries b0 = 0 -> bo_max_elapsed b0 <= 0 -> draws_ok pre -> 0 <= rnum u < rden u ->
  let b := merge_defaults b0 in
  exists w, snd (bc_run b (pre ++ [HFail e u])) = snd (bc_run b pre) ++ [Some w].
Proof. exact unbounded_always_retries_merged. Qed.

(* The code's two arithmetic functions against the text: growInterval is min(floor(b*M), Max) ... *)
Theorem C12_grow :
  forall b x, backoff_wf b -> 0 <= x ->
  grow_interval x (bo_max_interval b) (bo_mul b) = grow_spec b x.
Proof. exact grow_eq. Qed.

(* ... nextInterval is the base itself for Jitter -1 (D4: -1 must survive mergeDefaults, see
   C12_defaults) and lies in [floor(b(1-J)), ceil(b(1+J))] for every RNG draw otherwise; the lower
   end is attained (draw 0). *)
Theorem C12_wait_exact_without_jitter :
  forall j u x, req j jitter_off = true -> next_interval j u x = x.
Proof. exact next_interval_off. Qed.

Theorem C12_wait_within_jitter :
  forall j u x, 0 < rden j -> 0 < rnum j < rden j -> 0 <= rnum u < rden u -> 0 <= x ->
  jitter_lo j x <= next_interval j u x <= jitter_hi j x.
Proof. exact next_interval_bounds. Qed.

Theorem C12_jitter_lower_end_attained :
  forall j x, 0 < rden j -> 0 < rnum j < rden j -> 0 <= x -> next_interval j (mkrat 0 1) x = jitter_lo j x.
Proof. exact next_interval_u0. Qed.

(* ---- non-vacuity: concrete configurations and histories ------------------------------------ *)
Definition ex_ms (n : Z) : Z := n * 1000000.
(* Jitter -1, base 7 ms, Multiplier 1.5, MaxInterval 20 ms, MaxRetries 4 (the D4 witness: waits are
   exactly 7, 10.5, 15.75, 20 ms; the fifth attempt end is refused; after a success it starts over;
   after "retry: 40" (> MaxInterval) the first wait is 40 ms and the second drops to the cap) *)
Definition ex_cfg : backoff := mkbackoff (ex_ms 7) (mkrat 3 2) (mkrat (-1) 1) (ex_ms 20) 0 4.
Definition ex_u : rat := mkrat 1 2.
Example C12_example_jitter_off :
  snd (bc_run (merge_defaults ex_cfg)
         [HFail 0 ex_u; HFail 0 ex_u; HFail 0 ex_u; HFail 0 ex_u; HFail 0 ex_u;
          HSuccess; HFail 0 ex_u; HRetry 40; HFail 0 ex_u; HFail 0 ex_u]) =
  [Some (ex_ms 7); Some 10500000; Some 15750000; Some (ex_ms 20); None;
   Some (ex_ms 7); Some (ex_ms 40); Some (ex_ms 20)].
Proof. vm_compute. reflexivity. Qed.

(* default jitter 0.5 (Jitter 0 is replaced), base 8 ms: draws 0, 1/2, 255/256 give 4 ms, 8.0000005 ms,
   ~12 ms - inside [4 ms, 12 ms]; MaxElapsedTime 30 ms refuses the retry whose wait would end after it *)
Definition ex_cfg2 : backoff := mkbackoff (ex_ms 8) (mkrat 1 1) (mkrat 0 1) 0 (ex_ms 30) 0.
Example C12_example_jitter_on :
  bo_jitter (merge_defaults ex_cfg2) = default_jitter /\
  snd (bc_run (merge_defaults ex_cfg2)
         [HFail 0 (mkrat 0 1); HFail (ex_ms 4) (mkrat 1 2); HFail (ex_ms 12) (mkrat 255 256);
          HFail (ex_ms 24) (mkrat 255 256)]) =
  [Some (ex_ms 4); Some 8000000; Some 11968750; None].
Proof. vm_compute. split; reflexivity. Qed.

(* the hypotheses of C12_schedule are satisfiable by these *)
Example C12_example_hypotheses :
  raw_ok ex_cfg /\ raw_ok ex_cfg2 /\ draws_ok [HFail 0 ex_u; HSuccess; HRetry 40] /\
  series_of (merge_defaults ex_cfg) (bo_initial (merge_defaults ex_cfg)) O
            [HFail 0 ex_u; HSuccess; HRetry 40; HFail 0 ex_u] = (ex_ms 40, 1%nat).
Proof.
  split; [|split; [|split]]; try (vm_compute; repeat split; reflexivity).
  intros e u [H|[H|[H|[]]]]; try discriminate. injection H as <- <-. vm_compute. split; [discriminate|reflexivity].
Qed.

(* ---- the schedule as Connect uses it ------------------------------------------------------------
   For every run of the model of Connection.Connect (Connect.v; see props/C10.v) that made n
   requests: the backoff controller has seen exactly the history [script_hops] of the first n
   attempts - HSuccess when a response is VALIDATED (so every attempt end, transport failure or
   dropped stream, consumes one retry of the series that starts there), HRetry ms for every valid
   retry field of the stream in order, HFail (clock, draw) for every retryable attempt end - and
     - OnRetry (when set) was called exactly once per granted retry, in order, with the wait next()
       returned and the error of the attempt that ended;
     - a refusal of next() is the last consultation of the run.
   Together with C12_schedule (which describes every answer of [bc_run] on every history) this is
   the statement of the property about OnRetry durations and attempt counts. *)
Theorem C12_connect_schedule :
  forall cfg script tr r,
  cc_cancel_before cfg = false ->
  connect_run cfg script = (tr, r) ->
  let b := merge_defaults (cc_backoff cfg) in
  let n := length (requests tr) in
  let answers := snd (bc_run b (script_hops [] (firstn n script))) in
  (if cc_on_retry cfg
   then map snd (on_retries tr) = granted answers /\
        map fst (on_retries tr) = firstn (length (on_retries tr)) (retry_errors (firstn n script))
   else on_retries tr = []) /\
  refusal_is_final answers.
Proof. exact run_schedule. Qed.

(* The same for a Connect call on a Connection that was connected before, in ANY state [s] (every later
   call of a run of several calls is one: C10_again_call in props/C10.v): Connect makes its controller anew
   (client_connection.go:198), so the schedule of the call is that of its own attempts - it starts at
   InitialInterval with no retry counted; a retry value the server sent during an earlier call is forgotten
   (the code as it is; the property text speaks of the waits after "the preceding connection" and is read
   per Connect call here - see the level note). *)
Theorem C12_again_schedule :
  forall cfg b s script tr r,
  connect_loop cfg b (call_state b s) script = (tr, r) ->
  let n := length (requests tr) in
  let answers := snd (bc_run b (script_hops (cs_last_id s) (firstn n script))) in
  (if cc_on_retry cfg
   then map snd (on_retries tr) = granted answers /\
        map fst (on_retries tr) = firstn (length (on_retries tr)) (retry_errors (firstn n script))
   else on_retries tr = []) /\
  refusal_is_final answers.
Proof. exact again_schedule. Qed.

(* the history of an accepted response starts with the reset *)
Theorem C12_validated_response_resets :
  forall lid st body en, st_attempt st = AStream body en -> exists tail, attempt_hops lid st = HSuccess :: tail.
Proof. exact attempt_hops_stream. Qed.

(* non-vacuity: base 7 ms, Multiplier 1.5, MaxInterval 20 ms, MaxRetries 3; "retry: 40\n\n" then EOF, then
   failures: OnRetry gets 40 ms (server value), 20 ms (cap), 20 ms; the fourth attempt end of the series is refused *)
Definition ex_retry40 : bytes := [114; 101; 116; 114; 121; 58; 32; 52; 48; 10; 10]%N.
Definition ex_conn : ccfg :=
  mkccfg (mkbackoff (ex_ms 7) (mkrat 3 2) (mkrat (-1) 1) (ex_ms 20) 0 3) BNone true None false None.
Definition ex_st (a : attempt) : step := mkstep a 0 (mkrat 0 1).
Example C12_example_connect :
  let '(tr, r) := connect_run ex_conn (map ex_st [ATransportErr 1; AStream ex_retry40 CleanEOF; ATransportErr 2;
                                                  ATransportErr 3; ATransportErr 4; ATransportErr 5]) in
  map snd (on_retries tr) = [ex_ms 7; ex_ms 40; ex_ms 20; ex_ms 20] /\
  length (requests tr) = 5%nat /\ r = Some (RConn RsConnect (CE (EReader 4))).
Proof. vm_compute. repeat split; reflexivity. Qed.

(* the retry fields a Connection honours are those of the specification in Connection mode, whose
   bound on the value is the one the code parses with (event.go: ParseUint(_, 10, retry_parse_bits),
   unsigned) - D6: "retry: +7" is not a retry field *)
Example C12_retry_field_bound :
  md_retry_bits gosse_conn = retry_parse_bits /\ retry_parse_signed = false /\
  retries_of (interp gosse_conn [] [114; 101; 116; 114; 121; 58; 32; 43; 55; 10; 10]%N CleanEOF) = [] /\
  retries_of (interp gosse_conn [] [114; 101; 116; 114; 121; 58; 32; 55; 10; 10]%N CleanEOF) = [HRetry 7].
Proof. vm_compute. repeat split; reflexivity. Qed.
