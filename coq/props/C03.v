(* C03 - Joe delivers each message exactly once, in order, to matching subscribers.
   Statements only; proofs in theories/{JoeHist,JoeDeliver}.v (on top of the C06 invariant).
   All theorems are about the LTS JoeLts.step and quantify over all label sequences from [init]:
   every interleaving of any number of Publish, Subscribe, cancel and Shutdown calls, every topic
   set, every verdict.

   Vocabulary:  [order s]  the Publish calls in the order the loop accepted them (a message is
   identified with its Publish call);  [sends (s_llog (sub s i))]  the messages of the Send calls
   the fan-out made on subscriber i's writer (successful or failing), in call order;
   [matches s i p]  the topics of subscription i and of message p intersect;
   [due s i]  =  filter (matches s i) (slice (order s) reg_i upto_i)  where reg_i is the length of
   [order] when i was registered and upto_i its length when i was removed - or, while i is still
   registered, the current length, minus the message in flight if the fan-out has not reached i. *)
From GoSse Require Import Base JoeLts JoeLocal JoeProj JoePub JoeInv JoeSafety JoeHist JoeDeliver.
Local Open Scope nat_scope.

(* exactly once, in order, while registered, only matching: the fan-out's Send calls on i's writer
   ARE the matching messages of i's window of the global order - nothing else, nothing missing,
   nothing twice, in that order *)
Theorem C03_exactly_once_in_order :
  forall ls s i, run init ls = Some s -> sends (s_llog (sub s i)) = due s i.
Proof. exact deliveries_run. Qed.

(* one global order: every subscriber's deliveries are a subsequence of [order] ... *)
Theorem C03_single_order :
  forall ls s i, run init ls = Some s -> subseq (sends (s_llog (sub s i))) (order s).
Proof. exact single_order_run. Qed.

(* ... and never twice, however many topics match *)
Theorem C03_at_most_once :
  forall ls s i, run init ls = Some s -> NoDup (sends (s_llog (sub s i))).
Proof. exact at_most_once_run. Qed.

(* never to a subscriber whose topics do not intersect the message's, never an unpublished message *)
Theorem C03_only_matching :
  forall ls s i p,
  run init ls = Some s -> In p (sends (s_llog (sub s i))) -> matches s i p = true /\ In p (order s).
Proof. exact only_matching_run. Qed.

(* never to a subscription that was not registered *)
Theorem C03_unregistered_nothing :
  forall ls s i, run init ls = Some s -> s_reg (sub s i) = None -> s_llog (sub s i) = [].
Proof. exact unregistered_nothing_run. Qed.

(* program order for one publisher: a Publish call that had returned before another one started
   precedes it in the global order *)
Theorem C03_program_order :
  forall ls1 s1 ls s2 p1 p2 r,
  run init ls1 = Some s1 -> p_pc (pub s1 p1) = PRet r -> p_pc (pub s1 p2) = P0 ->
  run s1 ls = Some s2 -> In p1 (order s2) -> In p2 (order s2) ->
  exists a b c, order s2 = a ++ p1 :: b ++ p2 :: c.
Proof. exact program_order_run. Qed.

(* every Send is followed by a Flush before Joe goes idle: a fan-out log ends with a successful Send
   only while the loop is about to call Flush on that very writer *)
Theorem C03_flush_follows_send :
  forall ls s i,
  run init ls = Some s -> awaiting_flush (s_llog (sub s i)) = true -> exists p t, pc s = Flushing p i t.
Proof. exact flush_before_idle_run. Qed.

Theorem C03_flush_before_idle :
  forall ls s i, run init ls = Some s -> pc s = Idle -> awaiting_flush (s_llog (sub s i)) = false.
Proof. exact idle_all_flushed_run. Qed.

(* every message published before a subscriber's cancellation was requested is delivered to it:
   a subscription removed through its unsubscription (e = length of [order] at the removal,
   c = at the request) was handed every matching message of order[reg_i .. c) *)
Theorem C03_before_cancel :
  forall ls s i r e c,
  run init ls = Some s -> s_reg (sub s i) = Some r -> s_rem (sub s i) = Some (e, RUnsub) ->
  s_cancel (sub s i) = Some c ->
  c <= e /\ exists rest, sends (s_llog (sub s i)) = filter (matches s i) (slice (order s) r c) ++ rest.
Proof. exact before_cancel_run. Qed.

(* non-vacuity: subscriber 0 on topics {1,2}, subscriber 1 on {2,3}; message 0 on {1,2} (matches
   two topics of subscriber 0: one delivery), message 1 on {3}, message 2 on {4} (nobody) *)
Definition fanout_schedule : list label :=
  [LIdle;
   SubEnter 0 [1; 2]; SubSend 0; LReplay 0; LReplayed 0 VOk; LReg 0; LIdle;
   PubEnter 0 [1; 2]; PubSend 0; LPut 0 VOk; LPutRes 0; LErrs 0; LSend 0 VOk; LFlush 0 VOk; LIdle;
   SubEnter 1 [2; 3]; SubSend 1; LReplay 1; LReplayed 1 VOk; LReg 1; LIdle;
   PubEnter 1 [3]; PubSend 1; LPut 1 VOk; LPutRes 1; LErrs 1; LSend 1 VOk; LFlush 1 VOk; LIdle;
   PubEnter 2 [4]; PubSend 2; LPut 2 VOk; LPutRes 2; LErrs 2; LIdle;
   PubEnter 3 [2]; PubSend 3; LPut 3 VOk; LPutRes 3; LErrs 3;
   LSend 1 VOk; LFlush 1 VOk; LSend 0 VOk; LFlush 0 VOk; LIdle].

Example C03_example_fanout :
  match run init fanout_schedule with
  | Some s => order s = [0; 1; 2; 3]
              /\ sends (s_llog (sub s 0)) = [0; 3] /\ due s 0 = [0; 3]
              /\ sends (s_llog (sub s 1)) = [1; 3] /\ due s 1 = [1; 3]
              /\ s_reg (sub s 1) = Some 1
  | None => False
  end.
Proof. vm_compute. repeat split. Qed.
