(* C20 - parser memory is bounded by the configured maximum event size.
   Only statements closed by [exact] (proofs in theories/*Proofs.v) and [Example]s by computation.

   Models: Scanner.v (bufio.Scanner.Scan, transliterated), Split.v (splitFunc), Reader.v (Parser),
   ReadLoop.v (read()); the reader is a script - a list of chunks and an ending - over which every
   theorem quantifies, so "every read chunking" is "every script".

   PROVED IN FULL (all scripts, all (cap(buf), maxSize) incl. 0 / negative / absent, both entry points,
   every early stop): C20_no_panic, C20_bounded_read (+ _step), C20_fuel_ok via the same statement.
   PROVED IN PART: C20_intact - see the comment at C20_tokens_complete_partial. *)
From GoSse Require Import Base Lines FieldParser Whatwg WhatwgLines Split Scanner Reader ReadLoop
     SplitProofs ScannerProofs ParserSizeProofs RunParse.
Local Open Scope nat_scope.

(* No Panic outcome is reachable - neither ErrAdvanceTooFar (a slice bound) nor bufio's "too many empty
   tokens without progressing" - and no layer runs out of the fuel it takes (OutOfFuel is the third
   [run_end]); at the end of the run, normal or stopped early or with an error,
   bytes pulled = bytes consumed by complete tokens + bytes buffered, and bytes buffered <= L. *)
Theorem C20_no_panic_bounded_read :
  forall en bc last_id chunks e stop,
    let '(ys, fin, p) := read_run en bc last_id chunks e stop in
    fin = EndNormal /\ bounded (bound_of en bc) p.
Proof. exact read_run_bounded. Qed.

(* ... and at every point: after every call of Parser.Next that returns a field the scanner invariant
   (which contains the bound) holds again, from any state in which it holds *)
Theorem C20_bounded_read_step :
  forall B p, sc_inv B (p_sc p) (p_rd p) -> next_post B p (parser_next p).
Proof. exact parser_next_spec. Qed.

(* L is the documented limit *)
Theorem C20_limit_read :
  forall bc, bound_of EntryRead bc = if (0 <? bc_max bc)%Z then Z.to_N (bc_max bc) else 65536%N.
Proof. exact bound_of_read. Qed.
Theorem C20_limit_connection :
  forall bc, bound_of EntryConn bc =
             if bc_has_buf bc || (0 <? bc_max bc)%Z
             then N.max (Z.to_N (bc_max bc)) (if bc_has_buf bc then bc_cap bc else 0%N) else 65536%N.
Proof. exact bound_of_conn. Qed.

(* One Scan call, for every reader script and every state satisfying the invariant: a token cut from
   the front of the unconsumed input, or the end of an exhausted input, or ErrTooLong; never a panic. *)
Theorem C20_scan :
  forall B st s r, sc_inv B s r -> scan_post B st s r (scan parser_split st s r).
Proof. exact scan_spec. Qed.

(* why the empty-token panic is unreachable: at EOF, non-empty data always yields a token, and every
   token advances *)
Theorem C20_split_eof_progress : forall data, data <> [] -> split_func data true <> SplitMore.
Proof. exact split_func_eof. Qed.
Theorem C20_split_advances :
  forall data at_eof adv tok, split_func data at_eof = SplitTok adv tok ->
    exists nls, firstn adv data = nls ++ tok /\ all_nl nls /\ 0 < adv <= length data /\
                (tok = [] \/ exists b t, tok = b :: t /\ is_nl b = false) /\
                ((length tok =? adv) = true <-> nls = []).
Proof. exact split_func_tok. Qed.
Theorem C20_split_fuel_ok : forall data at_eof, split_func data at_eof <> SplitOutOfFuel.
Proof. exact split_func_fuel_ok. Qed.

(* C20_intact, full statement (NOT proved in this form):
     forall en bc id chunks e stop, fitsb (bound_of en bc) (concat chunks) = true ->
       fst (fst (read_run en bc id chunks e stop)) = firstn' stop (vis (interp mode id (concat chunks) e))
     and, without the hypothesis, the yields are a prefix of the specification's followed by TooLong.
   Proved part: every token the scanner hands out while input remains (in the buffer or in the reader)
   consists of complete lines and ends with a blank line - the field parser is never given a truncated
   event; ErrTooLong comes from a Scan call that hands out no token and leaves the split state untouched
   (C20_scan, ScanFalse clause).  Missing: (1) the composition of Parser.Next with the read loop at the
   level of fields (the same lemma C01 misses, see props/C01.v), (2) "fitsb L s -> no ErrTooLong": that
   splitFunc answers SplitMore only on data holding no complete group (the converse direction of
   split_func_shape).  Both are covered on the real code by the oracle holds_parse_c20. *)
Theorem C20_tokens_complete_partial :
  forall data at_eof adv tok, split_func data at_eof = SplitTok adv tok ->
    adv < length data \/ at_eof = false -> exists ls, wlines tok = (ls ++ [[]], []).
Proof. exact split_func_shape. Qed.

(* ---- non-vacuity ---------------------------------------------------------------------------------------- *)
Definition ex_line : bytes := [100;97;116;97;58;32;97;10]%N.      (* "data: a\n" *)

(* a limit of 8: the 8-byte unterminated group is refused after pulling exactly 8 bytes; a limit of 9 delivers *)
Example C20_ex_limit :
  let r8 := read_run EntryRead (mkbc false 0 8) [] [ex_line] CleanEOF None in
  let r9 := read_run EntryRead (mkbc false 0 9) [] [ex_line] CleanEOF None in
  fst (fst r8) = [YErr ETooLong] /\ rd_pulled (p_rd (snd r8)) = 8%N /\ bound_of EntryRead (mkbc false 0 8) = 8%N /\
  fst (fst r9) = [YEv (mkev [] [] [97%N])] /\ snd (fst r9) = EndNormal.
Proof. vm_compute. repeat split. Qed.

(* endless blank lines against a 16-byte Connection buffer with maxSize 0: refused after 16 bytes, byte-at-a-time *)
Example C20_ex_blank_lines :
  let r := read_run EntryConn (mkbc true 16 0) [] (repeat [10%N] 40) (ReadError (EReader 3)) None in
  fst (fst r) = [YErr ETooLong] /\ rd_pulled (p_rd (snd r)) = 16%N /\ bounded 16 (snd r).
Proof. vm_compute. repeat split; discriminate. Qed.

(* the scanner invariant is satisfiable: the initial state of every entry point satisfies it *)
Example C20_ex_inv :
  sc_inv (bound_of EntryConn (mkbc true 4 7)) (p_sc (make_parser EntryConn (mkbc true 4 7) (mkrd [ex_line] CleanEOF 0)))
         (p_rd (make_parser EntryConn (mkbc true 4 7) (mkrd [ex_line] CleanEOF 0))).
Proof. exact (proj1 (make_parser_inv EntryConn (mkbc true 4 7) [ex_line] CleanEOF)). Qed.

(* split_func: a mid-stream token ends with a blank line; at EOF the rest is a token *)
Example C20_ex_split :
  split_func (ex_line ++ [13;10;120]%N) false = SplitTok 10 (ex_line ++ [13;10]%N) /\
  wlines (ex_line ++ [13;10]%N) = ([[100;97;116;97;58;32;97]%N; []], []) /\
  split_func ex_line false = SplitMore /\ split_func ex_line true = SplitTok 8 ex_line.
Proof. vm_compute. repeat split. Qed.
