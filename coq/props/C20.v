(* C20 - parser memory is bounded by the configured maximum event size.
   Only statements closed by [exact] (proofs in theories/*Proofs.v) and [Example]s by computation.

   Models: Scanner.v (bufio.Scanner.Scan, transliterated), Split.v (splitFunc), Reader.v (Parser),
   ReadLoop.v (read()); the reader is a script - a list of chunks and an ending - over which every
   theorem quantifies, so "every read chunking" is "every script".

   PROVED IN FULL (all scripts, all (cap(buf), maxSize) incl. 0 / negative / absent, both entry points,
   every early stop): C20_no_panic, C20_bounded_read (+ _step), C20_fuel_ok via the same statement;
   C20_intact (no size hypothesis: the whole interpretation, or the specification's yields up to an oversized group
   followed by ErrTooLong - never a truncated or partial event), C20_fits_complete / C20_fits_no_toolong_points /
   C20_fits_parser_err (fitsb L s -> no ErrTooLong), C20_parser_fields_gen, C20_scan_which.
   The one-byte CR|LF slack between "fits" and "does not fit" is stated at C20_intact. *)
From GoSse Require Import Base Lines FieldParser Whatwg WhatwgLines Split Scanner Reader ReadLoop Yields
     LineStepProofs ReadLoopProofs SplitProofs ScannerProofs PathProofs ParserSizeProofs RunParse
     GroupProofs ScanMoreProofs ParserFieldsProofs ParserTopProofs TooLongProofs.
Local Open Scope nat_scope.

(* No Panic outcome is reachable - neither ErrAdvanceTooFar (a slice bound) nor bufio's "too many empty
   tokens without progressing" - and no layer runs out of the fuel it takes (OutOfFuel is the third
   [run_end]); at the end of the run, normal or stopped early or with an error,
   bytes pulled = bytes consumed by complete tokens + bytes buffered, and bytes buffered <= L. *)
Theorem C20_no_panic_bounded_read :
  forall en bc last_id chunks e stop,
    let '(ys, fin, p) := read_run en bc last_id chunks e stop in
    fin = EndNormal /\ bounded (bound_of en bc) p.
Proof. exact read_run_bounded. Qed.

(* ... and at every point: after every call of Parser.Next that returns a field the scanner invariant
   (which contains the bound) holds again, from any state in which it holds *)
Theorem C20_bounded_read_step :
  forall B p, sc_inv B (p_sc p) (p_rd p) -> next_post B p (parser_next p).
Proof. exact parser_next_spec. Qed.

(* L is the documented limit *)
Theorem C20_limit_read :
  forall bc, bound_of EntryRead bc = if (0 <? bc_max bc)%Z then Z.to_N (bc_max bc) else 65536%N.
Proof. exact bound_of_read. Qed.
Theorem C20_limit_connection :
  forall bc, bound_of EntryConn bc =
             if bc_has_buf bc || (0 <? bc_max bc)%Z
             then N.max (Z.to_N (bc_max bc)) (if bc_has_buf bc then bc_cap bc else 0%N) else 65536%N.
Proof. exact bound_of_conn. Qed.

(* One Scan call, for every reader script and every state satisfying the invariant: a token cut from
   the front of the unconsumed input, or the end of an exhausted input, or ErrTooLong; never a panic. *)
Theorem C20_scan :
  forall B st s r, sc_inv B s r -> scan_post B st s r (scan parser_split st s r).
Proof. exact scan_spec. Qed.

(* why the empty-token panic is unreachable: at EOF, non-empty data always yields a token, and every
   token advances *)
Theorem C20_split_eof_progress : forall data, data <> [] -> split_func data true <> SplitMore.
Proof. exact split_func_eof. Qed.
Theorem C20_split_advances :
  forall data at_eof adv tok, split_func data at_eof = SplitTok adv tok ->
    exists nls, firstn adv data = nls ++ tok /\ all_nl nls /\ 0 < adv <= length data /\
                (tok = [] \/ exists b t, tok = b :: t /\ is_nl b = false) /\
                ((length tok =? adv) = true <-> nls = []).
Proof. exact split_func_tok. Qed.
Theorem C20_split_fuel_ok : forall data at_eof, split_func data at_eof <> SplitOutOfFuel.
Proof. exact split_func_fuel_ok. Qed.

(* C20_intact, in full.  For every entry point, buffer configuration, initial ID, reader script, ending (not "read
   error io.EOF") and stop position - WITHOUT any hypothesis on sizes - the model of sse.Read / Connection.read
   yields
     either the whole interpretation firstn' stop (vis (interp mode id (concat chunks) e)) - and then every group fits
        the limit in the generous reading (may_complete, the oracle's own definition) -
     or, for an offset off in toolong_points L (stream_needs (concat chunks)), the specification's yields for the
        stream up to off, followed by ErrTooLong:
        firstn' stop (vis (snd (run_lines mode (w_init id) (fst (wlines (strip_bom (firstn off stream))))) ++ [YErr ETooLong])),
   and ends normally.  So ErrTooLong is never accompanied by a partial or truncated event, and everything before
   the oversized group is delivered intact.  [toolong_points] (RunParse.v, the oracle's own definition) lists the
   offsets [start] = end of a completed group (or 0) such that every earlier group fits in the generous reading
   and the group that starts there (with the blank lines before it; for the last entry: the rest of the stream
   plus one byte) exceeds L in the strict reading.  Strict / generous differ by ONE byte exactly when the blank line
   that completed the previous group is CR LF: splitFunc takes the LF together with the group when it is already in
   the buffer and otherwise leaves it to be skipped by the next call, which depends on the read segmentation (the
   code really behaves so; both are legitimate).  This is the only slack: a group that fits strictly is always
   delivered (C20_fits_complete / C20_fits_no_toolong_points), one that does not fit generously never is (the
   first disjunct carries may_complete).  The statement is exactly the last conjunct of the oracle holds_parse_c20. *)
Theorem C20_intact :
  forall en bc last_id chunks e stop, ending_ok e ->
    (may_complete (bound_of en bc) (concat chunks) = true /\
     fst (read_run en bc last_id chunks e stop)
     = (firstn' stop (vis (en_conn en) (interp (mode_for (en_conn en)) last_id (concat chunks) e)), EndNormal))
    \/ exists off, In off (toolong_points (bound_of en bc) (stream_needs (concat chunks))) /\
         fst (read_run en bc last_id chunks e stop)
         = (firstn' stop (vis (en_conn en)
              (snd (run_lines (mode_for (en_conn en)) (w_init last_id)
                              (fst (wlines (strip_bom (firstn (N.to_nat off) (concat chunks))))))
               ++ [YErr ETooLong])), EndNormal).
Proof. exact read_run_gen. Qed.

(* fitsb L s -> no ErrTooLong, three ways: there is no toolong point; the run is the whole interpretation
   (= C01_read / C01_connection); Parser.Err() after the last field is the specification's end condition,
   which is ErrTooLong only if that is what the reader itself failed with *)
Theorem C20_fits_no_toolong_points :
  forall L s, fitsb L s = true -> toolong_points L (stream_needs s) = [].
Proof. exact fits_no_toolong_points. Qed.

Theorem C20_fits_complete :
  forall en bc last_id chunks e stop, ending_ok e -> fitsb (bound_of en bc) (concat chunks) = true ->
    fst (read_run en bc last_id chunks e stop)
    = (firstn' stop (vis (en_conn en) (interp (mode_for (en_conn en)) last_id (concat chunks) e)), EndNormal).
Proof. exact read_run_fits. Qed.

Theorem C20_fits_parser_err :
  forall en bc chunks e, ending_ok e -> fitsb (bound_of en bc) (concat chunks) = true ->
    exists fs tl, pf_run (make_parser en bc (mkrd chunks e 0)) fs (end_err tl e) /\
                  (end_err tl e = Some ETooLong -> e = ReadError ETooLong).
Proof. exact parser_err_fits. Qed.

(* at the level of the parser: Parser.Next either hands out fields that interpret to the whole stream, or the
   fields of complete tokens that consume a prefix P (each token cut by splitFunc from at most L buffered bytes and
   ending with a blank line), after which the first L bytes of the rest are buffered, splitFunc finds no complete
   group in them (tpath ... toolong_at) and Parser.Err() = ErrTooLong *)
Theorem C20_parser_fields_gen :
  forall en bc chunks e, ending_ok e -> top_result en bc chunks e.
Proof. exact parser_fields_gen. Qed.

(* when exactly one Scan call reports ErrTooLong (and which token it cuts otherwise) *)
Theorem C20_scan_which :
  forall B st s r, sc_inv B s r -> sc_inv2 B s -> scan_post2 B st s r (scan parser_split st s r).
Proof. exact scan_spec2. Qed.

(* the earlier partial statement, kept: every token handed out while input remains consists of complete lines and
   ends with a blank line *)
Theorem C20_tokens_complete_partial :
  forall data at_eof adv tok, split_func data at_eof = SplitTok adv tok ->
    adv < length data \/ at_eof = false -> exists ls, wlines tok = (ls ++ [[]], []).
Proof. exact split_func_shape. Qed.

(* ---- non-vacuity ---------------------------------------------------------------------------------------- *)
Definition ex_line : bytes := [100;97;116;97;58;32;97;10]%N.      (* "data: a\n" *)

(* a limit of 8: the 8-byte unterminated group is refused after pulling exactly 8 bytes; a limit of 9 delivers *)
Example C20_ex_limit :
  let r8 := read_run EntryRead (mkbc false 0 8) [] [ex_line] CleanEOF None in
  let r9 := read_run EntryRead (mkbc false 0 9) [] [ex_line] CleanEOF None in
  fst (fst r8) = [YErr ETooLong] /\ rd_pulled (p_rd (snd r8)) = 8%N /\ bound_of EntryRead (mkbc false 0 8) = 8%N /\
  fst (fst r9) = [YEv (mkev [] [] [97%N])] /\ snd (fst r9) = EndNormal.
Proof. vm_compute. repeat split. Qed.

(* C20_intact's second disjunct on a concrete script: a 9-byte group "data: a\n\n", then a group that exceeds the
   limit 12; the first event is delivered intact, then ErrTooLong, nothing of the second group; 9 is the toolong
   point, and the spec side of the disjunct evaluates to the same yields.  With "\r\n" as the blank line the
   point is the early end 10 although the code took the LF along (the slack), byte-at-a-time or whole. *)
Definition ex_big : bytes := [100;97;116;97;58;32;97;97;97;97;97;97;97;10;10]%N.   (* "data: aaaaaaa\n\n", 15 bytes *)
Example C20_ex_intact :
  let s := ex_line ++ [10%N] ++ ex_big in
  let r := read_run EntryRead (mkbc false 0 12) [] [s] CleanEOF None in
  fitsb 12 s = false /\ may_complete 12 s = false /\ toolong_points 12 (stream_needs s) = [9%N] /\
  fst r = ([YEv (mkev [] [] [97%N]); YErr ETooLong], EndNormal) /\
  snd (run_lines gosse_read (w_init []) (fst (wlines (strip_bom (firstn 9 s))))) ++ [YErr ETooLong]
  = [YEv (mkev [] [] [97%N]); YErr ETooLong].
Proof. vm_compute. repeat split. Qed.
Example C20_ex_intact_crlf :
  let s := [100;97;116;97;58;32;97;13;10;13;10]%N ++ ex_big in
  toolong_points 12 (stream_needs s) = [10%N] /\
  fst (read_run EntryRead (mkbc false 0 12) [] [s] CleanEOF None) = ([YEv (mkev [] [] [97%N]); YErr ETooLong], EndNormal) /\
  fst (read_run EntryRead (mkbc false 0 12) [] (map (fun b => [b]) s) CleanEOF None) = ([YEv (mkev [] [] [97%N]); YErr ETooLong], EndNormal) /\
  snd (run_lines gosse_read (w_init []) (fst (wlines (strip_bom (firstn 10 s))))) = [YEv (mkev [] [] [97%N])].
Proof. vm_compute. repeat split. Qed.

(* endless blank lines against a 16-byte Connection buffer with maxSize 0: refused after 16 bytes, byte-at-a-time *)
Example C20_ex_blank_lines :
  let r := read_run EntryConn (mkbc true 16 0) [] (repeat [10%N] 40) (ReadError (EReader 3)) None in
  fst (fst r) = [YErr ETooLong] /\ rd_pulled (p_rd (snd r)) = 16%N /\ bounded 16 (snd r).
Proof. vm_compute. repeat split; discriminate. Qed.

(* the scanner invariant is satisfiable: the initial state of every entry point satisfies it *)
Example C20_ex_inv :
  sc_inv (bound_of EntryConn (mkbc true 4 7)) (p_sc (make_parser EntryConn (mkbc true 4 7) (mkrd [ex_line] CleanEOF 0)))
         (p_rd (make_parser EntryConn (mkbc true 4 7) (mkrd [ex_line] CleanEOF 0))).
Proof. exact (proj1 (make_parser_inv EntryConn (mkbc true 4 7) [ex_line] CleanEOF)). Qed.

(* split_func: a mid-stream token ends with a blank line; at EOF the rest is a token *)
Example C20_ex_split :
  split_func (ex_line ++ [13;10;120]%N) false = SplitTok 10 (ex_line ++ [13;10]%N) /\
  wlines (ex_line ++ [13;10]%N) = ([[100;97;116;97;58;32;97]%N; []], []) /\
  split_func ex_line false = SplitMore /\ split_func ex_line true = SplitTok 8 ex_line.
Proof. vm_compute. repeat split. Qed.
