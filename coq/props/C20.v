(* C20 - parser memory is bounded by the configured maximum event size.
   Only statements closed by [exact]; proofs in theories/*Proofs.v. *)
From GoSse Require Import Base Lines FieldParser Whatwg Split Scanner Reader ReadLoop RunParse.

(* sanity: an 8-byte unterminated event against a limit of 8 is refused after 8 bytes, of 9 delivered *)
Example C20_model_runs :
  let r8 := read_run EntryRead (mkbc false 0 8) [] [[100;97;116;97;58;32;97;10]]%N CleanEOF None in
  let r9 := read_run EntryRead (mkbc false 0 9) [] [[100;97;116;97;58;32;97;10]]%N CleanEOF None in
  fst (fst r8) = [YErr ETooLong] /\ rd_pulled (p_rd (snd r8)) = 8%N /\
  fst (fst r9) = [YEv (mkev [] [] [97%N])].
Proof. vm_compute. repeat split. Qed.
