(* C15 - Message text round-trip and exact byte accounting.
   Statements only; proofs in theories/{MessageProofs,MessageApi}.v.
   [wire m] is the encoding (WriteTo / MarshalText / String are one function in the model;
   their agreement in the code is compared by the harness on every case), [write_to m script]
   is WriteTo against a writer whose i-th Write call follows the i-th verdict of [script],
   [unmarshal] is Message.UnmarshalText, [api_build ops] any message built through the public API. *)
From GoSse Require Import Base Lines Fields FieldParser Message MessageProofs MessageApi MessageStable.
From GoSse.Gen Require Import Params.

(* Every int64 Retry value has an encoding: the 13-byte digit buffer of writeRetry never overflows. *)
Theorem C15_encoding_total :
  forall ops, Forall retry_in_range ops -> exists w, wire (api_build ops) = Some w.
Proof. intros ops H. exact (wire_total _ (api_build_retry ops H)). Qed.

(* Round trip: for every API-built message (ID without NUL) with at least one written field,
   UnmarshalText (MarshalText m) succeeds and yields [roundtrip_of m] ... *)
Theorem C15_roundtrip :
  forall ops w, Forall retry_in_range ops ->
  (forall v, m_id (api_build ops) = Some v -> has_nul v = false) ->
  wire (api_build ops) = Some w -> w <> [] ->
  unmarshal w = UOk (roundtrip_of (api_build ops)).
Proof. exact api_roundtrip. Qed.

(* ... which has the same ID, type, the same ordered (line, isComment) chunks, and the retry
   value truncated to the millisecond (a non-positive or sub-millisecond Retry is not written
   and reads back as zero). *)
Theorem C15_roundtrip_same_fields :
  forall m,
  m_id (roundtrip_of m) = m_id m /\ m_type (roundtrip_of m) = m_type m /\
  m_chunks (roundtrip_of m) = m_chunks m /\
  m_retry (roundtrip_of m) = (Z.max 0 (millis_of (m_retry m)) * 1000000)%Z.
Proof. exact roundtrip_fields. Qed.

(* A message with nothing to write produces no bytes and WriteTo returns (0, nil), whatever the writer. *)
Theorem C15_nothing_to_write :
  forall m script,
  m_id m = None -> m_type m = None -> (millis_of (m_retry m) <= 0)%Z -> m_chunks m = [] ->
  wire m = Some [] /\ write_to m script = Some (0%nat, 0%N, []).
Proof. exact write_to_empty. Qed.

(* Byte accounting: for every script of writer verdicts (a failing Write accepts any k bytes of its
   argument and returns error e), WriteTo returns n = the number of bytes the writer accepted, those
   bytes are a prefix of the full encoding, the error is that of the FIRST failing Write (none: the
   whole encoding was written and the error is nil), and no Write happens after it. *)
Theorem C15_accounting :
  forall m script calls w,
  script_ok script -> write_calls m = Some calls -> wire m = Some w ->
  exists n e acc, write_to m script = Some (n, e, acc) /\
    n = length acc /\ (exists rest, w = acc ++ rest) /\
    match first_fail (length calls) script with
    | None => e = 0%N /\ acc = w
    | Some (i, k, e') =>
        e = e' /\ e <> 0%N /\ acc = concat (firstn i calls) ++ firstn k (nth i calls []) /\
        nth_error script i = Some (WFail k e) /\ (forall j, (j < i)%nat -> nth_error script j = Some WOk)
    end.
Proof. exact write_to_accounting. Qed.

(* non-vacuity *)
Definition c15_sample : list api_op :=
  [OpSetID [105; 49]; OpSetType [116]; OpSetRetry 1500000000%Z;
   OpAppend true [[99]]; OpAppend false [[97; 98; 10; 99; 100]; []]].
Example C15_sample_roundtrips :
  match wire (api_build c15_sample) with
  | Some w => negb (length w =? 0)%nat && match unmarshal w with UOk m => bytes_eqb (value (m_id m)) [105; 49] | _ => false end
  | None => false
  end = true.
Proof. vm_compute. reflexivity. Qed.
Example C15_sample_fault :
  write_to (api_build c15_sample) [WOk; WOk; WOk; WOk; WFail 2 7%N] = Some (15%nat, 7%N, [105; 100; 58; 32; 105; 49; 10; 101; 118; 101; 110; 116; 58; 32; 116]).
Proof. vm_compute. reflexivity. Qed.

(* The round trip is stable.  What UnmarshalText(MarshalText m) yields encodes to the very same bytes again
   (decode-then-encode is the identity on every encoding of an API-built message), it is its own round trip
   (only the sub-millisecond part of Retry is lost, once), and WriteTo on it makes exactly the calls it makes on m -
   so the byte accounting of C15_accounting carries over to decoded messages. *)
Theorem C15_roundtrip_stable :
  forall ops w, Forall retry_in_range ops ->
  (forall v, m_id (api_build ops) = Some v -> has_nul v = false) ->
  wire (api_build ops) = Some w -> w <> [] ->
  exists m', unmarshal w = UOk m' /\ wire m' = Some w /\ roundtrip_of m' = m' /\
             (forall script, write_to m' script = write_to (api_build ops) script).
Proof. exact roundtrip_stable. Qed.

Theorem C15_wire_of_roundtrip : forall m, wire (roundtrip_of m) = wire m.
Proof. exact wire_roundtrip. Qed.

Example C15_sample_stable :
  match wire (api_build c15_sample) with
  | Some w => match unmarshal w with UOk m => match wire m with Some w' => bytes_eqb w w' | None => false end | _ => false end
  | None => false
  end = true.
Proof. vm_compute. reflexivity. Qed.
