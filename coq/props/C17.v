(* C17 - a failing subscriber or replayer affects nobody else.
   Statements only; proofs in theories/JoeIsolate.v (on top of the C06 invariant and the C03
   history invariant).  All theorems are about the LTS JoeLts.step; the reachable-state theorems
   quantify over all label sequences from [init], i.e. over every choice of which subscribers fail
   at which of their Send/Flush calls and which Put/Replay calls return an error or panic, over
   all publish/subscribe interleavings. *)
From GoSse Require Import Base JoeLts JoeLocal JoeProj JoePub JoeInv JoeSafety JoeHist JoeDeliver JoeIsolate.
Local Open Scope nat_scope.

(* the steps that handle subscriber j's failure (its failing Send/Flush, done_j <- err) leave every
   other subscriber's record, the set of registered subscribers, the other subscribers' place in
   the running fan-out, and the global order untouched *)
Theorem C17_failure_is_local :
  forall s l s' j i,
  failure_step j l = true -> step s l = Some s' -> pc s' <> Panicked -> i <> j ->
  sub s' i = sub s i /\ subs s' = subs s /\ mem i (todo_of (pc s')) = mem i (todo_of (pc s)) /\ order s' = order s.
Proof. exact failure_local. Qed.

(* the removal that follows removes only the failing subscriber *)
Theorem C17_only_the_failing_one_is_removed :
  forall s s' j i p t,
  pc s = Removing p j t -> step s (LRemove j) = Some s' -> pc s' <> Panicked -> i <> j ->
  sub s' i = sub s i /\ mem i (subs s') = mem i (subs s) /\ mem i (todo_of (pc s')) = mem i (todo_of (pc s)).
Proof. exact failure_removal_local. Qed.

(* a subscriber removed for failure is one for which the loop recorded a failure (its own Send/Flush
   error, C06_recorded_failure_is_own), and it gets that error from Subscribe (C06_return_value) *)
Theorem C17_removed_for_failure :
  forall ls s i e,
  run init ls = Some s -> s_rem (sub s i) = Some (e, RFail) -> s_fail (sub s i) <> None.
Proof. exact removed_for_failure_run. Qed.

(* a subscriber whose own calls did not fail is never removed for failure and receives exactly what
   C03 says - that message and all later ones - whatever the other subscribers' writers answer:
   [due s i] mentions only the global order, i's topics and i's own registration window *)
Theorem C17_isolation :
  forall ls s i,
  run init ls = Some s -> s_fail (sub s i) = None ->
  (forall e, s_rem (sub s i) <> Some (e, RFail)) /\ sends (s_llog (sub s i)) = due s i.
Proof. exact healthy_unaffected_run. Qed.

(* Put returns an error: that Publish returns it ... *)
Theorem C17_put_error_returned :
  forall ls s p e r,
  run init ls = Some s -> In (p, VErr e) (puts s) -> p_pc (pub s p) = PRet r -> r = Some e.
Proof. exact put_error_returned_run. Qed.

(* ... and the message is still in the global order, hence delivered live like any other (C03) *)
Theorem C17_put_error_still_published :
  forall ls s p v, run init ls = Some s -> In (p, v) (puts s) -> In p (order s).
Proof. exact put_error_still_published_run. Qed.

(* what Publish returns: nil = the message was accepted; an error = Put's error for this message,
   or ErrProviderClosed for a message that was never accepted *)
Theorem C17_publish_result :
  forall ls s p r,
  run init ls = Some s -> p_pc (pub s p) = PRet r ->
  match r with
  | None => In p (order s)
  | Some e => In (p, VErr e) (puts s) \/ (e = E_CLOSED /\ ~ In p (order s))
  end.
Proof. exact publish_result_run. Qed.

(* the replayer panics in Put or Replay: it is switched off ... *)
Theorem C17_panic_disables :
  forall s l s',
  step s l = Some s' -> (exists p, l = LPut p VPanic) \/ (exists i, l = LReplayed i VPanic) -> rep s' = false.
Proof. exact panic_disables. Qed.

(* ... for good ... *)
Theorem C17_disabled_for_good :
  forall ls s s', run s ls = Some s' -> rep s = false -> rep s' = false.
Proof. exact rep_false_run. Qed.

(* ... later calls no longer use it: no Put and no Replay label is enabled any more ... *)
Theorem C17_no_replayer_call_after_panic :
  forall s, rep s = false ->
  (forall p v, step s (LPut p v) = None) /\ (forall i, step s (LReplay i) = None).
Proof. exact no_replayer_call. Qed.

(* ... and the call in which it panicked proceeds as if no replayer were configured: the message goes
   to the fan-out without an error being sent to Publish; the subscription is registered *)
Theorem C17_put_panic_goes_on :
  forall s p s1, step s (LPut p VPanic) = Some s1 -> step s1 (LPutRes p) = Some (set_pc s1 (ErrsReady p)).
Proof. exact put_panic_goes_on. Qed.

Theorem C17_replay_panic_registers :
  forall s i s1, step s (LReplayed i VPanic) = Some s1 -> pc s1 = Registering i /\ step s1 (LReg i) <> None.
Proof. exact replay_panic_registers. Qed.

(* non-vacuity: subscriber 0 fails on message 0, subscriber 1 (same topic) gets message 0 and the
   later message 1; Put fails for message 1 with error 101: Publish 1 returns 101, message 1 is
   delivered; Put panics for message 2: delivered, Publish returns nil, message 3 makes no Put call *)
Definition isolation_schedule : list label :=
  [LIdle;
   SubEnter 0 [0]; SubSend 0; LReplay 0; LReplayed 0 VOk; LReg 0; LIdle;
   SubEnter 1 [0]; SubSend 1; LReplay 1; LReplayed 1 VOk; LReg 1; LIdle;
   PubEnter 0 [0]; PubSend 0; LPut 0 VOk; LPutRes 0; LErrs 0;
   LSend 0 (VErr 100); LFail 0; LRemove 0; LSend 1 VOk; LFlush 1 VOk; LIdle; PubRecv 0; SubDone 0;
   PubEnter 1 [0]; PubSend 1; LPut 1 (VErr 101); LPutRes 1; LErrs 1; LSend 1 VOk; LFlush 1 VOk; LIdle; PubRecv 1;
   PubEnter 2 [0]; PubSend 2; LPut 2 VPanic; LPutRes 2; LErrs 2; LSend 1 VOk; LFlush 1 VOk; LIdle; PubRecv 2;
   PubEnter 3 [0]; PubSend 3; LErrs 3; LSend 1 VOk; LFlush 1 VOk; LIdle; PubRecv 3].

Example C17_example_isolation :
  match run init isolation_schedule with
  | Some s => s_pc (sub s 0) = SRet (Some 100) /\ sends (s_llog (sub s 0)) = [0]
              /\ sends (s_llog (sub s 1)) = [0; 1; 2; 3] /\ subs s = [1]
              /\ p_pc (pub s 0) = PRet None /\ p_pc (pub s 1) = PRet (Some 101)
              /\ p_pc (pub s 2) = PRet None /\ p_pc (pub s 3) = PRet None
              /\ rep s = false /\ puts s = [(0, VOk); (1, VErr 101); (2, VPanic)]
  | None => False
  end.
Proof. vm_compute. repeat split. Qed.
