(* C11 - Connect returns only for a reason: context, permanent error or retries exhausted.
   Statements only; proofs in theories/ConnectProofs.v, ConnectStep.v, ConnectTop.v, ConnectClass.v, ConnectCtx.v.
   [connect_run cfg script] is the model of Connection.Connect (see props/C10.v); its second
   component is Connect's return value: None while Connect is still running when the script
   is used up, Some RNil for nil, Some RCtx for the context's error, Some (RConn reason err) for
   *ConnectionError{Reason, Err}.  The error of a stream comes from the byte-level specification
   [Whatwg.interp gosse_conn]; [stream_error], [attempt_error] are written from the property text. *)
From GoSse Require Import Base Whatwg Backoff Connect ConnectProofs ConnectStep ConnectTop ConnectFacts ConnectClass ConnectCtx ConnectAgain RunRead.
From GoSse.Gen Require Import Params.

(* Connect never returns nil - whatever the streams contain, however they end, for every script
   (D3: a stream whose last chunk holds no field made it return nil). *)
Theorem C11_never_nil :
  forall cfg script, snd (connect_run cfg script) <> Some RNil.
Proof. exact never_nil. Qed.

(* Error identity.  What a Connection is handed for a stream is: events and retry fields, then
   EXACTLY ONE error, and that error is [stream_error body ending] ... *)
Theorem C11_error_identity :
  forall lid body en,
  exists ys, no_err ys /\ interp gosse_conn lid body en = ys ++ [YErr (stream_error body en)].
Proof. exact interp_conn_structure. Qed.

(* ... which is the reader's own error for a read error - after any bytes, mid-line included (D3b);
   cancellation inside Read is the case e = ECtx ... *)
Theorem C11_read_error_is_itself :
  forall body e, stream_error body (ReadError e) = e.
Proof. exact stream_error_read_error. Qed.

(* ... and for a clean end io.EOF, except ErrUnexpectedEOF exactly when the stream (after the BOM)
   is non-empty and its last byte is neither CR nor LF - a clean end in mid-line *)
Theorem C11_clean_end_error :
  forall body, stream_error body CleanEOF = if ends_mid_line (strip_bom body) then EUnexpectedEOF else EEOF.
Proof. exact stream_error_clean. Qed.

Theorem C11_mid_line :
  forall s, ends_mid_line s = true <-> exists pre b, s = pre ++ [b] /\ b <> LF /\ b <> CR.
Proof. exact ends_mid_line_spec. Qed.

(* The same through sse.Read (the specification in Read mode): events, then the reader's own error for
   a read error, ErrUnexpectedEOF only for a clean end in mid-line, and no error at all for a clean
   end after a terminated line. *)
Theorem C11_read_error_identity :
  forall lid body en,
  exists ys, no_err ys /\
    interp gosse_read lid body en = ys ++ match read_error body en with Some e => [YErr e] | None => [] end.
Proof. exact interp_read_structure. Qed.

(* Classification.  Whenever Connect returns r after n requests (and the context was not already
   done before the first one):
   - every attempt before the last one was retryable (a transport failure or a stream that ended
     with a non-context error) - so a validator error, a cancelled request and a cancelled read
     are followed by ZERO further attempts;
   - r is a "request reset failed" error (see C10_body), or it is decided by the last attempt a:
       a cancelled request or a stream ended by cancellation  -> the context's error,
       a rejected response                                   -> ConnectionError{validator's error},
       a retryable attempt with error err                    -> ConnectionError{err} - the LAST
         attempt's error - exactly when backoff.next() refused at that point, or the context's
         error when the context was cancelled during the wait that next() granted. *)
Theorem C11_classification :
  forall cfg script tr r,
  cc_cancel_before cfg = false ->
  connect_run cfg script = (tr, Some r) ->
  let n := length (requests tr) in
  (forall k a, (S k < n)%nat -> nth_error (map st_attempt script) k = Some a -> attempt_error a <> None) /\
  ((exists e, r = RConn RsReset e) \/
   exists st, nth_error script (n - 1) = Some st /\ (0 < n)%nat /\
     match attempt_error (st_attempt st) with
     | None => r = (match st_attempt st with ARejected e => RConn RsValidate (CE (EReader e)) | _ => RCtx end)
     | Some err =>
         exists c, last_next cfg script n = Some c /\
           match snd (bc_next (merge_defaults (cc_backoff cfg)) c (st_elapsed st) (st_u st)) with
           | None => r = err
           | Some w => wait_cancelled cfg w = true /\ r = RCtx
           end
     end).
Proof. exact run_classification. Qed.

(* the context's error before anything else, when the context is already done *)
Theorem C11_cancelled_before :
  forall cfg script, cc_cancel_before cfg = true -> connect_run cfg script = ([], Some RCtx).
Proof. exact run_cancel_before. Qed.

(* Connect returns the context's error IF AND ONLY IF the context was done where the code observes
   it, at the last request of the run: inside the request (Do fails with the context's error), inside
   the body read (Read returns the context's error - after any bytes, in mid-line too), or in the select
   of a wait that next() had granted.  (In particular a run that ends with a body-reset error did not
   observe a cancellation.) *)
Theorem C11_context_error_iff :
  forall cfg script tr r,
  cc_cancel_before cfg = false ->
  connect_run cfg script = (tr, Some r) ->
  (r = RCtx <-> ctx_observed cfg script (length (requests tr))).
Proof. exact run_ctx_iff. Qed.

(* ---- the same Connection connected again (see props/C10.v: [connect_runs], C10_again_call) -------- *)
(* no call of a run returns nil *)
Theorem C11_again_never_nil :
  forall cfg scripts o, In o (connect_runs cfg scripts) -> snd o <> Some RNil.
Proof. exact runs_never_nil. Qed.

(* A Connect call on a Connection in ANY state [s] (every later call of a run is one, C10_again_call): the
   classification of C11_classification, with the controller of the call starting anew and the ID the
   Connection carries. *)
Theorem C11_again_classification :
  forall cfg b s script tr r,
  connect_loop cfg b (call_state b s) script = (tr, Some r) ->
  let n := length (requests tr) in
  (forall k a, (S k < n)%nat -> nth_error (map st_attempt script) k = Some a -> attempt_error a <> None) /\
  ((exists e, r = RConn RsReset e) \/ decided_by_last cfg b (bc_new b) (cs_last_id s) script n r).
Proof. exact again_classification. Qed.

(* ---- non-vacuity -------------------------------------------------------------------------------- *)
Definition ex_cfg (max_retries : Z) : ccfg :=
  mkccfg (mkbackoff 1000 (mkrat 1 1) (mkrat (-1) 1) 0 0 max_retries) BNone true None false (Some 400000000%Z).
Definition ex_step (a : attempt) : step := mkstep a 0 (mkrat 0 1).
Definition ex_lf : bytes := [10].                                     (* D3: "\n" *)
Definition ex_data_cut : bytes := [100; 97; 116; 97; 58; 32; 97].     (* D3b: "data: a" *)
Definition ex_retry_1s : bytes := [114; 101; 116; 114; 121; 58; 32; 49; 48; 48; 48; 10; 10]. (* "retry: 1000\n\n" *)

(* "\n" then EOF is retried (it consumes the one retry of its series: the counter was reset when the
   response was validated); with MaxRetries 1 the transport failure that follows is returned *)
Example C11_example_exhausted :
  connect_run (ex_cfg 1) (map ex_step [AStream ex_lf CleanEOF; ATransportErr 7; ATransportErr 8; ATransportErr 9]) =
  ([TRequest None None; TOnRetry (RConn RsLost (CE EEOF)) 1000;
    TRequest None None], Some (RConn RsConnect (CE (EReader 7)))).
Proof. vm_compute. reflexivity. Qed.

(* a read error in mid-line is itself; a clean end in mid-line is ErrUnexpectedEOF; cancellation in
   mid-line is the context's error; MaxRetries < 0: returned at once *)
Example C11_example_identity :
  snd (connect_run (ex_cfg (-1)) [ex_step (AStream ex_data_cut (ReadError (EReader 5)))]) = Some (RConn RsLost (CE (EReader 5))) /\
  snd (connect_run (ex_cfg (-1)) [ex_step (AStream ex_data_cut CleanEOF)]) = Some (RConn RsLost (CE EUnexpectedEOF)) /\
  snd (connect_run (ex_cfg (-1)) [ex_step (AStream ex_data_cut (ReadError ECtx))]) = Some RCtx /\
  snd (connect_run (ex_cfg (-1)) [ex_step (AStream ex_lf CleanEOF)]) = Some (RConn RsLost (CE EEOF)).
Proof. vm_compute. repeat split; reflexivity. Qed.

(* validator error at once; cancellation during a long wait (retry: 1000 -> 1 s >= patience) *)
Example C11_example_permanent_and_wait :
  connect_run (ex_cfg 0) (map ex_step [ATransportErr 1; ARejected 2; ATransportErr 3]) =
  ([TRequest None None; TOnRetry (RConn RsConnect (CE (EReader 1))) 1000; TRequest None None],
   Some (RConn RsValidate (CE (EReader 2)))) /\
  connect_run (ex_cfg 0) (map ex_step [AStream ex_retry_1s CleanEOF; ATransportErr 3]) =
  ([TRequest None None; TEvent (mkev [] [] []); TOnRetry (RConn RsLost (CE EEOF)) 1000000000], Some RCtx).
Proof. vm_compute. split; reflexivity. Qed.
