(* C13 - each event reaches exactly the callbacks subscribed to its type.
   Only statements closed by [exact]; the model is theories/Callbacks.v (registry of
   client_connection.go:30-160 as association lists, every operation atomic because every
   method body holds mu), the proofs are in theories/CallbacksProofs.v, CallbacksTheorems.v.

   Vocabulary: an operation history is a list of
     SubEvent t l   SubscribeEvent(t, l) / SubscribeMessages (t = "")
     SubAll l       SubscribeToAll(l)
     Remove h       a call of the remover that captured the handle h = (kind, type, id)
     Dispatch t     an event of type t arrives
   [trace reg_empty ops] is what the registry code does: the handle a subscription
   returns, the list of (handle, label) a Dispatch invokes (in iteration order).
   [expected ops t] is the specification: the subscriptions added in [ops] with type t or
   to-all and not removed since, the i-th subscription of the history having id i.
   Data races are NOT the subject of these theorems (race detector, see the harness). *)
From Coq Require Import Permutation Sorted.
From GoSse Require Import Base Callbacks CallbacksProofs CallbacksTheorems CallbacksCounts CallbacksLts CallbacksLtsProofs.
Local Open Scope nat_scope.

(* For every history and every Dispatch in it: the invoked callbacks are, as a multiset,
   exactly the subscriptions in force for the event's type (exact type match, or to-all) -
   so are their labels - and no subscription is invoked twice for one event. *)
Theorem C13_routing :
  forall ops i t,
    nth_error ops i = Some (Dispatch t) ->
    exists c, nth_error (trace reg_empty ops) i = Some (OInvoked c)
              /\ Permutation c (expected (firstn i ops) t)
              /\ Permutation (map snd c) (map snd (expected (firstn i ops) t))
              /\ NoDup (map fst c).
Proof. exact routing. Qed.

(* After Remove h (h handed out earlier in the history) no later Dispatch invokes h's
   callback, whatever happens in between - including new subscriptions of the same type
   with the same label, and further calls of the same remover. *)
Theorem C13_remove :
  forall ops1 h ops2 j c,
    In h (issued (trace reg_empty ops1)) ->
    length ops1 < j ->
    nth_error (trace reg_empty (ops1 ++ Remove h :: ops2)) j = Some (OInvoked c) ->
    ~ In h (map fst c).
Proof. exact remove_never_again. Qed.

(* A remover whose subscription is not in force - called a second time, or a stale one
   called after its type was subscribed again - leaves the registry exactly as it was. *)
Theorem C13_remove_stale_noop :
  forall ops h, ~ In h (live_handles ops) ->
                remove h (run_ops reg_empty ops) = run_ops reg_empty ops.
Proof. exact remove_stale_noop. Qed.

(* A remover removes its own subscription and nothing else: right after it an event of any
   type reaches the subscriptions it reached before, minus that one. *)
Theorem C13_remove_only_that :
  forall ops h t,
    Permutation (dispatch t (run_ops reg_empty (ops ++ [Remove h]))) (others h (expected ops t)).
Proof. exact remove_only_that. Qed.

(* ids are never reused: the handles handed out in one history have pairwise distinct ids
   (so a stale remover can never hit a later subscription). *)
Theorem C13_ids_never_reused :
  forall ops, NoDup (map handle_id (issued (trace reg_empty ops))).
Proof. exact ids_never_reused. Qed.

(* Every callback sees events in stream order, each at most once: in the invocation log of
   a history (in invocation order) the positions of the Dispatches that invoked the
   subscription h are strictly increasing. *)
Theorem C13_order :
  forall ops h, StronglySorted lt (seen_by h (inv_log ops)).
Proof. exact order. Qed.

(* ... and that log is exactly the invocations of the Dispatch outputs *)
Theorem C13_order_log_complete :
  forall ops j e,
    In (j, e) (inv_log ops) <->
    exists c, nth_error (trace reg_empty ops) j = Some (OInvoked c) /\ In e c.
Proof. exact inv_log_complete. Qed.

(* Nothing of a removed subscription is retained: after every history the sizes of the registry
   (callbacks per type in total, to-all callbacks, types - what VerifCallbackCount reports) are
   those of the set of subscriptions in force. *)
Theorem C13_nothing_retained :
  forall ops,
    counts (run_ops reg_empty ops) =
    (length (filter is_typed (live ops)), length (filter is_all (live ops)), length (live_types (live ops))).
Proof. exact counts_are_live. Qed.

(* ---- all schedules ---------------------------------------------------------------------------
   theories/CallbacksLts.v: the registry with its lock as a transition system.  dispatch holds the
   read lock until after the callbacks have run; a subscription or a remover call of ANOTHER
   goroutine is one atomic step [AOp] enabled only while no dispatch holds the lock; a dispatch
   is [ABegin t], one [AInvoke] per callback, [AEnd].  [crun cs_init acts = Some st] says the
   schedule [acts] is possible; the theorems hold for every possible schedule. *)

(* Under every schedule the registry and the invocations performed are exactly those of the
   atomic history the schedule amounts to ([proj acts]: operations and events in the order in
   which they took effect) - so C13_routing, C13_remove*, C13_order hold for every interleaving;
   in the middle of a dispatch: the log plus what that dispatch still has to invoke. *)
Theorem C13_schedules_atomic :
  forall acts st,
    crun cs_init acts = Some st ->
    c_reg st = run_ops reg_empty (proj acts) /\
    c_log st ++ map (fun e => (c_ev st, e)) (pending_list st) = tag_events 0 (trace reg_empty (proj acts)).
Proof. exact schedule_is_atomic_history. Qed.

(* Under every schedule: once a remover has returned, no invocation performed afterwards is of
   its subscription - not by the dispatch it had to wait for, not by any later one. *)
Theorem C13_schedules_remove_final :
  forall a1 h a2 st,
    In h (issued (trace reg_empty (proj a1))) ->
    crun cs_init (a1 ++ AOp (Remove h) :: a2) = Some st ->
    exists mid new, crun cs_init (a1 ++ [AOp (Remove h)]) = Some mid /\
                    c_log st = c_log mid ++ new /\
                    Forall (fun x : nat * sub => fst (snd x) <> h) new.
Proof. exact schedule_remove_final. Qed.

(* non-vacuity of the schedules: a remover cannot take effect in the middle of a dispatch
   (the step is not enabled), it can right after it *)
Example C13_witness_remover_waits :
  crun cs_init [AOp (SubEvent [120] 1); AOp (SubAll 2); ABegin [120]; AInvoke; AOp (Remove (HAll 1))]%N = None
  /\ option_map c_log
       (crun cs_init [AOp (SubEvent [120] 1); AOp (SubAll 2); ABegin [120]; AInvoke; AInvoke; AEnd;
                      AOp (Remove (HAll 1)); ABegin [120]; AInvoke; AEnd]%N)
     = Some [(1, (HEvent [120%N] 0, 1%N)); (1, (HAll 1, 2%N)); (2, (HEvent [120%N] 0, 1%N))].
Proof. vm_compute. split; reflexivity. Qed.

(* non-vacuity: the stale-remover history of the kind the tests never run.
   A subscribes to "x" (id 0), is removed, B subscribes to "x" (id 1), A's remover is
   called again, an "x" event arrives: B and only B is invoked; an event of another type
   reaches nobody; a to-all callback sees both. *)
Example C13_witness_stale_remover :
  trace reg_empty [SubEvent [120] 1; Remove (HEvent [120] 0); SubEvent [120] 2;
                   Remove (HEvent [120] 0); Dispatch [120]; Dispatch [121];
                   SubAll 3; Dispatch [120]; Dispatch []]%N
  = [OHandle (HEvent [120] 0); ONone; OHandle (HEvent [120] 1); ONone;
     OInvoked [(HEvent [120] 1, 2)]; OInvoked [];
     OHandle (HAll 2); OInvoked [(HEvent [120] 1, 2); (HAll 2, 3)]; OInvoked [(HAll 2, 3)]]%N.
Proof. vm_compute. reflexivity. Qed.

Example C13_witness_order :
  seen_by (HAll 0) (inv_log [SubAll 7; Dispatch [97]; Dispatch []; SubEvent [] 8; Dispatch []]%N) = [1; 2; 4].
Proof. vm_compute. reflexivity. Qed.
