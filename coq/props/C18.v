(* C18 - replayers retain no evicted or expired messages.  "Reachable from the
   replayer" is modelled as "stored in a slot of its ring buffer" (slots are explicit
   in the model: [buf], [None] = the Go zero value). *)
From GoSse Require Import Base Fields Queue Replayers Fifo FifoFacts ReplayersProofs ReplayersTop.
From GoSse.Gen Require Import Params.

(* FiniteReplayer: after every operation of every history, every occupied slot holds one
   of the entries of the abstract buffer, which has at most N entries (the last N accepted,
   C08_buffer_is_last_N); the ring itself has exactly N slots. *)
Theorem C18_finite_slots :
  forall n auto ops, (finite_min_count <= n)%nat -> (N.of_nat (length ops) <= two64)%N ->
  exists s tr, fr_new n auto = Some s /\ fr_trace s ops = (tr, true) /\
    Forall2 (fun (p : rout * fstate) sp' =>
               (forall i v, nth_error (buf (f_q (snd p))) i = Some (Some v) -> In v (fs_l sp')) /\
               (length (fs_l sp') <= n)%nat /\ length (buf (f_q (snd p))) = n)
            tr (fs_states (fs_new n auto) ops).
Proof. exact finite_slots_top. Qed.

(* ValidReplayer: after every operation, every occupied slot (whatever the buffer's
   growth/wrap/shrink history) holds an entry of the abstract buffer ... *)
Theorem C18_valid_slots :
  forall ttl auto gci ops, (0 < ttl)%Z -> (N.of_nat (length ops) <= two64)%N ->
  exists s tr, vr_new ttl auto gci = Some s /\ vr_trace s ops = (tr, true) /\
    Forall2 (fun (p : rout * vstate) sp' =>
               forall i v, nth_error (buf (v_q (snd p))) i = Some (Some v) -> In v (vs_l sp'))
            tr (vs_states (vs_new ttl auto gci) ops).
Proof. exact valid_slots_top. Qed.

(* ... and (non-decreasing clock) right after an explicit GC at [now] the abstract buffer
   holds no entry with exp <= now, *)
Theorem C18_valid_gc_removes_expired :
  forall ttl auto gci ops now t, (0 < ttl)%Z -> clock_mono t ops ->
  Forall (fun e => (now < e_exp e)%Z) (vs_l (vs_gc (vs_after (vs_new ttl auto gci) ops) now)).
Proof. exact valid_gc_removes_expired. Qed.

(* nor after the collection a Put triggers once GCInterval has passed since the last one *)
Theorem C18_valid_put_gc_removes_expired :
  forall ttl auto gci ops now t m_id tok topics,
  (0 < ttl)%Z -> clock_mono t ops -> topics <> [] ->
  let s := vs_after (vs_new ttl auto gci) ops in
  let lastgc := match vs_lastgc s with Some l => l | None => now end in
  (0 < vs_gci s)%Z -> (vs_gci s <= now - lastgc)%Z ->
  Forall (fun e => (now < e_exp e)%Z) (vs_l (fst (vs_put s now m_id tok topics))).
Proof. exact valid_put_gc_removes_expired. Qed.

Example C18_example_shrink :
  (* 5 puts grow the ring to 8 slots; after everything expired a GC leaves 4 empty slots *)
  let ops := [VPut 0 None 1 [[]]; VPut 0 None 2 [[]]; VPut 0 None 3 [[]]; VPut 0 None 4 [[]]; VPut 0 None 5 [[]]; VGC 100] in
  match vr_new 10 true (Some 0%Z) with
  | Some s => map (fun p : rout * vstate => (length (buf (v_q (snd p))), count (v_q (snd p)))) (fst (vr_trace s ops)) =
              [(4, 1); (4, 2); (4, 3); (4, 4); (8, 5); (4, 0)]%nat
  | None => False
  end.
Proof. vm_compute. reflexivity. Qed.

Example C18_example_interval_lowered :
  (* GCInterval 25, lowered to 1 after the first Put (the histories [ops] of the theorems above contain such
     assignments of the exported field: [VSetGCI]); the Put at 10 = 0 + ttl is then due and collects the
     first event; without the assignment it is not due *)
  let ops := [VPut 0 None 1 [[]]; VSetGCI 0 1; VPut 10 None 2 [[]]] in
  match vr_new 10 true (Some 25%Z) with
  | Some s => map (fun p : rout * vstate => count (v_q (snd p))) (fst (vr_trace s ops)) = [1; 1; 1]%nat /\
              map (fun p : rout * vstate => count (v_q (snd p)))
                  (fst (vr_trace s [VPut 0 None 1 [[]]; VPut 10 None 2 [[]]])) = [1; 2]%nat
  | None => False
  end.
Proof. vm_compute. split; reflexivity. Qed.
