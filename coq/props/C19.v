(* C19 - Publishing never mutates the caller's message; clones are independent.
   Statements only; proofs in theories/SliceHeapProofs.v.  [hrun ops] runs a sequence of
   operations (AppendData/AppendComment, field assignments, Clone, reset, Put with automatic IDs)
   on a family of messages whose chunk slices live in an explicit heap of backing arrays with
   Go's append semantics (in place when len < cap, else a fresh array of ANY sufficient capacity -
   the capacity is part of the operation, so the statement holds for every choice the runtime
   makes); [vrun ops] runs the same operations on immutable values. *)
From GoSse Require Import Base Fields Queue Message SliceHeap SliceHeapProofs Replayers Fifo FifoFacts.

(* After every operation sequence every member of the family reads from the heap exactly the
   chunks (and fields) it would hold were slices immutable values: no aliasing is observable. *)
Theorem C19_heap_is_value_semantics :
  forall ops, map (view (fst (hrun ops))) (snd (hrun ops)) = vrun ops.
Proof. exact heap_is_value_semantics. Qed.

(* Hence: whatever one operation does to its target (or by adding a clone / a stored copy), every
   OTHER member - original, clone, clone of a clone - encodes to what it encoded before. *)
Theorem C19_others_unchanged :
  forall ops o j, (j < length (snd (hrun ops)))%nat -> hop_target o <> Some j ->
  view (fst (hrun (ops ++ [o]))) (nth j (snd (hrun (ops ++ [o]))) hmsg_empty)
  = view (fst (hrun ops)) (nth j (snd (hrun ops)) hmsg_empty).
Proof. exact others_unchanged. Qed.

(* Put with automatic IDs sets the ID on a copy: the family is the old one (argument included,
   untouched) plus the stored copy, which has the argument's chunks/type/retry and the new ID. *)
Theorem C19_put_does_not_modify_argument :
  forall ops t id m, nth_error (vrun ops) t = Some m ->
  vrun (ops ++ [HPutAuto t id]) = vrun ops ++ [mkm (m_chunks m) (Some id) (m_type m) (m_retry m)].
Proof. exact put_auto_pure. Qed.

(* One message (without an ID of its own, as Put requires in this mode) published k times gets k
   accepted publications with the consecutive IDs c, c+1, ... - FiniteReplayer and ValidReplayer. *)
Theorem C19_same_message_k_times_finite :
  forall k s c tok topics, topics <> [] -> fs_next s = Some c ->
  fs_put_k s k tok topics = map (fun i => PutOk (format_uint i)) (n_seq c k).
Proof. exact same_message_k_times. Qed.
Theorem C19_same_message_k_times_valid :
  forall nows s c tok topics, topics <> [] -> vs_next s = Some c ->
  vs_put_k s (length nows) nows tok topics = map (fun i => PutOk (format_uint i)) (n_seq c (length nows)).
Proof. exact same_message_k_times_valid. Qed.

Local Open Scope nat_scope.
(* non-vacuity: a clone taken while the original has spare capacity (3 chunks in an array of 4);
   both are then appended to; nobody sees the other's line *)
Definition c19_sample : list hop :=
  [HAppend 0 [(mkc [97%N] false, 1); (mkc [98%N] false, 2); (mkc [99%N] false, 4)]; HClone 0;
   HAppend 1 [(mkc [120%N] false, 8)]; HAppend 0 [(mkc [121%N] true, 8)]; HClone 0; HAppend 2 [(mkc [122%N] false, 8)]].
Example C19_sample_shapes :
  map (fun m => (s_arr (hm_s m), s_len (hm_s m), s_cap (hm_s m))) (snd (hrun c19_sample))
  = [(2, 4, 4); (3, 4, 8); (4, 5, 8)].
Proof. vm_compute. reflexivity. Qed.
Example C19_sample_contents :
  map (fun m => map c_content (m_chunks m)) (vrun c19_sample)
  = [[[97]; [98]; [99]; [121]]; [[97]; [98]; [99]; [120]]; [[97]; [98]; [99]; [121]; [122]]]%N.
Proof. vm_compute. reflexivity. Qed.
