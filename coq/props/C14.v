(* C14 - a set EventID/EventType is always a single line.
   Only statements closed by [exact]; proofs live in theories/FieldsProofs.v. *)
From GoSse Require Import Base Lines Fields FieldsProofs.

(* NewID/NewType/ID/Type, UnmarshalText: a value that reports IsSet has no CR/LF *)
Theorem C14_new_field_single_line :
  forall v f e, new_field v = (f, e) -> is_set f = true -> no_nl (value f).
Proof. exact new_field_single. Qed.

(* ... and an input containing CR or LF leaves the value unset and reports an error *)
Theorem C14_new_field_rejects_multiline :
  forall v, ~ no_nl v -> new_field v = (None, true).
Proof. exact new_field_reject. Qed.

(* single-line inputs are accepted unchanged (the guard rejects nothing else) *)
Theorem C14_new_field_accepts_single_line :
  forall v, no_nl v -> new_field v = (Some v, false).
Proof. exact new_field_accept. Qed.

(* UnmarshalJSON: whatever string the JSON document decodes to *)
Theorem C14_unmarshal_json_single_line :
  forall doc decoded f e, unmarshal_json doc decoded = (f, e) -> is_set f = true -> no_nl (value f).
Proof. exact unmarshal_json_single. Qed.

(* SQL Scan: every driver value *)
Theorem C14_scan_single_line :
  forall src f e, scan src = (f, e) -> is_set f = true -> no_nl (value f).
Proof. exact scan_single. Qed.

(* the Last-Event-ID header parsed by Upgrade *)
Theorem C14_upgrade_single_line :
  forall h, is_set (upgrade_id h) = true -> no_nl (value (upgrade_id h)).
Proof. exact upgrade_id_single. Qed.

Theorem C14_upgrade_rejects_multiline :
  forall v rest, ~ no_nl v -> upgrade_id (v :: rest) = None.
Proof. exact upgrade_id_reject. Qed.

(* non-vacuity: a multi-line input exists and is rejected; a single-line one is accepted *)
Example C14_witness_reject : scan (SrcString [97; 10; 100]) = (None, true).
Proof. vm_compute. reflexivity. Qed.
Example C14_witness_accept : is_set (fst (scan (SrcBytes [97; 58; 32]))) = true.
Proof. vm_compute. reflexivity. Qed.

(* ---- the encoding side of message_fields.go: no detour turns a value into another one --------------
   [field_wf f] = "single-line when set" - what every route above produces (C14_routes_wf).  A set value
   survives MarshalText -> UnmarshalText, any value (set or unset) survives Value -> Scan (handed back as a
   string or as []byte) and MarshalJSON -> UnmarshalJSON (for every document [enc] that is not the null literal and
   that encoding/json decodes back to the value); an unset value has no text form. *)
Theorem C14_routes_wf :
  (forall v, field_wf (fst (new_field v))) /\ (forall src, field_wf (fst (scan src))) /\
  (forall d s, field_wf (fst (unmarshal_json d s))) /\ (forall h, field_wf (upgrade_id h)).
Proof. exact (conj new_field_wf (conj scan_wf (conj unmarshal_json_wf upgrade_id_wf))). Qed.

Theorem C14_text_roundtrip :
  forall f, field_wf f -> is_set f = true -> exists b, marshal_text f = Some b /\ unmarshal_text b = (f, false).
Proof. exact text_roundtrip. Qed.

Theorem C14_value_scan_roundtrip :
  forall f, field_wf f -> scan (field_value f) = (f, false) /\ scan (field_value_bytes f) = (f, false).
Proof. exact value_scan_roundtrip. Qed.

Theorem C14_json_roundtrip :
  forall f enc, field_wf f -> (is_set f = true -> bytes_eqb enc json_null = false) ->
  unmarshal_json (marshal_json f enc) (if is_set f then Some (value f) else None) = (f, false).
Proof. exact json_roundtrip. Qed.

Example C14_witness_roundtrip :
  scan (field_value (fst (new_field [97; 58; 32]))) = (Some [97; 58; 32], false) /\
  marshal_text (fst (new_field [97; 10])) = None.
Proof. vm_compute. split; reflexivity. Qed.
