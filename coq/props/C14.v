(* C14 - a set EventID/EventType is always a single line.
   Only statements closed by [exact]; proofs live in theories/FieldsProofs.v. *)
From GoSse Require Import Base Lines Fields FieldsProofs.

(* NewID/NewType/ID/Type, UnmarshalText: a value that reports IsSet has no CR/LF *)
Theorem C14_new_field_single_line :
  forall v f e, new_field v = (f, e) -> is_set f = true -> no_nl (value f).
Proof. exact new_field_single. Qed.

(* ... and an input containing CR or LF leaves the value unset and reports an error *)
Theorem C14_new_field_rejects_multiline :
  forall v, ~ no_nl v -> new_field v = (None, true).
Proof. exact new_field_reject. Qed.

(* single-line inputs are accepted unchanged (the guard rejects nothing else) *)
Theorem C14_new_field_accepts_single_line :
  forall v, no_nl v -> new_field v = (Some v, false).
Proof. exact new_field_accept. Qed.

(* UnmarshalJSON: whatever string the JSON document decodes to *)
Theorem C14_unmarshal_json_single_line :
  forall doc decoded f e, unmarshal_json doc decoded = (f, e) -> is_set f = true -> no_nl (value f).
Proof. exact unmarshal_json_single. Qed.

(* SQL Scan: every driver value *)
Theorem C14_scan_single_line :
  forall src f e, scan src = (f, e) -> is_set f = true -> no_nl (value f).
Proof. exact scan_single. Qed.

(* the Last-Event-ID header parsed by Upgrade *)
Theorem C14_upgrade_single_line :
  forall h, is_set (upgrade_id h) = true -> no_nl (value (upgrade_id h)).
Proof. exact upgrade_id_single. Qed.

Theorem C14_upgrade_rejects_multiline :
  forall v rest, ~ no_nl v -> upgrade_id (v :: rest) = None.
Proof. exact upgrade_id_reject. Qed.

(* non-vacuity: a multi-line input exists and is rejected; a single-line one is accepted *)
Example C14_witness_reject : scan (SrcString [97; 10; 100]) = (None, true).
Proof. vm_compute. reflexivity. Qed.
Example C14_witness_accept : is_set (fst (scan (SrcBytes [97; 58; 32]))) = true.
Proof. vm_compute. reflexivity. Qed.
