(* C10 - reconnects carry the last received event ID and a fresh request body.
   Statements only; proofs in theories/ConnectProofs.v, ConnectStep.v, ConnectTop.v, ConnectBody.v, ConnectAgain.v.
   [connect_run cfg script] is the model of Connection.Connect (Connect.v, after
   client_connection.go:128-277): its trace lists every request the RoundTripper sees (Last-Event-ID
   header, which generation of the body), every dispatched event and every OnRetry call.  The script
   - per attempt: transport failure / cancelled request / rejected response / accepted response whose
   body delivers any bytes and ends cleanly, with a read error or by cancellation; the clock and RNG
   readings of backoff.next(); when the context is cancelled - is universally quantified.
   What a Connection does with a body is the byte-level SPECIFICATION [Whatwg.interp gosse_conn]
   (property C01 ties the real parser to it); [id_after], [header_of] are written from the property
   text. *)
From GoSse Require Import Base Whatwg Backoff Connect ConnectProofs ConnectStep ConnectTop ConnectFacts ConnectBody ConnectAgain.
From GoSse.Gen Require Import Params.

(* The Last-Event-ID header of attempt k+2 (any k: at least one attempt precedes it) is
   header_of (the ID after the first k+1 attempts): present and equal to that ID when it is
   non-empty, absent when it is empty - for every script, whatever the request carried initially. *)
Theorem C10_header :
  forall cfg script tr r k h bd,
  connect_run cfg script = (tr, r) ->
  nth_error (requests tr) (S k) = Some (h, bd) ->
  h = header_of (id_after [] (firstn (S k) script)).
Proof. exact run_header_nth. Qed.

(* the same for the whole list of requests: the headers seen are a prefix of the specified ones (the
   first request carries what the caller put there) *)
Theorem C10_headers :
  forall cfg script tr r,
  connect_run cfg script = (tr, r) ->
  exists n, map fst (requests tr) = firstn n (spec_headers_run cfg script).
Proof. exact run_headers. Qed.

(* [id_after]: the ID is that of the most recently dispatched event of the most recent stream that
   dispatched one ... *)
Theorem C10_id_of_last_dispatched_event :
  forall lid body en evs e,
  events_of (interp gosse_conn lid body en) = evs ++ [e] -> id_after_attempt lid (AStream body en) = ev_id e.
Proof. exact id_after_last_event. Qed.

(* ... it persists across any attempt that is not an accepted stream (transport failure, cancelled
   request, rejected response) and across streams that dispatch nothing (e.g. an id field in an event
   that was cut off before its blank line) *)
Theorem C10_id_persists_across_failures :
  forall lid a, (forall body en, a <> AStream body en) -> id_after_attempt lid a = lid.
Proof. exact id_after_non_stream. Qed.

Theorem C10_id_persists_without_dispatch :
  forall lid body en,
  events_of (interp gosse_conn lid body en) = [] -> id_after_attempt lid (AStream body en) = lid.
Proof. exact id_after_no_event. Qed.

(* A request body is re-obtained through GetBody for every retry: request number j (from 0) carries
   the j-th GetBody result (the original for j = 0); requests without a body never get one; a missing
   GetBody ends Connect with ErrNoGetBody after the first request, a GetBody that starts failing after
   [after] calls ends it with GetBody's own error after request number [after]; nothing else ever
   yields a "request reset failed" error; and with a body but no GetBody, Connect does return. *)
Theorem C10_body :
  forall cfg script tr r,
  connect_run cfg script = (tr, r) ->
  match cc_body cfg with
  | BNone | BNoBody =>
      map snd (requests tr) = repeat None (length (requests tr)) /\ (forall e, r <> Some (RConn RsReset e))
  | BBody g =>
      map snd (requests tr) = map Some (seq 0 (length (requests tr))) /\
      match g with
      | GBOk => forall e, r <> Some (RConn RsReset e)
      | GBNone =>
          (length (requests tr) <= 1)%nat /\
          (forall e, r = Some (RConn RsReset e) -> e = CNoGetBody /\ length (requests tr) = 1%nat) /\
          (script <> [] -> r <> None)
      | GBFails after e0 =>
          (length (requests tr) <= S after)%nat /\
          (forall e, r = Some (RConn RsReset e) -> e = CE (EReader e0) /\ length (requests tr) = S after)
      end
  end.
Proof. exact run_bodies. Qed.

(* ---- the same Connection connected again --------------------------------------------------------
   Connect may return for a reason other than the context (retries exhausted, MaxRetries < 0, a validator
   or body-reset error) and be CALLED AGAIN on the same *Connection.  [connect_runs cfg scripts] (Connect.v)
   is that: one script per call, each call from the Connection as the previous call left it (lastEventID,
   isRetry, the request's header and body - [connect_loop_st] returns it) with a backoff controller of its
   own; a further call is made while the last one returned something else than the context's error.
   [all_requests] lists the requests of all calls in order, [attempts_made] the script steps they answer. *)

(* one script: the run is the single-call model of the theorems above *)
Theorem C10_again_single :
  forall cfg script, connect_runs cfg [script] = [connect_run cfg script].
Proof. exact runs_single. Qed.

(* Request number k+2 counted over ALL calls - in particular the FIRST request of a later call - carries
   header_of (the ID after the k+1 attempts made before it, whichever call made them) *)
Theorem C10_again_header :
  forall cfg scripts k h bd,
  cc_cancel_before cfg = false ->
  let outs := connect_runs cfg scripts in
  nth_error (all_requests outs) (S k) = Some (h, bd) ->
  h = header_of (id_after [] (firstn (S k) (attempts_made scripts outs))).
Proof. exact runs_header_nth. Qed.

(* the headers of all calls are exactly those specified for ONE call over the attempts made *)
Theorem C10_again_headers :
  forall cfg scripts,
  cc_cancel_before cfg = false ->
  let outs := connect_runs cfg scripts in
  map fst (all_requests outs) = spec_headers_run cfg (attempts_made scripts outs).
Proof. exact runs_headers. Qed.

(* Request number j (from 0, over ALL calls) carries the j-th GetBody result: a consumed body is never
   sent again, not by the first request of a later call either; requests without a body never get one
   and never fail on it; with a body but no GetBody there is one request in all and every body-reset
   error is ErrNoGetBody; a GetBody that fails after [after] calls allows [after]+1 requests in all and
   every body-reset error is GetBody's own. *)
Theorem C10_again_body :
  forall cfg scripts,
  let outs := connect_runs cfg scripts in
  match cc_body cfg with
  | BNone | BNoBody =>
      map snd (all_requests outs) = repeat None (length (all_requests outs)) /\ reset_results outs = []
  | BBody g =>
      map snd (all_requests outs) = map Some (seq 0 (length (all_requests outs))) /\
      match g with
      | GBOk => reset_results outs = []
      | GBNone => (length (all_requests outs) <= 1)%nat /\ forall e, In e (reset_results outs) -> e = CNoGetBody
      | GBFails after e0 =>
          (length (all_requests outs) <= S after)%nat /\ forall e, In e (reset_results outs) -> e = CE (EReader e0)
      end
  end.
Proof. exact runs_bodies. Qed.

(* a later call on a Connection whose body has no GetBody: ErrNoGetBody at once, nothing is requested *)
Theorem C10_again_no_getbody :
  forall cfg b s script,
  cc_body cfg = BBody GBNone -> cs_is_retry s = true ->
  connect_loop cfg b (call_state b s) script = ([], Some (RConn RsReset CNoGetBody)).
Proof. exact again_no_getbody. Qed.

(* every call after the first is one Connect call on a Connection with isRetry set, whose controller is new *)
Theorem C10_again_call :
  forall cfg scripts k tr r,
  nth_error (connect_runs cfg scripts) (S k) = Some (tr, r) ->
  exists sk sc, nth_error scripts (S k) = Some sc /\ cs_is_retry sk = true /\
                connect_loop cfg (merge_defaults (cc_backoff cfg)) (call_state (merge_defaults (cc_backoff cfg)) sk) sc = (tr, r).
Proof. exact runs_nth. Qed.

(* ---- non-vacuity: a concrete run -------------------------------------------------------------- *)
Definition b_ (s : list N) : bytes := s.
(* "id: 1\n\n" ; failure ; "id\n\n" (empty id: resets) ; "id: a<NUL>b\n\ndata: x\n\n" (NUL id ignored, event
   dispatched with the current - empty - ID) ; "id: 7\ndata: cut" ending with an error (not dispatched) ;
   "id: 9\n\n" ; one more attempt *)
Definition ex_id1 : bytes := [105; 100; 58; 32; 49; 10; 10].
Definition ex_id_empty : bytes := [105; 100; 10; 10].
Definition ex_id_nul : bytes := [105; 100; 58; 32; 97; 0; 98; 10; 10; 100; 97; 116; 97; 58; 32; 120; 10; 10].
Definition ex_id_cut : bytes := [105; 100; 58; 32; 55; 10; 100; 97; 116; 97; 58; 32; 99; 117; 116].
Definition ex_id9 : bytes := [105; 100; 58; 32; 57; 10; 10].
Definition ex_step (a : attempt) : step := mkstep a 0 (mkrat 0 1).
Definition ex_script : list step :=
  map ex_step [AStream ex_id1 CleanEOF; ATransportErr 5; AStream ex_id_empty CleanEOF;
               AStream ex_id1 CleanEOF; AStream ex_id_nul (ReadError (EReader 3));
               AStream ex_id_cut (ReadError (EReader 4)); AStream ex_id9 CleanEOF; ATransportErr 6].
Definition ex_ccfg : ccfg :=
  mkccfg (mkbackoff 1000 (mkrat 1 1) (mkrat (-1) 1) 0 0 0) (BBody GBOk) true None false None.

Example C10_example_run :
  requests (fst (connect_run ex_ccfg ex_script)) =
  [(None, Some 0%nat); (Some [49%N], Some 1%nat); (Some [49%N], Some 2%nat); (None, Some 3%nat);
   (Some [49%N], Some 4%nat); (Some [49%N], Some 5%nat); (Some [49%N], Some 6%nat); (Some [57%N], Some 7%nat)] /\
  snd (connect_run ex_ccfg ex_script) = None.
Proof. vm_compute. split; reflexivity. Qed.

(* missing GetBody: one request, then ErrNoGetBody *)
Example C10_example_no_getbody :
  connect_run (mkccfg (mkbackoff 1000 (mkrat 1 1) (mkrat (-1) 1) 0 0 0) (BBody GBNone) false None false None) ex_script =
  ([TRequest None (Some 0%nat); TEvent (mkev [49%N] [] [])], Some (RConn RsReset CNoGetBody)).
Proof. vm_compute. reflexivity. Qed.

(* MaxRetries -1: every Connect call makes one attempt.  Three calls on one Connection: "id: 1", "id: 9", a failure -
   the first request of the second call carries Last-Event-ID 1 and the first GetBody result, that of the third call
   Last-Event-ID 9 and the second; with a body but no GetBody the second call returns ErrNoGetBody without a request *)
Definition ex_ccfg_once (k : body_kind) : ccfg :=
  mkccfg (mkbackoff 1000 (mkrat 1 1) (mkrat (-1) 1) 0 0 (-1)) k false None false None.
Definition ex_scripts : list (list step) :=
  [[ex_step (AStream ex_id1 CleanEOF)]; [ex_step (AStream ex_id9 CleanEOF)]; [ex_step (ATransportErr 5)]].

Example C10_example_again :
  all_requests (connect_runs (ex_ccfg_once (BBody GBOk)) ex_scripts) =
  [(None, Some 0%nat); (Some [49%N], Some 1%nat); (Some [57%N], Some 2%nat)] /\
  map snd (connect_runs (ex_ccfg_once (BBody GBOk)) ex_scripts) =
  [Some (RConn RsLost (CE EEOF)); Some (RConn RsLost (CE EEOF)); Some (RConn RsConnect (CE (EReader 5)))] /\
  connect_runs (ex_ccfg_once (BBody GBNone)) ex_scripts =
  [([TRequest None (Some 0%nat); TEvent (mkev [49%N] [] [])], Some (RConn RsLost (CE EEOF)));
   ([], Some (RConn RsReset CNoGetBody)); ([], Some (RConn RsReset CNoGetBody))].
Proof. vm_compute. repeat split; reflexivity. Qed.

(* the header name the model's trace speaks about is the one the code sets *)
Example C10_header_name :
  header_last_event_id_client = [76; 97; 115; 116; 45; 69; 118; 101; 110; 116; 45; 73; 68]%N.
Proof. reflexivity. Qed.
