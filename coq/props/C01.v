(* C01 - event-stream interpretation conforms to the WHATWG algorithm, independently of how the byte
   stream is segmented into reads.
   Only statements closed by [exact] (proofs in theories/*Proofs.v) and [Example]s by computation.

   Specification: Whatwg.interp mode last_id stream ending (written from the standard; modes gosse_read /
   gosse_conn carry go-sse's documented adaptations).  Models: FieldParser.v, Split.v, Scanner.v, Reader.v,
   ReadLoop.v.  [vis] removes the retry notifications for sse.Read, which has no retry callback (the
   specification emits them in every mode); [firstn' stop] cuts after the event the consumer refuses.

   PROVED IN FULL, for all streams / states / stops / endings:
     C01_line_step, C01_read_loop_spec,
     C01_read_loop_is_fold, C01_field_parser_lines (a) the interpretation half
     C01_split_token, C01_split_token_shape      (b) what splitFunc's answer is, in terms of the line structure
     C01_split_path_tokenises, C01_spec_toks     (b) independence of the interpretation from the prefixes on
                                                     which splitFunc is consulted (= from the segmentation)
     C01_scan                                    (c) bufio.Scanner.Scan, for every reader script, cuts tokens
                                                     from the front of the unconsumed input
     C01_scan_which                              (c) WHICH token it is (splitFunc on a prefix of at most B bytes) and when
                                                     ErrTooLong is reported
     C01_parser_fields                           (d) Parser.Next over the scanner's tokens hands out the fields of lines that
                                                     interpret to Whatwg.interp of the stream (incl. the BOM wrapper)
     C01_read, C01_connection, C01_read_any_id   (d) END TO END: read_run = firstn' stop (vis (interp mode id (concat chunks) e))
                                                     for every configuration, reader script, ending, initial ID and stop
                                                     position, whenever every group fits the limit (fitsb) - streams with a
                                                     leading BOM included
   Kept from the earlier state: C01_tokens_partial (the scanner-free composition without BOM; now a special case).
   NOT PROVED: split_stable in its sharp form (not needed: C01_spec_toks).
   The hypothesis fitsb is the limit of C20 (see props/C20.v for what happens beyond it); ending_ok excludes a
   reader whose ERROR is io.EOF itself. *)
From GoSse Require Import Base Lines FieldParser Whatwg WhatwgLines Split Scanner Reader ReadLoop Yields
     LineStepProofs ReadLoopProofs SplitProofs ScannerProofs PathProofs FieldLinesProofs ParserSizeProofs RunParse
     GroupProofs ScanMoreProofs ParserFieldsProofs ParserTopProofs TooLongProofs.
Local Open Scope nat_scope.

(* (a1) One line: FieldParser.scan_segment followed by the switch of read() changes the loop's variables
   (lastEventID, typ, sb, dirty) and yields exactly as Whatwg.process_line changes the interpreter's buffers:
   field-name matching, the colon and the single stripped space, NUL in ids, digits-only retry below 2^63,
   the dirty-dispatch rule, the stripped final LF of the data buffer. *)
Theorem C01_line_step :
  forall on_retry s l, sb_ok (rl_sb s) ->
    let r := process_line (mode_for on_retry) (st_of s) l in
    let r' := line_yields on_retry s l in
    fst r = st_of (fst r') /\ vis on_retry (snd r) = snd r' /\ sb_ok (rl_sb (fst r')).
Proof. exact line_step. Qed.

(* (a2) read_loop_spec: the read loop, fed with the fields of the lines of a stream and ended the way
   Parser.Err() ends (reader's error > ErrUnexpectedEOF for an unterminated last line > io.EOF), yields
   exactly the specification - events, retry notifications, the end condition, nothing after a refused
   event, no event together with or after an error. *)
Theorem C01_read_loop_spec :
  forall on_retry stop last_id stream e, ending_ok e ->
    let '(ls, tl) := wlines (strip_bom stream) in
    fold_fields on_retry (negb on_retry) stop (fields_of ls) (end_err tl e) (mkrl last_id [] [] false) 0
    = firstn' stop (vis on_retry (interp (mode_for on_retry) last_id stream e)).
Proof. exact read_loop_spec. Qed.

(* (a3) ReadLoop.read_loop, the model of read(), over a parser whose Next hands out the fields fs and then
   false with Err() = err, is that fold - for every fuel above the number of fields *)
Theorem C01_read_loop_is_fold :
  forall p fs err, pf_run p fs err ->
    forall fuel on_retry ignore_eof stop s d, length fs < fuel ->
      fst (read_loop fuel on_retry ignore_eof stop p s d)
      = (fold_fields on_retry ignore_eof stop fs err s d, EndNormal).
Proof. exact read_loop_pf. Qed.

(* (a4) FieldParser.Next iterated over a token (fp_all) hands out exactly fields_of of the token's lines -
   LF, CR and CR LF line ends - and sets ErrUnexpectedEOF iff the last line is unterminated *)
Theorem C01_field_parser_lines :
  forall f, fp_keep_comments f = false ->
    fst (fp_all f) = fields_of (fst (wlines (fp_data f))) /\
    fp_err (snd (fp_all f)) = fp_err f || nonempty (snd (wlines (fp_data f))).
Proof. exact fp_all_lines. Qed.

(* the line-by-line form of the specification used above is the specification *)
Theorem C01_interp_lines :
  forall m last_id stream e, interp_lines m last_id stream e = interp m last_id stream e.
Proof. exact interp_lines_eq. Qed.

(* (b1) closed characterisation of splitFunc: a token is the data from the first non-CR/LF byte on, up to the
   advance; it advances by at least a byte and never beyond the data; "len(token) != advance" (the test of
   the wrapper in parser.New) holds exactly when bytes were skipped. *)
Theorem C01_split_token :
  forall data at_eof adv tok, split_func data at_eof = SplitTok adv tok ->
    exists nls, firstn adv data = nls ++ tok /\ all_nl nls /\ 0 < adv <= length data /\
                (tok = [] \/ exists b t, tok = b :: t /\ is_nl b = false) /\
                ((length tok =? adv) = true <-> nls = []).
Proof. exact split_func_tok. Qed.

(* (b2) a token that is not "the whole rest at EOF" consists of complete lines and ends with a blank line *)
Theorem C01_split_token_shape :
  forall data at_eof adv tok, split_func data at_eof = SplitTok adv tok ->
    adv < length data \/ at_eof = false -> exists ls, wlines tok = (ls ++ [[]], []).
Proof. exact split_func_shape. Qed.

(* (b3) however splitFunc is consulted - on whatever prefix n of the unconsumed input, with at_eof only when
   it sees all of it - the tokens form a tokenisation ... *)
Theorem C01_split_path_tokenises :
  forall R ts, split_path R ts -> exists LS tl, toks R LS tl.
Proof. exact split_path_toks. Qed.

(* ... and for every tokenisation the specification's interpretation of the bytes is the interpretation of
   the tokens' lines in order: the skipped CR/LF bytes, a CR LF cut between CR and LF, and the choice of
   prefixes do not matter.  This is the segmentation independence at the level of the split function, for all
   data and all extensions. *)
Theorem C01_spec_toks :
  forall m R LS tl e, md_dispatch_dirty m = true -> toks R LS tl ->
    forall st a, w_dirty st = false ->
      cont m (set_line st [] a) R e
      = let '(st', ys) := run_lines m (set_line st [] false) LS in ys ++ finish m (set_line st' tl false) e.
Proof. exact spec_toks. Qed.

(* (c1) the scanner, for every reader script: each Scan cuts a token from the front of the unconsumed input
   (buffer ++ rest of the script) after CR/LF bytes only, complete unless it is the last; or reports the end of
   an exhausted input; or ErrTooLong.  Which prefix splitFunc saw is irrelevant by (b3). *)
Theorem C01_scan :
  forall B st s r, sc_inv B s r -> scan_post B st s r (scan parser_split st s r).
Proof. exact scan_spec. Qed.

(* (c2) Scanner-free composition: for a stream without a leading BOM, however it is tokenised, the read
   loop fed with the fields of the tokens' lines yields the specification.  (Kept; superseded by C01_read /
   C01_connection below, which need neither the no-BOM hypothesis nor a given tokenisation.)
     split_stable (sharp form): split_func d false = SplitTok adv tok -> forall x eof,
        split_func (d ++ x) eof = SplitTok adv tok \/
        (last tok = CR /\ hd x = LF /\ split_func (d ++ x) eof = SplitTok (S adv) (tok ++ [LF]))
   is not proved; C01_spec_toks makes it unnecessary for the interpretation (both answers are tokenisations). *)
Theorem C01_tokens_partial :
  forall on_retry stop last_id stream e LS tl,
    ending_ok e -> strip_bom stream = stream -> toks stream LS tl ->
    fold_fields on_retry (negb on_retry) stop (fields_of LS) (end_err tl e) (mkrl last_id [] [] false) 0
    = firstn' stop (vis on_retry (interp (mode_for on_retry) last_id stream e)).
Proof. exact tokens_interp. Qed.

(* (c3) Which token a Scan call cuts and when it reports ErrTooLong, for every reader script (second pass over
   bufio.Scanner.Scan, with the invariant B = max(cap(buf), maxTokenSize)): the token is splitFunc's answer on a
   prefix of at most B bytes of the unconsumed input (all of it once the reader has ended); ErrTooLong exactly
   when the first B bytes are buffered and splitFunc says "more" on them; else the input is exhausted. *)
Theorem C01_scan_which :
  forall B st s r, sc_inv B s r -> sc_inv2 B s -> scan_post2 B st s r (scan parser_split st s r).
Proof. exact scan_spec2. Qed.

(* (d1) parser_fields, the glue that was missing: from the initial parser of either entry point, for every reader
   script whose groups fit the limit, Parser.Next hands out exactly the fields of lines LS and then returns false
   with Parser.Err() = the end condition of the unterminated rest tl, where (LS, tl) interpret - in every mode
   with the dirty-dispatch rule, from every initial ID - to Whatwg.interp of the concatenated stream.  A leading
   BOM is removed iff no CR/LF byte was skipped before the first token (the wrapper around splitFunc in
   parser.New); the specification strips it iff it starts the stream - the two agree (strip_bom_tok). *)
Theorem C01_parser_fields :
  forall en bc chunks e, ending_ok e -> fitsb (bound_of en bc) (concat chunks) = true ->
    exists LS tl, pf_run (make_parser en bc (mkrd chunks e 0)) (fields_of LS) (end_err tl e) /\
                  spec_lines (concat chunks) e LS tl.
Proof. exact parser_fields. Qed.

(* (d2) END TO END.  For every buffer configuration, every reader script (= every segmentation of the byte stream
   into reads, byte-at-a-time included), every ending that is not "read error io.EOF", every stop position:
   when every group fits the limit (fitsb, the strict reading: a group is counted from the first terminator byte of
   the blank line that ended the previous group up to and including the first terminator byte of the blank line
   that ends it; the rest after the last group must be shorter than the limit), the MODEL of sse.Read - Scanner +
   splitFunc + FieldParser + Parser + read() - yields exactly the specification's events and end condition cut
   after the refused event, and ends normally (no panic, no fuel exhaustion).  The right-hand side does not
   mention the chunks except through their concatenation: segmentation independence.  Streams with a leading
   BOM are included. *)
Theorem C01_read :
  forall bc chunks e stop, ending_ok e -> fitsb (bound_of EntryRead bc) (concat chunks) = true ->
    fst (read_run EntryRead bc [] chunks e stop)
    = (firstn' stop (vis false (interp gosse_read [] (concat chunks) e)), EndNormal).
Proof. exact read_run_read_nil. Qed.

(* the same for Connection.read: retry notifications visible, clean end reported as io.EOF, any initial last event ID *)
Theorem C01_connection :
  forall bc last_id chunks e stop, ending_ok e -> fitsb (bound_of EntryConn bc) (concat chunks) = true ->
    fst (read_run EntryConn bc last_id chunks e stop)
    = (firstn' stop (vis true (interp gosse_conn last_id (concat chunks) e)), EndNormal).
Proof. exact read_run_conn. Qed.

(* both entry points, any initial ID (read() itself) *)
Theorem C01_read_any_id :
  forall en bc last_id chunks e stop, ending_ok e -> fitsb (bound_of en bc) (concat chunks) = true ->
    fst (read_run en bc last_id chunks e stop)
    = (firstn' stop (vis (en_conn en) (interp (mode_for (en_conn en)) last_id (concat chunks) e)), EndNormal).
Proof. exact read_run_fits. Qed.

(* ---- non-vacuity ------------------------------------------------------------------------------------------ *)
Definition ex_a : bytes := [100;97;116;97;58;32;97]%N.                 (* "data: a" *)
Definition ex_stream : bytes := ex_a ++ [13;10;13;10]%N ++ [105;100;58;32;55;10]%N ++ ex_a.   (* ... CRLF CRLF "id: 7" LF "data: a" *)

(* the model stack on a CR | LF cut, byte-at-a-time and whole, equals the specification (Connection mode) *)
Example C01_ex_model_is_spec :
  fst (fst (read_run EntryConn (mkbc false 0 0) [] [ex_a ++ [13]; [10;13]; [10;105;100;58;32;55;10] ++ ex_a]%N CleanEOF None))
  = interp gosse_conn [] ex_stream CleanEOF /\
  fst (fst (read_run EntryConn (mkbc false 0 0) [] (map (fun b => [b]) ex_stream) CleanEOF None))
  = interp gosse_conn [] ex_stream CleanEOF /\
  interp gosse_conn [] ex_stream CleanEOF = [YEv (mkev [] [] [97%N]); YErr EUnexpectedEOF].
Proof. vm_compute. repeat split. Qed.

(* C01_read's hypotheses are satisfiable and its two sides are what they should be, on a stream with a leading BOM
   cut inside the BOM and inside CR LF, with a limit of 16 bytes: the BOM is not part of the field name *)
Definition ex_bom_chunks : list bytes := [[239; 187]; [191] ++ ex_a ++ [13]; [10; 13; 10] ++ ex_a ++ [10; 10]]%N.
Example C01_ex_read_bom :
  fitsb (bound_of EntryRead (mkbc false 0 16)) (concat ex_bom_chunks) = true /\
  fst (read_run EntryRead (mkbc false 0 16) [] ex_bom_chunks CleanEOF None)
  = ([YEv (mkev [] [] [97%N]); YEv (mkev [] [] [97%N])], EndNormal) /\
  interp gosse_read [] (concat ex_bom_chunks) CleanEOF = [YEv (mkev [] [] [97%N]); YEv (mkev [] [] [97%N])].
Proof. vm_compute. repeat split. Qed.

(* line_step on a data line and on the dispatching blank line *)
Example C01_ex_line_step :
  line_yields true (mkrl [] [] [] false) ex_a = (mkrl [] [] [97;10]%N true, []) /\
  line_yields true (mkrl [55%N] [] [97;10]%N true) [] = (mkrl [55%N] [] [] false, [YEv (mkev [55%N] [] [97%N])]) /\
  line_yields false (mkrl [] [] [] false) [114;101;116;114;121;58;43;55]%N = (mkrl [] [] [] false, []).   (* "retry:+7" *)
Proof. vm_compute. repeat split. Qed.

(* read_loop_spec's left-hand side on a concrete stream, with an early stop after the first event *)
Example C01_ex_read_loop :
  let s := ex_a ++ [10;10]%N ++ ex_a ++ [10;10]%N in
  fold_fields false true (Some 0) (fields_of (fst (wlines s))) (end_err (snd (wlines s)) CleanEOF) (mkrl [] [] [] false) 0
  = [YEv (mkev [] [] [97%N])] /\
  length (events_of (interp gosse_read [] s CleanEOF)) = 2.
Proof. vm_compute. repeat split. Qed.

(* a tokenisation exists for a stream cut inside CR LF: split on "data: a\r\r" then on the rest "\ndata: a\n" *)
Example C01_ex_split_path :
  split_path (ex_a ++ [13;13;10]%N ++ ex_a ++ [10]%N) [ex_a ++ [13;13]%N; ex_a ++ [10]%N].
Proof.
  eapply (sp_tok _ 9 false); [cbn; lia|discriminate|vm_compute; reflexivity|].
  eapply (sp_tok _ 9 true); [cbn; lia|reflexivity|vm_compute; reflexivity|]. exact sp_done.
Qed.
