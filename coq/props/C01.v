(* C01 - event-stream interpretation conforms to the WHATWG algorithm, independently of how the
   byte stream is segmented into reads.  Only statements closed by [exact]; proofs in theories/*Proofs.v. *)
From GoSse Require Import Base Lines FieldParser Whatwg Split Scanner Reader ReadLoop RunParse.

(* sanity: the model stack on a CR | LF CR LF cut equals the specification *)
Example C01_model_runs :
  fst (fst (read_run EntryConn (mkbc false 0 0) [] [[100;97;116;97;58;32;97;13]; [10;13;10;100]]%N CleanEOF None))
  = interp gosse_conn [] [100;97;116;97;58;32;97;13;10;13;10;100]%N CleanEOF.
Proof. vm_compute. reflexivity. Qed.
