(* C09 - ValidReplayer replays exactly the unexpired events after the given ID. *)
From GoSse Require Import Base Fields Queue Replayers Fifo FifoFacts ReplayersProofs ReplayersTop FifoSuffix.
From Coq Require Import Sorted.

(* Refinement: every TTL > 0, every GCInterval (default, 0, smaller or larger than the TTL),
   both ID modes, every history of Put/Replay/GC - and of assignments to the exported field
   GCInterval in between ([VSetGCI]) - with arbitrary clock readings and writer scripts:
   no panic, outputs = specification (vs_*: the list of accepted puts not yet collected) *)
Theorem C09_refines :
  forall ttl auto gci ops, (0 < ttl)%Z -> (N.of_nat (length ops) <= two64)%N ->
  exists s tr, vr_new ttl auto gci = Some s /\ vr_trace s ops = (tr, true) /\
               map fst tr = vs_run (vs_new ttl auto gci) ops.
Proof. exact valid_top. Qed.

Theorem C09_nonpositive_ttl_rejected :
  forall ttl auto gci, (ttl <= 0)%Z -> vr_new ttl auto gci = None.
Proof. exact valid_rejects_ttl. Qed.

(* An unexpired event is never dropped by garbage collection or resizing, whenever and
   however often collection runs: an accepted event whose expiry lies after every instant
   of the history so far is still in the buffer. *)
Theorem C09_unexpired_never_dropped :
  forall ops s e,
  In e (vs_l s ++ vs_accepted s ops) ->
  Forall (fun op => (vop_now op < e_exp e)%Z) ops ->
  In e (vs_l (vs_after s ops)).
Proof. exact vs_unexpired_kept. Qed.

(* An event is never replayed at or after its Put time plus the TTL (its [e_exp]),
   and only events matching the topics are sent *)
Theorem C09_never_stale :
  forall s now id topics script c,
  In c (fst (vs_replay s now id topics script)) ->
  c = CFlush \/ exists e, In e (vs_l s) /\ c = CSend (e_tok e) (e_id e) /\ (now < e_exp e)%Z /\
                         topics_intersect topics (e_topics e) = true.
Proof. exact vs_replay_never_stale. Qed.

(* Replay with the ID of a stored, non-newest event: exactly the later stored events that
   have not expired at that moment and match the topics, in Put order *)
Theorem C09_replay_later_unexpired :
  forall pre e post now topics auto script,
  (forall x, In x pre -> e_id x <> e_id e) -> post <> [] ->
  spec_replay (pre ++ e :: post) (fun m => (now <? e_exp m)%Z && topics_intersect topics (e_topics m))
              (Some (e_id e)) auto script
  = spec_sends (filter (fun m => (now <? e_exp m)%Z && topics_intersect topics (e_topics m)) post) script.
Proof. intros pre e post now topics auto script. exact (spec_replay_buffered pre e post _ auto script). Qed.

Theorem C09_replay_newest_nothing :
  forall pre e keep auto script,
  (forall x, In x pre -> e_id x <> e_id e) ->
  spec_replay (pre ++ [e]) keep (Some (e_id e)) auto script = ([], 0%N).
Proof. exact spec_replay_newest. Qed.

(* with a non-decreasing clock the stored expiry instants are sorted in Put order *)
Theorem C09_expiries_sorted :
  forall ttl auto gci ops t, (0 < ttl)%Z -> clock_mono t ops ->
  StronglySorted exp_le (vs_l (vs_after (vs_new ttl auto gci) ops)).
Proof.
  intros ttl auto gci ops t Ht Hm.
  exact (vs_sorted_after ops (vs_new ttl auto gci) t (Z.lt_le_incl _ _ Ht) (conj (SSorted_nil _) (Forall_nil _)) Hm).
Qed.

Example C09_example_expiry :
  (* ttl 10, manual IDs a,b put at 0 and 5; Replay(a) at 14 sends b; at 15 (= 5 + ttl) nothing but the Flush *)
  let ops := [VPut 0 (Some [97]) 1 [[]]; VPut 5 (Some [98]) 2 [[]];
              VReplay 14 (Some [97]) [[]] []; VReplay 15 (Some [97]) [[]] []] in
  match vr_new 10 false (Some 0%Z) with
  | Some s => skipn 2 (map fst (fst (vr_trace s ops))) =
              [OReplay ([CSend 2 [98]; CFlush], 0%N); OReplay ([CFlush], 0%N)]
  | None => False
  end.
Proof. vm_compute. reflexivity. Qed.

(* What the ValidReplayer specification stores is, at every moment, the last k accepted puts for some k: whatever the
   clock readings, collections (explicit, Put-triggered) and interval assignments of the history, only a PREFIX of the
   accepted entries is ever dropped.  (The FiniteReplayer counterpart is C08: [fs_l = lastn N accepted].)  This is the
   one shape the end-to-end composition needs of a replayer (C05_end_to_end_any_suffix_replayer). *)
Theorem C09_stores_a_suffix_of_the_accepted_puts :
  forall ttl auto gci ops,
  let s := vs_after (vs_new ttl auto gci) ops in
  vs_l s = lastn (length (vs_l s)) (vs_accepted (vs_new ttl auto gci) ops).
Proof. exact valid_is_lastn. Qed.

Theorem C09_suffix_invariant :
  forall ops s hist, is_suffix (vs_l s) hist -> is_suffix (vs_l (vs_after s ops)) (hist ++ vs_accepted s ops).
Proof. exact vs_holds_a_suffix_facts. Qed.

Example C09_example_suffix :
  (* three puts at 0, 5, 20 (ttl 10); a GC at 12 drops the first; the store is the last two accepted *)
  let ops := [VPut 0 None 1 [[]]; VPut 5 None 2 [[]]; VGC 12; VPut 20 None 3 [[]]] in
  map e_tok (vs_l (vs_after (vs_new 10 true (Some 0%Z)) ops)) = [2; 3]%N /\
  map e_tok (vs_accepted (vs_new 10 true (Some 0%Z)) ops) = [1; 2; 3]%N.
Proof. vm_compute. split; reflexivity. Qed.
