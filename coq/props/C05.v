(* C05 - End to end: no event lost, duplicated or reordered across reconnects.
   Statements only; proofs in theories/{PrefixDecode,EndToEndProofs}.v.
   The model composes what the other properties establish about the parts:
   [wire] (message.go, C02/C15), the interpretation of a byte stream by a Connection
   ([interp gosse_conn], the specification the real parser is tied to by C01), the client's
   Last-Event-ID rule ([last_of], C10), what a replayer sends for a presented ID ([resume]: the
   stored messages after that ID - C08/C09, and Joe's replay-then-register in one step - C04).
   A connection is cut after ANY number [c] of body bytes (then a read error), or ends cleanly
   when the handler returns; [cn_p]/[cn_j] say how many messages had been published when the
   subscription was registered / when the response ended: ANY publish timing. *)
From GoSse Require Import Base Lines Fields FieldParser Message MessageProofs MessageApi Whatwg TextLines WireDecode PrefixDecode Replayers Fifo EndToEnd EndToEndProofs EndToEndBounded.

(* A response body cut after c bytes: the received prefix is the first k encodings in full and a
   proper prefix of the next one; exactly the first k messages are interpreted - nothing of a
   partially received event is dispatched, and nothing but those events, retry values and the
   transport error is reported. *)
Theorem C05_cut_body_decodes_to_whole_messages :
  forall md ms ws last c e,
  Forall msg_ok ms -> Forall2 (fun m w => wire m = Some w) ms ws ->
  exists k p,
    firstn c (concat ws) = concat (firstn k ws) ++ p /\
    ((k = length ws /\ p = []) \/ ((k < length ws)%nat /\ is_pre p (nth k ws []) /\ p <> nth k ws [])) /\
    interp md last (firstn c (concat ws)) (ReadError e)
      = all_yields md last (firstn k ms)
        ++ snd (feed_all md (cst (fold_left msg_last (firstn k ms) last)) p) ++ [YErr e] /\
    no_event (snd (feed_all md (cst (fold_left msg_last (firstn k ms) last)) p)) /\
    events_of (interp md last (firstn c (concat ws)) (ReadError e)) = expected_events md last (firstn k ms).
Proof. exact prefix_decode. Qed.

(* what the replayer sends for the ID of a stored message: exactly the later ones *)
Theorem C05_resume_after :
  forall pre m post, NoDup (map mid (pre ++ m :: post)) -> resume (pre ++ m :: post) (mid m) = post.
Proof. exact resume_after. Qed.

(* MAIN.  [order] = everything ever published (messages with distinct IDs, no NUL, valid Retry).
   A client that holds the event of [m] (order = A ++ m :: B) then goes through ANY sequence of
   connections - each with any registration time p and end time j (at least what the client
   already has, as is physically the case), cut after any number of bytes with any error, or
   ended by the handler.  What its callbacks receive, in total, is [map event_of (firstn n B)]:
   the messages published after m, each exactly once, in publish order, with the published ID,
   type and data - nothing lost, duplicated, reordered or invented - and if the final
   connection is not cut before the handler ends it is ALL j messages published by then. *)
Theorem C05_end_to_end :
  forall order, pub_ok order ->
  forall conns A m B, order = A ++ m :: B ->
  valid_conns order (S (length A)) (mid m) conns ->
  exists n, run_conns order (mid m) conns = map event_of (firstn n B) /\ (n <= length B)%nat /\
            (forall cl, final_conn conns = Some cl -> cn_cut cl = None -> (S (length A) + n)%nat = cn_j cl).
Proof. exact end_to_end. Qed.

(* non-vacuity: four published messages; the client has the first; a connection is cut inside
   the third message's encoding, one is cut inside the first byte, one delivers nothing new, the
   last one ends with the handler: every event after the first arrives exactly once *)
Definition c05_msg (id data : N) : msg := api_build [OpSetID [id]; OpAppend false [[data; 10; data]]].
Definition c05_order : list msg := [c05_msg 49 97; c05_msg 50 98; c05_msg 51 99; c05_msg 52 100].
Definition c05_conns : list conn :=
  [mkconn 1 3 (Some (20%nat, EReader 7)); mkconn 2 4 (Some (1%nat, EReader 8)); mkconn 3 3 None; mkconn 4 4 None].
Example C05_sample_valid : valid_conns c05_order 1 [49] c05_conns.
Proof. vm_compute. repeat split; repeat constructor. Qed.
Example C05_sample_received :
  run_conns c05_order [49] c05_conns = map event_of (skipn 1 c05_order) /\
  map ev_data (run_conns c05_order [49] c05_conns) = [[98; 10; 98]; [99; 10; 99]; [100; 10; 100]].
Proof. vm_compute. split; reflexivity. Qed.
Example C05_sample_pub_ok : pub_ok c05_order.
Proof.
  split.
  - repeat constructor; try (apply api_build_wf);
      try (intros v H; vm_compute in H; injection H as <-; reflexivity);
      try (eexists; vm_compute; reflexivity).
  - vm_compute. repeat constructor; cbn; intuition discriminate.
Qed.

(* ---- the proviso "a replayer large enough to hold what is published while a client is away",
   made exact.  The replayer is a FiniteReplayer of ANY capacity N, i.e. (C08) [Fifo.lastn N] of
   the accepted puts; [valid_conns_b N] adds to the physical constraints that fewer than N
   messages were published during each absence (cn_p - i < N: the event the client holds is still
   buffered when it is registered again).  Then the bounded system behaves, connection by
   connection, exactly as the unbounded one - so C05_end_to_end holds for it. *)
Theorem C05_bounded_replayer_is_unbounded :
  forall N order, pub_ok order ->
  forall conns A m B, order = A ++ m :: B ->
  valid_conns_b N order (S (length A)) (mid m) conns ->
  run_conns_b N order (mid m) conns = run_conns order (mid m) conns /\
  valid_conns order (S (length A)) (mid m) conns.
Proof. exact bounded_is_unbounded. Qed.

Theorem C05_end_to_end_bounded :
  forall N order, pub_ok order ->
  forall conns A m B, order = A ++ m :: B ->
  valid_conns_b N order (S (length A)) (mid m) conns ->
  exists n, run_conns_b N order (mid m) conns = map event_of (firstn n B) /\ (n <= length B)%nat /\
            (forall cl, final_conn conns = Some cl -> cn_cut cl = None -> (S (length A) + n)%nat = cn_j cl).
Proof. exact end_to_end_bounded. Qed.

(* the unbounded statement is the instance "capacity at least the whole history" *)
Theorem C05_unbounded_is_instance :
  forall N order, (length order <= N)%nat ->
  forall conns i last, (0 < i)%nat -> valid_conns order i last conns -> valid_conns_b N order i last conns.
Proof. exact unbounded_is_instance. Qed.

(* what the replayer sends when the presented ID has fewer than N successors: exactly them *)
Theorem C05_resume_from_last_N :
  forall N pre m post, NoDup (map mid (pre ++ m :: post)) -> (length post < N)%nat ->
  resume (lastn N (pre ++ m :: post)) (mid m) = post.
Proof. exact resume_lastn. Qed.

(* non-vacuity: the sample run above is within the proviso for a replayer of 3 slots
   (the four-message history does not fit it), and delivers the same events *)
Example C05_sample_valid_bounded : valid_conns_b 3 c05_order 1 [49] c05_conns.
Proof. vm_compute. repeat split; repeat constructor. Qed.
Example C05_sample_received_bounded :
  run_conns_b 3 c05_order [49] c05_conns = map event_of (skipn 1 c05_order).
Proof. vm_compute. reflexivity. Qed.

(* the proviso is necessary (refutation of the statement without it): a 2-slot replayer, the
   client holding event 1 registered again when three messages are out - its ID was evicted, the
   replayer (manual IDs) sends nothing, live delivery goes on: events 2 and 3 are lost.  The run
   is physically valid, only [cn_p - i < N] fails (3 - 1 = 2). *)
Example C05_too_small_replayer_loses_events :
  valid_conns c05_order 1 [49] [mkconn 3 4 None] /\
  run_conns_b 2 c05_order [49] [mkconn 3 4 None] = map event_of (skipn 3 c05_order) /\
  run_conns c05_order [49] [mkconn 3 4 None] = map event_of (skipn 1 c05_order).
Proof. vm_compute. repeat split; repeat constructor. Qed.

(* ---- any replayer that holds a SUFFIX of the put history.  [keep cn] = how many of the newest accepted puts
   the replayer holds when connection cn is registered: N for a FiniteReplayer (C08), the number of entries not yet
   collected for a ValidReplayer (C09; a collection removes a prefix: C05_collect_keeps_a_suffix) - it may differ
   from connection to connection.  Proviso per connection: cn_p - i < keep cn (the event the client holds is still
   stored).  Same conclusion as C05_end_to_end. *)
Theorem C05_end_to_end_any_suffix_replayer :
  forall keep order, pub_ok order ->
  forall conns A m B, order = A ++ m :: B ->
  valid_conns_k keep order (S (length A)) (mid m) conns ->
  exists n, run_conns_k keep order (mid m) conns = map event_of (firstn n B) /\ (n <= length B)%nat /\
            (forall cl, final_conn conns = Some cl -> cn_cut cl = None -> (S (length A) + n)%nat = cn_j cl).
Proof. exact end_to_end_suffix. Qed.

Theorem C05_collect_keeps_a_suffix :
  forall (l : list entry) now, collect l now = lastn (length (collect l now)) l.
Proof. exact collect_is_lastn. Qed.

(* non-vacuity: the sample run with a replayer that holds 1, 3, 2, 2 events at the four registrations *)
(* non-vacuity: the sample run with a replayer that holds 1, 2, 3, 2 events at the four registrations - each time
   just enough (the first two connections deliver nothing, so three events are owed at the third) *)
Example C05_sample_valid_suffix :
  let keep := fun cn : conn => match cn_p cn with 1 => 1 | 2 => 2 | 3 => 3 | _ => 2 end%nat in
  valid_conns_k keep c05_order 1 [49] c05_conns /\
  run_conns_k keep c05_order [49] c05_conns = map event_of (skipn 1 c05_order).
Proof. vm_compute. repeat split; repeat constructor. Qed.
