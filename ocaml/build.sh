#!/bin/sh
# Extract the models from the compiled Coq development and build the driver.
set -e
cd "$(dirname "$0")"
mkdir -p gen
cd gen
coqc -Q ../../coq/theories GoSse -Q ../../coq/gen GoSse.Gen ../../coq/theories/Extract.v >/dev/null
cp ../driver.ml ../families.ml .
ocamlfind ocamlopt -O3 -unboxed-types 2>/dev/null >/dev/null || true
ocamlfind ocamlopt -w -a -o ../model-run model.mli model.ml families.ml driver.ml
