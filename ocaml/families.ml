(* family name -> (model run function, property oracle); the only per-family OCaml code *)
open Model
let table : (string * ((val0 -> val0) * (val0 -> val0 -> bool))) list = [
  "fields", (run_fields, holds_fields);
  "finite", (run_finite, holds_finite);
  "finite_slots", (run_finite, holds_finite_slots);
  "valid", (run_valid, holds_valid);
  "valid_slots", (run_valid, holds_valid_slots);
  "message", (run_message, holds_message);
]
