(* family name -> (model run function, property oracle); the only per-family OCaml code *)
open Model
let table : (string * ((val0 -> val0) * (val0 -> val0 -> bool))) list = [
  "fields", (run_fields, holds_fields);
]
