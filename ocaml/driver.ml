(* Generic driver: reads "input<TAB>observed" lines in the val text syntax,
   runs the extracted model ([run_*]) and oracle ([holds_*]) of the chosen
   family, prints one line per disagreement and a final DONE line.
   Syntax:  n<dec> | z[-]<dec> | x<hex> | ( v v ... )                         *)
open Model

let rec pos_of_int (i : int) : positive =
  if i = 1 then XH else if i land 1 = 0 then XO (pos_of_int (i lsr 1)) else XI (pos_of_int (i lsr 1))
let n_of_int (i : int) : n = if i = 0 then N0 else Npos (pos_of_int i)
let ten = n_of_int 10
let n_of_dec (s : string) : n =
  if String.length s <= 17 then n_of_int (int_of_string s)
  else begin
    let acc = ref N0 in
    String.iter (fun c -> acc := N.add (N.mul !acc ten) (n_of_int (Char.code c - 48))) s; !acc
  end
let z_of_n = function N0 -> Z0 | Npos p -> Zpos p
let z_of_dec (s : string) : z =
  if String.length s > 0 && s.[0] = '-' then
    (match n_of_dec (String.sub s 1 (String.length s - 1)) with N0 -> Z0 | Npos p -> Zneg p)
  else z_of_n (n_of_dec s)

let rec int_of_pos_opt (p : positive) (depth : int) : int option =
  if depth > 61 then None else
  match p with
  | XH -> Some 1
  | XO q -> (match int_of_pos_opt q (depth + 1) with Some v -> Some (2 * v) | None -> None)
  | XI q -> (match int_of_pos_opt q (depth + 1) with Some v -> Some (2 * v + 1) | None -> None)
let rec dec_of_n (x : n) : string =
  match x with
  | N0 -> "0"
  | Npos p ->
    (match int_of_pos_opt p 0 with
     | Some v -> string_of_int v
     | None ->
       let (q, r) = N.div_eucl x ten in
       dec_of_n q ^ dec_of_n r)
let int_of_n (x : n) : int =
  match x with N0 -> 0 | Npos p -> (match int_of_pos_opt p 0 with Some v -> v | None -> failwith "int_of_n")

let hexv c = match c with
  | '0'..'9' -> Char.code c - 48 | 'a'..'f' -> Char.code c - 87 | 'A'..'F' -> Char.code c - 55
  | _ -> failwith "hex"

(* parser *)
let parse (s : string) : val0 =
  let len = String.length s in
  let pos = ref 0 in
  let skip () = while !pos < len && s.[!pos] = ' ' do incr pos done in
  let token () =
    let st = !pos in
    while !pos < len && s.[!pos] <> ' ' && s.[!pos] <> ')' && s.[!pos] <> '(' do incr pos done;
    String.sub s st (!pos - st) in
  let rec value () : val0 =
    skip ();
    if !pos >= len then failwith "eof" else
    match s.[!pos] with
    | '(' -> incr pos;
      let items = ref [] in
      let fin = ref false in
      while not !fin do
        skip ();
        if !pos >= len then failwith "unclosed"
        else if s.[!pos] = ')' then (incr pos; fin := true)
        else items := value () :: !items
      done;
      VL (List.rev !items)
    | 'n' -> incr pos; VN (n_of_dec (token ()))
    | 'z' -> incr pos; VZ (z_of_dec (token ()))
    | 'x' -> incr pos;
      let t = token () in
      let n = String.length t / 2 in
      let rec build i acc = if i < 0 then acc else
          build (i - 1) (n_of_int (16 * hexv t.[2*i] + hexv t.[2*i+1]) :: acc) in
      VB (build (n - 1) [])
    | c -> failwith (Printf.sprintf "bad char %c at %d" c !pos)
  in
  value ()

let rec print (b : Buffer.t) (v : val0) : unit =
  match v with
  | VN x -> Buffer.add_char b 'n'; Buffer.add_string b (dec_of_n x)
  | VZ Z0 -> Buffer.add_string b "z0"
  | VZ (Zpos p) -> Buffer.add_char b 'z'; Buffer.add_string b (dec_of_n (Npos p))
  | VZ (Zneg p) -> Buffer.add_string b "z-"; Buffer.add_string b (dec_of_n (Npos p))
  | VB l -> Buffer.add_char b 'x';
    List.iter (fun x -> Buffer.add_string b (Printf.sprintf "%02x" (int_of_n x))) l
  | VL l -> Buffer.add_char b '(';
    List.iteri (fun i x -> if i > 0 then Buffer.add_char b ' '; print b x) l;
    Buffer.add_char b ')'
let show v = let b = Buffer.create 64 in print b v; Buffer.contents b

let families : (string * ((val0 -> val0) * (val0 -> val0 -> bool))) list =
  Families.table

let () =
  let fam = Sys.argv.(1) in
  let (run, holds) =
    try List.assoc fam families with Not_found -> (prerr_endline ("unknown family " ^ fam); exit 2) in
  let cover = try Some (List.assoc fam Families.covers) with Not_found -> None in
  let cov : (string, int) Hashtbl.t = Hashtbl.create 64 in
  let n = ref 0 and k = ref 0 and s = ref 0 in
  (try
     while true do
       let line = input_line stdin in
       if String.length line > 0 then begin
         match String.index_opt line '\t' with
         | None -> Printf.printf "E %d malformed-line\n" !n; incr n
         | Some t ->
           let inp = String.sub line 0 t in
           let obs = String.sub line (t + 1) (String.length line - t - 1) in
           (try
              let vi = parse inp in
              let vo = parse obs in
              let m = show (run vi) in
              let canon_obs = show vo in
              if m <> canon_obs then (incr k; Printf.printf "K %d %s\n" !n m)
              else (match cover with
                    | Some f -> (match f vi with
                                 | VL l -> List.iter (fun x -> let key = show x in
                                                       Hashtbl.replace cov key (1 + (try Hashtbl.find cov key with Not_found -> 0))) l
                                 | _ -> ())
                    | None -> ());
              if not (holds vi vo) then (incr s; Printf.printf "S %d\n" !n)
            with Failure msg -> Printf.printf "E %d %s\n" !n msg);
           incr n
       end
     done
   with End_of_file -> ());
  Hashtbl.iter (fun key c -> Printf.printf "COV %s %d\n" key c) cov;
  Printf.printf "DONE %d %d %d\n" !n !k !s
