package main

import (
	"context"
	"errors"
	"fmt"
	"io"
	"log/slog"
	"net"
	"net/http"
	"net/http/httptest"
	"strings"
	"time"

	sse "github.com/tmaxmax/go-sse"

	"verifharness/rng"
	"verifharness/val"
)

// Family "session" (C16): Session.Send/Flush sequences and Server.ServeHTTP requests on a
// recording, fault-injecting http.ResponseWriter.  Input/output formats: coq/theories/RunSession.v.
//
// The writer is a chain of layers (outermost first); every layer forwards Header/Write/
// WriteHeader to one shared recorder, and offers FlushError() error and/or Flush() and/or
// Unwrap() as its shape says.  The recorder plays a script of verdicts, one per Write or Flush,
// and logs every call in order.  A Flush() without result cannot report anything: on a layer
// that only has Flush() the verdict is consumed and the flush is logged as successful; on a
// layer that has both, Flush() discards what FlushError() returns (as net/http's writers do).
// A header assignment cannot be intercepted (Header() hands out the map): the recorder notes
// that Header() was called and logs, right before the next call or at the end of the current
// phase, one "header set" entry with the Content-Type found in the map at that moment - i.e.
// the value in force when that Write/Flush happens.
//
// Which writer OBJECT a Write / Flush arrived at is part of the observation: every layer knows its depth in the
// Unwrap chain (0 = the writer handed to Upgrade / ServeHTTP), and every Send / Flush of the session reports, next
// to its entries, the depth of the layer each of its Write / Flush calls was made on.  A middleware writer that can
// flush (it buffers, compresses, counts) must see the session's traffic itself; only a layer that cannot flush is
// looked through.
//
// A Content-Type may already be on the response before the session's first Send/Flush ("preset":
// a middleware in front of sse.Upgrade, or OnSession preparing an error answer and accepting
// after all); presetopt = () | ((x<value> ...)) is assigned to Header()["Content-Type"] as it is
// (no value at all, an empty value, several values, text/event-stream with a parameter ...).
//
// The error a provider refuses with: perropt = () | (x<text> n<kind> x<prefix>), text = err.Error(),
// kind 0 = an opaque error with that text, the others the errors a provider really returns:
// see refusalError.
//
// The error a failing Write/Flush returns: the verdict's index e selects the VALUE (e/1000 = its
// "character": the harness's opaque type, or a value that is / wraps a well-known sentinel), and
// what Send/Flush returned is projected back to that index by identity: session_errs.go.

func init() { families["session"] = family{gen: genSession, exec: execSession} }

type rwRec struct {
	script  []val.V
	hdr     http.Header
	touched bool
	cur     *[]val.V
	depths  []val.V // the layer (depth in the Unwrap chain) of every Write / Flush since the last reset
}

func (r *rwRec) pending() {
	if r.touched {
		r.touched = false
		*r.cur = append(*r.cur, val.L(val.N(0), val.S("Content-Type"), val.S(strings.Join(r.hdr["Content-Type"], ","))))
	}
}

func (r *rwRec) phase(bucket *[]val.V) {
	r.pending()
	r.cur = bucket
}

func (r *rwRec) next() (fail bool, k int, e uint64, v val.V) {
	if len(r.script) == 0 {
		return false, 0, 0, val.L()
	}
	v = r.script[0]
	r.script = r.script[1:]
	if v.Len() == 2 {
		return true, v.At(0).Int(), v.At(1).Num(), v
	}
	return false, 0, 0, val.L()
}

func (r *rwRec) header() http.Header {
	r.touched = true
	return r.hdr
}

func (r *rwRec) write(p []byte, depth int) (int, error) {
	r.pending()
	r.depths = append(r.depths, val.Int(depth))
	fail, k, e, v := r.next()
	*r.cur = append(*r.cur, val.L(val.N(1), val.B(append([]byte(nil), p...)), v))
	if fail {
		if k > len(p) {
			k = len(p)
		}
		return k, sessErr(e)
	}
	return len(p), nil
}

func (r *rwRec) flush(canReport bool, depth int) error {
	r.pending()
	r.depths = append(r.depths, val.Int(depth))
	fail, _, e, _ := r.next()
	if fail && canReport {
		*r.cur = append(*r.cur, val.L(val.N(2), val.N(e)))
		return sessErr(e)
	}
	*r.cur = append(*r.cur, val.L(val.N(2), val.N(0)))
	return nil
}

func (r *rwRec) writeHeader(code int) {
	r.pending()
	*r.cur = append(*r.cur, val.L(val.N(3), val.Int(code)))
}

type layerBase struct {
	rec   *rwRec
	inner http.ResponseWriter
	depth int
}

func (l layerBase) Header() http.Header         { return l.rec.header() }
func (l layerBase) Write(p []byte) (int, error) { return l.rec.write(p, l.depth) }
func (l layerBase) WriteHeader(code int)        { l.rec.writeHeader(code) }

// the eight method sets: FlushError / Flush / Unwrap
type l000 struct{ layerBase }
type l001 struct{ layerBase }
type l010 struct{ layerBase }
type l011 struct{ layerBase }
type l100 struct{ layerBase }
type l101 struct{ layerBase }
type l110 struct{ layerBase }
type l111 struct{ layerBase }

func (l l001) Unwrap() http.ResponseWriter { return l.inner }
func (l l011) Unwrap() http.ResponseWriter { return l.inner }
func (l l101) Unwrap() http.ResponseWriter { return l.inner }
func (l l111) Unwrap() http.ResponseWriter { return l.inner }
func (l l010) Flush()                      { _ = l.rec.flush(false, l.depth) }
func (l l011) Flush()                      { _ = l.rec.flush(false, l.depth) }
func (l l100) FlushError() error           { return l.rec.flush(true, l.depth) }
func (l l101) FlushError() error           { return l.rec.flush(true, l.depth) }
func (l l110) FlushError() error           { return l.rec.flush(true, l.depth) }
func (l l111) FlushError() error           { return l.rec.flush(true, l.depth) }
func (l l110) Flush()                      { _ = l.FlushError() }
func (l l111) Flush()                      { _ = l.FlushError() }

func buildWriter(rec *rwRec, shape val.V) http.ResponseWriter { return buildLayer(rec, shape, 0) }

func buildLayer(rec *rwRec, shape val.V, depth int) http.ResponseWriter {
	var inner http.ResponseWriter
	hasInner := shape.At(2).Present()
	if hasInner {
		inner = buildLayer(rec, shape.At(2).At(0), depth+1)
	}
	b := layerBase{rec, inner, depth}
	fe, fl := shape.At(0).Truth(), shape.At(1).Truth()
	switch {
	case !fe && !fl && !hasInner:
		return l000{b}
	case !fe && !fl && hasInner:
		return l001{b}
	case !fe && fl && !hasInner:
		return l010{b}
	case !fe && fl && hasInner:
		return l011{b}
	case fe && !fl && !hasInner:
		return l100{b}
	case fe && !fl && hasInner:
		return l101{b}
	case fe && fl && !hasInner:
		return l110{b}
	default:
		return l111{b}
	}
}

func buildMessage(v val.V) *sse.Message {
	m := &sse.Message{}
	if v.At(0).Present() {
		m.ID = sse.ID(v.At(0).At(0).Str())
	}
	if v.At(1).Present() {
		m.Type = sse.Type(v.At(1).At(0).Str())
	}
	m.Retry = time.Duration(v.At(2).Signed())
	for _, c := range v.At(3).Items() {
		if c.At(0).Truth() {
			m.AppendComment(c.At(1).Str())
		} else {
			m.AppendData(c.At(1).Str())
		}
	}
	return m
}

// performs the calls on a MessageWriter; per call (returned, entries, the layer of every Write / Flush among them)
func runSessionCalls(rec *rwRec, back *[]val.V, mw sse.MessageWriter, pool []*sse.Message, calls []val.V) []val.V {
	out := make([]val.V, 0, len(calls))
	for _, c := range calls {
		var bucket []val.V
		rec.phase(&bucket)
		rec.depths = nil
		var err error
		if c.At(0).Num() == 0 {
			m := &sse.Message{}
			if i := c.At(1).Int(); i < len(pool) {
				m = pool[i]
			}
			err = mw.Send(m)
		} else {
			err = mw.Flush()
		}
		rec.phase(back)
		out = append(out, val.L(val.N(sessErrCode(err)), val.List(bucket), val.List(rec.depths)))
	}
	return out
}

type recProvider struct {
	rec      *rwRec
	server   *[]val.V
	pool     []*sse.Message
	calls    []val.V
	perr     val.V
	called   int
	topics   []string
	lei      sse.EventID
	results  []val.V
	clientOK bool
}

type textErr string

func (e textErr) Error() string { return string(e) }

func (p *recProvider) Subscribe(_ context.Context, sub sse.Subscription) error {
	p.called++
	p.topics = append([]string(nil), sub.Topics...)
	p.lei = sub.LastEventID
	p.clientOK = sub.Client != nil
	if sub.Client != nil {
		p.results = runSessionCalls(p.rec, p.server, sub.Client, p.pool, p.calls)
	}
	if p.perr.Present() {
		return refusalError(p.perr.At(1).Num(), p.perr.At(0).Str(), p.perr.At(2).Str())
	}
	return nil
}

// refusalError: the error Subscribe returns.  kind 0: an opaque error whose text is <text>;
// 1: sse.ErrProviderClosed itself (what Joe answers after Shutdown); 2: an error wrapping it
// ("<prefix>: %w", what an adapter around another provider returns); 3: context.Canceled;
// 4: sse.ErrNoTopic; 5: an error wrapping context.Canceled; 6: context.DeadlineExceeded;
// 7: an error wrapping sse.ErrNoTopic; 8: errors.Join of an opaque error and sse.ErrProviderClosed;
// 9 and above: the error characters of session_errs.go (character kind-8: the sentinels of net/http, io,
// context, net, os and of the library, themselves / wrapped / matched through Is / joined / inside a *net.OpError ...).
func refusalError(kind uint64, text, prefix string) error {
	if kind >= refusalKinds && kind < refusalKindsAll {
		return sessErrValue(1000*(kind-refusalKinds+1) + 7)
	}
	switch kind {
	case 1:
		return sse.ErrProviderClosed
	case 2:
		return fmt.Errorf("%s: %w", prefix, sse.ErrProviderClosed)
	case 3:
		return context.Canceled
	case 4:
		return sse.ErrNoTopic
	case 5:
		return fmt.Errorf("%s: %w", prefix, context.Canceled)
	case 6:
		return context.DeadlineExceeded
	case 7:
		return fmt.Errorf("%s: %w", prefix, sse.ErrNoTopic)
	case 8:
		return errors.Join(textErr(prefix), sse.ErrProviderClosed)
	}
	return textErr(text)
}

const refusalKinds = 9
const refusalKindsAll = refusalKinds + sessChars - 1

// perrV: the input form of a refusal (the text is what the error says, on this tree)
func perrV(kind uint64, prefix string) val.V {
	return val.L(val.S(refusalError(kind, prefix, prefix).Error()), val.N(kind), val.S(prefix))
}

// setPreset puts a Content-Type on the response the way user code does
func setPreset(w http.ResponseWriter, presetopt val.V) {
	if presetopt.Present() {
		w.Header()["Content-Type"] = presetopt.At(0).Strs()
	}
}
func (p *recProvider) Publish(*sse.Message, []string) error { return errors.New("unused") }
func (p *recProvider) Shutdown(context.Context) error       { return nil }

func execSession(in val.V) val.V {
	return guard(func() val.V {
		sessReset()
		switch in.At(0).Num() {
		case 0:
			return execSessionCalls(in)
		case 1:
			return execServe(in)
		default:
			return execRealServer(in)
		}
	})
}

// Kind 2: the same Server behind a real net/http server on the loopback interface, read by a
// real http.Client: what a client receives (status, Content-Type, the whole body) when nothing
// fails.  net/http is not modelled; this only shows that the recording writer above stands for
// a real one (which offers both Flush and FlushError).
//
//	input  : (n2 (msg ...) (call ...) presetopt)     at least one call; the preset is OnSession's
//	output : (n<status> x<Content-Type> x<body> (n<returned> ...))
func execRealServer(in val.V) val.V {
	prov := &realProvider{pool: poolOf(in.At(1)), calls: in.At(2).Items()}
	srv := &sse.Server{Provider: prov}
	withLogger(srv, in)
	if p := in.At(3); p.Present() {
		srv.OnSession = func(w http.ResponseWriter, _ *http.Request) ([]string, bool) {
			setPreset(w, p)
			return nil, true
		}
	}
	ts := httptest.NewServer(srv)
	defer ts.Close()
	client := &http.Client{Timeout: 20 * time.Second, Transport: &http.Transport{DisableKeepAlives: true}}
	res, err := client.Get(ts.URL)
	if err != nil {
		return val.S("request failed")
	}
	defer res.Body.Close()
	body, err := io.ReadAll(res.Body)
	if err != nil {
		return val.S("body read failed")
	}
	rets := make([]val.V, len(prov.rets))
	for i, e := range prov.rets {
		rets[i] = val.N(e)
	}
	return val.L(val.Int(res.StatusCode), val.S(strings.Join(res.Header["Content-Type"], ",")), val.B(body), val.List(rets))
}

type realProvider struct {
	pool  []*sse.Message
	calls []val.V
	rets  []uint64
}

func (p *realProvider) Subscribe(_ context.Context, sub sse.Subscription) error {
	for _, c := range p.calls {
		var err error
		if c.At(0).Num() == 0 {
			m := &sse.Message{}
			if i := c.At(1).Int(); i < len(p.pool) {
				m = p.pool[i]
			}
			err = sub.Client.Send(m)
		} else {
			err = sub.Client.Flush()
		}
		if err != nil {
			p.rets = append(p.rets, 99)
		} else {
			p.rets = append(p.rets, 0)
		}
	}
	return nil
}
func (p *realProvider) Publish(*sse.Message, []string) error { return errors.New("unused") }
func (p *realProvider) Shutdown(context.Context) error       { return nil }

func poolOf(v val.V) []*sse.Message {
	pool := make([]*sse.Message, v.Len())
	for i, m := range v.Items() {
		pool[i] = buildMessage(m)
	}
	return pool
}

func execSessionCalls(in val.V) val.V {
	var other, before []val.V
	rec := &rwRec{script: in.At(4).Items(), hdr: http.Header{}, cur: &before}
	w := buildWriter(rec, in.At(1))
	setPreset(w, in.At(5)) // user code in front of Upgrade (its own writer calls are not part of the observation)
	rec.phase(&other)
	sess, err := sse.Upgrade(w, httptest.NewRequest(http.MethodGet, "/", nil))
	if err != nil {
		if !errors.Is(err, sse.ErrUpgradeUnsupported) || sess != nil {
			return val.S("unexpected Upgrade error")
		}
		return val.L(val.N(1))
	}
	res := runSessionCalls(rec, &other, sess, poolOf(in.At(2)), in.At(3).Items())
	if len(other) != 0 {
		return val.S("writer calls outside Send/Flush")
	}
	return val.List(append([]val.V{val.N(0)}, res...))
}

func execServe(in val.V) val.V {
	var server, user []val.V
	rec := &rwRec{script: in.At(7).Items(), hdr: http.Header{}, cur: &server}
	w := buildWriter(rec, in.At(1))
	req := httptest.NewRequest(http.MethodGet, "/", nil)
	if vals := in.At(2).Strs(); len(vals) > 0 {
		req.Header["Last-Event-Id"] = vals
	}
	prov := &recProvider{rec: rec, server: &server, pool: poolOf(in.At(4)), calls: in.At(5).Items(), perr: in.At(6)}
	srv := &sse.Server{Provider: prov}
	withLogger(srv, in)
	if ons := in.At(3); ons.Present() {
		o := ons.At(0)
		srv.OnSession = func(ow http.ResponseWriter, r *http.Request) ([]string, bool) {
			rec.phase(&user)
			setPreset(ow, o.At(4))
			if o.At(2).Present() {
				ow.WriteHeader(o.At(2).At(0).Int())
			}
			rec.phase(&server)
			var topics []string
			if o.At(0).Len() > 0 {
				topics = o.At(0).Strs()
			} else if o.At(3).Truth() {
				topics = []string{} // "no topics" as an empty, non-nil slice (strings.Fields(""), a filtered x[:0] ...)
			}
			return topics, o.At(1).Truth()
		}
	}
	srv.ServeHTTP(w, req)
	rec.pending()
	sub := val.L()
	if prov.called > 1 || (prov.called == 1 && !prov.clientOK) {
		return val.S("provider misuse")
	}
	if prov.called == 1 {
		sub = val.L(val.L(val.Strs(prov.topics), val.Opt(val.S(prov.lei.String()), prov.lei.IsSet())))
	}
	return val.L(sub, val.List(prov.results), val.List(user), val.List(server))
}

// ---- generators -----------------------------------------------------------------

func shapeV(fe, fl bool, inner ...val.V) val.V {
	if len(inner) > 0 {
		return val.L(val.Bool(fe), val.Bool(fl), val.L(inner[0]))
	}
	return val.L(val.Bool(fe), val.Bool(fl), val.L())
}

var (
	shFlushError = shapeV(true, false)
	shFlusher    = shapeV(false, true)
	shBoth       = shapeV(true, true)
	shNone       = shapeV(false, false)
	flushShapes  = []val.V{
		shFlushError, shFlusher, shBoth,
		shapeV(false, false, shFlushError),
		shapeV(false, false, shBoth),
		shapeV(false, false, shapeV(false, false, shFlusher)),
		shapeV(false, true, shFlushError), // outer plain Flusher hides an inner FlushError
		shapeV(true, true, shNone),
	}
	// more than one layer that can flush: a middleware writer that flushes (with or without reporting) and hands out the
	// writer it wraps, over a writer that flushes in the other / the same way, directly or through a layer that only unwraps;
	// and such a pair behind a layer that only unwraps
	layeredShapes = []val.V{
		shapeV(true, false, shFlusher),
		shapeV(false, true, shBoth),
		shapeV(true, true, shFlushError),
		shapeV(false, true, shFlusher),
		shapeV(true, false, shFlushError),
		shapeV(false, true, shapeV(false, false, shFlushError)),
		shapeV(false, false, shapeV(false, true, shFlushError)),
		shapeV(false, false, shapeV(true, false, shFlusher)),
		shapeV(false, true, shapeV(false, true, shBoth)),
	}
	deadShapes = []val.V{shNone, shapeV(false, false, shNone), shapeV(false, false, shapeV(false, false, shNone))}
)

func msgV(id, typ *string, retry int64, chunks ...val.V) val.V {
	o := func(s *string) val.V {
		if s == nil {
			return val.L()
		}
		return val.L(val.S(*s))
	}
	return val.L(o(id), o(typ), val.Z(retry), val.List(chunks))
}
func dataV(s string) val.V    { return val.L(val.N(0), val.S(s)) }
func commentV(s string) val.V { return val.L(val.N(1), val.S(s)) }
func sp(s string) *string     { return &s }

func smallPool() val.V {
	return val.L(
		msgV(nil, nil, 0, dataV("a")),
		msgV(sp("i1"), sp("t"), 1_500_000_000, commentV("c"), dataV("x\ny")),
		msgV(nil, nil, 0), // nothing to write
	)
}

// Content-Type values found on a response before the session's first Send/Flush (presetopt)
func presetV(values ...string) val.V { return val.L(val.Strs(values)) }

var presets = []val.V{
	presetV("application/json"),
	presetV("text/plain; charset=utf-8"),
	presetV("text/event-stream; charset=utf-8"),
	presetV("text/event-stream"),
	presetV(""),
	presetV(), // the key is there, without a value
	presetV("text/html", "text/event-stream"),
	presetV("Text/Event-Stream"),
}

// a preset or, half of the time, none
func maybePreset(r *rng.R) val.V {
	if r.Intn(2) == 0 {
		return val.L()
	}
	return presets[r.Intn(len(presets))]
}

func sendV(i int) val.V { return val.L(val.N(0), val.Int(i)) }
func flushV() val.V     { return val.L(val.N(1)) }

// how many writer operations the calls perform when nothing fails
func countOps(shape, pool val.V, calls []val.V) int {
	in := val.L(val.N(0), shape, pool, val.List(calls), val.L())
	out := execSessionCalls(in)
	n := 0
	for _, r := range out.Items()[1:] {
		for _, e := range r.At(1).Items() {
			if k := e.At(0).Num(); k == 1 || k == 2 {
				n++
			}
		}
	}
	return n
}

func failAt(k int, accept int, code uint64) val.V {
	script := make([]val.V, k+1)
	for i := 0; i < k; i++ {
		script[i] = val.L()
	}
	script[k] = val.L(val.Int(accept), val.N(code))
	return val.List(script)
}

// withChars gives every failing verdict of a script an error character (session_errs.go): the index
// n<low> becomes low + 1000*char, char drawn per verdict.
func withChars(c *Ctx, script val.V) val.V {
	items := script.Items()
	out := make([]val.V, len(items))
	for i, v := range items {
		if v.Len() == 2 {
			out[i] = val.L(v.At(0), val.N(sessIdx(c.R, c, v.At(1).Num()%1000)))
		} else {
			out[i] = v
		}
	}
	return val.List(out)
}

// allFail: a writer that never recovers - every one of n operations fails with the error of that index
func allFail(n int, accept int, idx uint64) val.V {
	script := make([]val.V, n)
	for i := range script {
		script[i] = val.L(val.Int(accept), val.N(idx))
	}
	return val.List(script)
}

func genRandMsg(r *rng.R) val.V {
	var id, typ *string
	if r.Intn(3) == 0 {
		id = sp(rng.Pick(r, []string{"", "1", "abc", "id with space", "é"}))
	}
	if r.Intn(3) == 0 {
		typ = sp(rng.Pick(r, []string{"", "t", "update", "x y"}))
	}
	retry := int64(0)
	if r.Intn(4) == 0 {
		retry = retryValues[r.Intn(len(retryValues))]
	}
	n := r.Intn(4)
	chunks := make([]val.V, n)
	for i := range chunks {
		if r.Intn(4) == 0 {
			chunks[i] = commentV(genText(r))
		} else {
			chunks[i] = dataV(genText(r))
		}
	}
	return msgV(id, typ, retry, chunks...)
}

func genSession(c *Ctx) {
	pool := smallPool()
	letters := []val.V{sendV(0), sendV(1), sendV(2), flushV()}
	// exhaustive: every call sequence up to maxLen over {Send m0, Send m1, Send empty, Flush}, on every
	// flushing shape, with no failure and with a failure at the k-th writer operation for EVERY k,
	// accepting 0 / 1 / all bytes of a failing Write
	maxLen := 3
	if c.Thorough {
		maxLen = 4
	}
	var seqs [][]val.V
	var rec func(prefix []val.V)
	rec = func(prefix []val.V) {
		if len(prefix) > 0 {
			seqs = append(seqs, append([]val.V(nil), prefix...))
		}
		if len(prefix) == maxLen {
			return
		}
		for _, l := range letters {
			rec(append(prefix, l))
		}
	}
	rec(nil)
	for si, shape := range flushShapes {
		for _, seq := range seqs {
			if !c.Thorough && si >= 3 && len(seq) == maxLen && c.R.Intn(3) != 0 {
				continue // wrapped shapes: a third of the longest sequences in the quick tier
			}
			ops := countOps(shape, pool, seq)
			c.Count("exhaustive:no-failure")
			c.Emit(val.L(val.N(0), shape, pool, val.List(seq), val.L()))
			// the same with a Content-Type already on the response before Upgrade: without a failure,
			// and with the upgrade's own flush failing (the header is set again by the next call)
			pre := presets[c.R.Intn(len(presets))]
			c.Count("exhaustive:content-type-preset")
			c.Emit(val.L(val.N(0), shape, pool, val.List(seq), val.L(), pre))
			if ops > 0 {
				c.Count("exhaustive:content-type-preset")
				c.Emit(val.L(val.N(0), shape, pool, val.List(seq), withChars(c, failAt(0, 0, 7)), presets[c.R.Intn(len(presets))]))
			}
			for k := 0; k < ops; k++ {
				for _, accept := range []int{0, 1, 1000} {
					c.Count("exhaustive:failure-at-every-operation")
					c.Emit(val.L(val.N(0), shape, pool, val.List(seq), withChars(c, failAt(k, accept, uint64(2+k%7)))))
					if accept == 0 && k+1 < ops && c.R.Intn(4) == 0 {
						// a second failure later on
						k2 := k + 1 + c.R.Intn(ops-k-1)
						s := failAt(k2, c.R.Intn(3), 9).Items()
						s[k] = val.L(val.Int(c.R.Intn(3)), val.N(8))
						c.Count("exhaustive:two-failures")
						c.Emit(val.L(val.N(0), shape, pool, val.List(seq), withChars(c, val.List(s))))
					}
				}
			}
		}
	}
	// several flushing layers: every call sequence of up to two calls, without a failure and with one at every operation
	for _, shape := range layeredShapes {
		for _, seq := range seqs {
			if len(seq) > 2 {
				continue
			}
			c.Count("layered:no-failure")
			c.Emit(val.L(val.N(0), shape, pool, val.List(seq), val.L()))
			ops := countOps(shape, pool, seq)
			for k := 0; k < ops; k++ {
				c.Count("layered:failure-at-every-operation")
				c.Emit(val.L(val.N(0), shape, pool, val.List(seq), withChars(c, failAt(k, k%2, uint64(2+k%7)))))
			}
		}
	}
	for _, shape := range deadShapes {
		c.Count("upgrade:writer-cannot-flush")
		c.Emit(val.L(val.N(0), shape, pool, val.L(sendV(0), flushV()), val.L()))
	}

	// error characters: EVERY character (the sentinels of net/http, io, context, net, os, syscall and the library,
	// themselves / wrapped / matched through an Is method / joined / inside a *net.OpError ...) as the error of the
	// k-th writer operation for EVERY k, on the FlushError route (plain, dual, behind Unwrap) and on the Flusher
	// route, over call sequences that put a failing flush at the upgrade, after it, and a failing Write at every
	// position of a message; and as the error of a writer that never recovers (every operation fails with it: e.g.
	// a middleware whose FlushError asks a ResponseController over a writer without Flush)
	charShapes := []val.V{shFlushError, shBoth, shapeV(false, false, shFlushError), shFlusher}
	charSeqs := [][]val.V{
		{flushV(), sendV(0)},
		{sendV(1), flushV()},
		{sendV(0), flushV(), flushV()},
		{sendV(2), flushV(), sendV(0)},
	}
	for char := 1; char < sessChars; char++ {
		for si, shape := range charShapes {
			for qi, seq := range charSeqs {
				if !c.Thorough && (si+qi+char)%2 == 1 && si > 0 {
					continue // quick tier: every sequence on the plain FlushError writer, half of them on the others
				}
				ops := countOps(shape, pool, seq)
				for k := 0; k < ops; k++ {
					c.Count("characters:failure-at-every-operation")
					c.Emit(val.L(val.N(0), shape, pool, val.List(seq), failAt(k, k%2, sessIdxOf(c, uint64(2+k), char))))
				}
				c.Count("characters:writer-never-recovers")
				c.Emit(val.L(val.N(0), shape, pool, val.List(seq), allFail(4*len(seq)+8, 0, sessIdxOf(c, 5, char))))
			}
		}
	}

	// random: random messages, longer call sequences, scripts with several failures
	anyFlushShapes := append(append([]val.V{}, flushShapes...), layeredShapes...)
	n := 4000
	if c.Thorough {
		n = 80000
	}
	for i := 0; i < n; i++ {
		np := 1 + c.R.Intn(3)
		msgs := make([]val.V, np)
		for j := range msgs {
			msgs[j] = genRandMsg(c.R)
		}
		nc := 1 + c.R.Intn(8)
		calls := make([]val.V, nc)
		for j := range calls {
			if c.R.Intn(3) == 0 {
				calls[j] = flushV()
			} else {
				calls[j] = sendV(c.R.Intn(np))
			}
		}
		ns := c.R.Intn(40)
		script := make([]val.V, ns)
		for j := range script {
			if c.R.Intn(6) == 0 {
				script[j] = val.L(val.Int(c.R.Intn(10)), val.N(uint64(1+c.R.Intn(9))))
			} else {
				script[j] = val.L()
			}
		}
		c.Count("random")
		pre := val.L()
		if c.R.Intn(3) == 0 {
			pre = presets[c.R.Intn(len(presets))]
			c.Count("random:content-type-preset")
		}
		c.Emit(val.L(val.N(0), rng.Pick(c.R, anyFlushShapes), val.List(msgs), val.List(calls), withChars(c, val.List(script)), pre))
	}

	// ServeHTTP: every combination of writer shape, Last-Event-Id values, OnSession result,
	// provider behaviour and failure position
	headers := []val.V{
		val.L(), val.L(val.S("")), val.L(val.S("plain")), val.L(val.S("a\nb")), val.L(val.S("a\rb")),
		val.L(val.S("x"), val.S("y")), val.L(val.S(""), val.S("z")), val.L(val.S("7"), val.S("a\nb")), val.L(val.S("with space \x00 é")),
	}
	status := func(code int) val.V { return val.L(val.Int(code)) }
	ons := []val.V{
		val.L(),
		val.L(val.L(val.L(val.S("a"), val.S("b")), val.N(1), val.L())),
		val.L(val.L(val.L(), val.N(1), val.L())),
		val.L(val.L(val.L(), val.N(1), val.L(), val.N(1))),
		val.L(val.L(val.L(), val.N(0), val.L(), val.N(1))),
		val.L(val.L(val.L(val.S("")), val.N(1), val.L())),
		val.L(val.L(val.L(), val.N(0), status(403))),
		val.L(val.L(val.L(), val.N(0), val.L())),
		val.L(val.L(val.L(val.S("a")), val.N(0), status(401))),
		val.L(val.L(val.L(val.S("t")), val.N(1), status(202))),
	}
	// lists a callback may well build (strings.Split of a query, defaults merged with requested topics): the default
	// topic "" next to named ones, a name twice, blank and padded names - the provider is owed the list as chosen
	for _, l := range [][]string{{"news", ""}, {"", "a"}, {"a", "a"}, {"a", "", "a", ""}, {" ", "a ", "\t"}} {
		ons = append(ons, val.L(val.L(val.Strs(l), val.N(1), val.L())))
	}
	baseOns := len(ons)
	// OnSession has put a Content-Type on the response (preparing an answer of its own) and then
	// accepts, accepts with a status, or rejects
	for i, pre := range presets {
		switch i % 4 {
		case 0:
			ons = append(ons, val.L(val.L(val.L(val.S("a"), val.S("b")), val.N(1), val.L(), val.N(0), pre)))
		case 1:
			ons = append(ons, val.L(val.L(val.L(), val.N(1), val.L(), val.N(0), pre)))
		case 2:
			ons = append(ons, val.L(val.L(val.L(val.S("t")), val.N(1), status(202), val.N(0), pre)))
		default:
			ons = append(ons, val.L(val.L(val.L(), val.N(0), status(403), val.N(0), pre)))
		}
	}
	type provider struct {
		calls []val.V
		perr  val.V
	}
	boom := val.L(val.S("provider refused"))
	provs := []provider{
		{nil, val.L()},
		{nil, boom},
		{[]val.V{sendV(0), flushV()}, val.L()},
		{[]val.V{sendV(0), flushV()}, boom},
		{[]val.V{flushV()}, boom},
		{[]val.V{sendV(1), sendV(0), flushV(), sendV(2)}, val.L(val.S(""))},
	}
	baseProvs := len(provs)
	// the errors providers really refuse with (sentinels of the library and of context, wrapped or
	// not), before anything was sent and after; and an opaque error that only reads like a sentinel
	for k := uint64(1); k < refusalKinds; k++ {
		provs = append(provs, provider{nil, perrV(k, "adapter")})
		if k%2 == 1 {
			provs = append(provs, provider{[]val.V{sendV(0), flushV()}, perrV(k, "adapter: subscribe")})
		} else {
			provs = append(provs, provider{[]val.V{flushV()}, perrV(k, "")})
		}
	}
	provs = append(provs, provider{nil, val.L(val.S(sse.ErrProviderClosed.Error()))})
	scripts := []val.V{val.L(), failAt(0, 0, 3), failAt(0, 5, 3), failAt(1, 2, 4), failAt(2, 0, 5), failAt(4, 1, 6)}
	shapes := append(append([]val.V{}, flushShapes...), deadShapes...)
	allShapes := append(append([]val.V{}, shapes...), layeredShapes...)
	for _, sh := range shapes {
		for _, h := range headers {
			for oi, o := range ons {
				for pi, p := range provs {
					if (oi >= baseOns || pi >= baseProvs) && c.R.Intn(3) != 0 {
						continue // presets and refusal kinds: with a third of the Last-Event-Id headers each
					}
					if oi >= baseOns {
						c.Count("serve:content-type-preset")
					}
					if pi >= baseProvs {
						c.Count("serve:refusal-with-a-real-error")
					}
					for si, s := range scripts {
						if !c.Thorough && si > 0 && c.R.Intn(3) != 0 {
							continue
						}
						c.Count("serve")
						c.Emit(val.L(val.N(1), sh, h, o, pool, val.List(p.calls), p.perr, withChars(c, s)))
					}
				}
			}
		}
	}
	// several flushing layers through ServeHTTP
	for _, sh := range layeredShapes {
		for pi, p := range provs[:baseProvs] {
			for si, s := range scripts {
				if (pi+si)%2 == 1 {
					continue
				}
				c.Count("serve:layered")
				c.Emit(val.L(val.N(1), sh, headers[(pi+si)%len(headers)], ons[si%baseOns], pool, val.List(p.calls), p.perr, withChars(c, s)))
			}
		}
	}
	// every error character through ServeHTTP: as the error of the upgrade's flush / a later Write / a later flush
	// while the provider sends, and as the error the provider refuses with (before and after sending)
	for char := 1; char < sessChars; char++ {
		for si, sh := range []val.V{shFlushError, shBoth, shapeV(false, false, shBoth), shFlusher} {
			if !c.Thorough && si > 0 && (si+char)%3 != 0 {
				continue
			}
			calls := val.L(sendV(0), flushV(), sendV(1), flushV())
			for _, k := range []int{0, 1, 3, 4} {
				c.Count("serve:characters:writer-error")
				c.Emit(val.L(val.N(1), sh, val.L(), val.L(), pool, calls, val.L(), failAt(k, 0, sessIdxOf(c, uint64(3+k), char))))
			}
			c.Count("serve:characters:writer-never-recovers")
			c.Emit(val.L(val.N(1), sh, val.L(), val.L(), pool, calls, boom, allFail(24, 0, sessIdxOf(c, 4, char))))
			perr := perrV(uint64(refusalKinds+char-1), "")
			c.Count("serve:characters:refusal")
			c.Emit(val.L(val.N(1), sh, val.L(), val.L(), pool, val.L(), perr, val.L()))
			c.Count("serve:characters:refusal")
			c.Emit(val.L(val.N(1), sh, val.L(), val.L(), pool, val.L(flushV()), perr, val.L()))
			c.Count("serve:characters:refusal")
			c.Emit(val.L(val.N(1), sh, val.L(val.S("5")), ons[1], pool, val.L(sendV(0), flushV()), perr, failAt(0, 0, sessIdxOf(c, 6, char))))
		}
	}
	m := 1500
	if c.Thorough {
		m = 30000
	}
	for i := 0; i < m; i++ {
		ns := c.R.Intn(12)
		script := make([]val.V, ns)
		for j := range script {
			if c.R.Intn(4) == 0 {
				script[j] = val.L(val.Int(c.R.Intn(10)), val.N(uint64(1+c.R.Intn(9))))
			} else {
				script[j] = val.L()
			}
		}
		nc := c.R.Intn(5)
		calls := make([]val.V, nc)
		for j := range calls {
			if c.R.Intn(3) == 0 {
				calls[j] = flushV()
			} else {
				calls[j] = sendV(c.R.Intn(3))
			}
		}
		h := val.L()
		if c.R.Intn(4) != 0 {
			vals := make([]val.V, 1+c.R.Intn(2))
			for j := range vals {
				vals[j] = val.S(genFieldText(c.R))
			}
			h = val.List(vals)
		}
		perr := val.L()
		if c.R.Intn(2) == 0 {
			texts := []string{"boom", "", "no topics", "line1\nline2", "provider is closed", "context canceled"}
			if c.R.Intn(2) == 0 {
				perr = perrV(uint64(c.R.Intn(refusalKinds)), rng.Pick(c.R, texts))
				c.Count(fmt.Sprintf("serve:random:refusal-kind-%d", perr.At(1).Num()))
			} else {
				char := 1 + c.R.Intn(sessChars-1)
				perr = perrV(uint64(refusalKinds+char-1), "")
				c.Count("serve:random:refusal-character:" + sessCharName(char))
			}
		}
		c.Count("serve:random")
		c.Emit(val.L(val.N(1), rng.Pick(c.R, allShapes), h, rng.Pick(c.R, ons), pool, val.List(calls), perr, withChars(c, val.List(script))))
	}

	// a real net/http server on the loopback interface, when this machine has one
	if l, err := net.Listen("tcp", "127.0.0.1:0"); err != nil {
		c.Count("real-server:unavailable")
	} else {
		l.Close()
		k := 150
		if c.Thorough {
			k = 2000
		}
		for i := 0; i < k; i++ {
			np := 1 + c.R.Intn(3)
			msgs := make([]val.V, np)
			for j := range msgs {
				msgs[j] = genRandMsg(c.R)
			}
			nc := 1 + c.R.Intn(6)
			calls := make([]val.V, nc)
			for j := range calls {
				if c.R.Intn(3) == 0 {
					calls[j] = flushV()
				} else {
					calls[j] = sendV(c.R.Intn(np))
				}
			}
			c.Count("real-server")
			pre := maybePreset(c.R)
			if pre.Present() {
				c.Count("real-server:content-type-preset")
			}
			c.Emit(val.L(val.N(2), val.List(msgs), val.List(calls), pre))
		}
	}
}

// withLogger sets Server.Logger for half of the cases (a deterministic function of the input): logging must not
// change what ServeHTTP does.
func withLogger(srv *sse.Server, in val.V) {
	if len(val.String(in))%2 == 0 {
		l := slog.New(slog.NewTextHandler(io.Discard, nil))
		srv.Logger = func(*http.Request) *slog.Logger { return l }
	}
}
