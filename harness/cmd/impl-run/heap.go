package main

import (
	"context"
	"runtime"
	"runtime/debug"
	"time"

	sse "github.com/tmaxmax/go-sse"

	"verifharness/val"
)

// Family "heap" (C19): operations on a family of real messages; after every operation the
// backing array identity, len and cap of every member's chunk slice and every member's encoding
// are observed.  See coq/theories/RunHeap.v for the formats.

func init() { families["heap"] = family{gen: genHeap, exec: execHeap} }

var heapCases int

func execHeap(in val.V) val.V {
	// array identities are addresses: no collection (hence no address reuse) inside one case
	old := debug.SetGCPercent(-1)
	defer debug.SetGCPercent(old)
	heapCases++
	if heapCases%2000 == 0 {
		runtime.GC()
	}
	return guard(func() val.V {
		fam := []*sse.Message{{}}
		ids := map[uintptr]int{}
		fin, _ := sse.NewFiniteReplayer(2, true) // the smallest ring: it wraps at every other Put
		var clock time.Duration
		start := time.Now()
		now := func() time.Time { return start.Add(clock) }
		vr, _ := sse.NewValidReplayer(1000*time.Second, true)
		vr.Now = now
		finManual, _ := sse.NewFiniteReplayer(4, false)
		vrManual, _ := sse.NewValidReplayer(1000*time.Second, false)
		vrManual.Now = now
		// op 10: Joes with replayers of their own (their IDs are nobody's business here), nobody subscribed
		joes := map[uint64]*sse.Joe{}
		defer func() {
			for _, j := range joes {
				ctx, cancel := context.WithTimeout(context.Background(), time.Second)
				_ = j.Shutdown(ctx)
				cancel()
			}
		}()
		joeOf := func(kind uint64) *sse.Joe {
			if j, ok := joes[kind]; ok {
				return j
			}
			var rep sse.Replayer
			switch kind {
			case 0:
				rep, _ = sse.NewFiniteReplayer(2, true)
			case 1:
				rep, _ = sse.NewValidReplayer(1000*time.Second, true)
			case 2:
				rep, _ = sse.NewFiniteReplayer(4, false)
			default:
				rep, _ = sse.NewValidReplayer(1000*time.Second, false)
			}
			joes[kind] = &sse.Joe{Replayer: rep}
			return joes[kind]
		}
		outs := []val.V{}
		for _, op := range in.Items() {
			t := op.At(1).Int()
			if op.At(0).Num() == 9 {
				// the ValidReplayers' clock advances and they collect: stored copies may expire, which concerns no message
				// of the family (the publisher's own messages and earlier publications must read as before)
				clock += time.Duration(op.At(1).Int()) * time.Second
				vr.GC()
				vrManual.GC()
			} else if t < len(fam) {
				m := fam[t]
				switch op.At(0).Num() {
				case 0:
					if op.At(2).Truth() {
						m.AppendComment(op.At(3).Str())
					} else {
						m.AppendData(op.At(3).Str())
					}
				case 10:
					_ = joeOf(op.At(2).Num()).Publish(m, []string{"t"})
				case 1:
					if op.At(2).Present() {
						m.ID = sse.ID(op.At(2).At(0).Str())
					} else {
						m.ID = sse.EventID{}
					}
				case 2:
					if op.At(2).Present() {
						m.Type = sse.Type(op.At(2).At(0).Str())
					} else {
						m.Type = sse.EventType{}
					}
				case 3:
					m.Retry = time.Duration(op.At(2).Signed())
				case 4:
					fam = append(fam, m.Clone())
				case 5:
					// reset() is the first step of UnmarshalText; an empty event is ErrUnexpectedEOF after the reset
					_ = m.UnmarshalText(nil)
				case 7:
					_ = m.UnmarshalText([]byte("data: " + op.At(2).Str() + "\n\n"))
				case 8:
					text := "event: " + op.At(2).Str() + "\n"
					if op.At(3).Present() {
						text += "data: " + op.At(3).At(0).Str() + "\n"
					}
					_ = m.UnmarshalText([]byte(text + "\n"))
				default:
					var stored *sse.Message
					var err error
					switch op.At(2).Num() {
					case 0:
						stored, err = fin.Put(m, []string{"t"})
					case 1:
						stored, err = vr.Put(m, []string{"t"})
					case 2:
						stored, err = finManual.Put(m, []string{"t"})
					default:
						stored, err = vrManual.Put(m, []string{"t"})
					}
					// with explicit IDs the replayer keeps the caller's message itself: no new member
					if err == nil && stored != m {
						fam = append(fam, stored)
					}
				}
			}
			members := make([]val.V, len(fam))
			for i, m := range fam {
				l, c := m.VerifChunkCap()
				base := val.L()
				if c > 0 {
					b := m.VerifChunkBase()
					id, ok := ids[b]
					if !ok {
						id = len(ids)
						ids[b] = id
					}
					base = val.L(val.Int(id))
				}
				members[i] = val.L(base, val.Int(l), val.Int(c), wireOf(m))
			}
			outs = append(outs, val.List(members))
		}
		return val.List(outs)
	})
}

// withHints runs the operations once to learn which capacity the runtime gives each reallocation
// (an environment choice, part of the model's input) and writes it into the append operations.
func withHints(ops []val.V) val.V {
	obs := execHeap(val.List(ops))
	out := make([]val.V, len(ops))
	for i, op := range ops {
		if k := op.At(0).Num(); (k == 0 || k == 7) && obs.K == '(' && i < obs.Len() {
			t := op.At(1).Int()
			c := obs.At(i).At(t).At(2)
			if c.K == 'n' && k == 0 {
				op = val.L(op.At(0), op.At(1), op.At(2), op.At(3), c)
			} else if c.K == 'n' {
				op = val.L(op.At(0), op.At(1), op.At(2), c)
			}
		} else if k == 8 && obs.K == '(' && i < obs.Len() {
			if c := obs.At(i).At(op.At(1).Int()).At(2); c.K == 'n' && op.At(3).Present() {
				op = val.L(op.At(0), op.At(1), op.At(2), op.At(3), c)
			}
		}
		out[i] = op
	}
	return val.List(out)
}

func genHeap(c *Ctx) {
	line := func(i int) val.V { return val.S(string(rune('a' + i%26))) }
	app := func(t, i int) val.V { return val.L(val.N(0), val.Int(t), val.N(0), line(i), val.N(0)) }
	// exhaustive: a template with k lines, cloned twice (second clone possibly of the first), then appends in every order
	for k := 0; k <= 9; k++ {
		for second := 0; second < 2; second++ {
			for order := 0; order < 6; order++ {
				ops := []val.V{}
				for i := 0; i < k; i++ {
					ops = append(ops, app(0, i))
				}
				ops = append(ops, val.L(val.N(4), val.N(0)), val.L(val.N(4), val.Int(second)))
				perm := [][3]int{{0, 1, 2}, {0, 2, 1}, {1, 0, 2}, {1, 2, 0}, {2, 0, 1}, {2, 1, 0}}[order]
				for n, t := range perm {
					ops = append(ops, app(t, 20+n))
				}
				c.Count("exhaustive-clone-then-append")
				c.Emit(withHints(ops))
			}
		}
	}
	// exhaustive: one message published k times through both replayers, with appends in between
	for k := 1; k <= 6; k++ {
		for lines := 0; lines <= 5; lines++ {
			ops := []val.V{}
			for i := 0; i < lines; i++ {
				ops = append(ops, app(0, i))
			}
			for i := 0; i < k; i++ {
				ops = append(ops, val.L(val.N(6), val.N(0), val.Int(i%2)))
				if i%3 == 1 {
					ops = append(ops, app(0, 10+i), app(1+i/2, 15+i))
				}
			}
			c.Count("exhaustive-publish-k-times")
			c.Emit(withHints(ops))
		}
	}
	// exhaustive: one message published k times through ONE replayer (the ring wraps), re-examining all earlier publications
	for kind := 0; kind < 2; kind++ {
		for k := 1; k <= 9; k++ {
			ops := []val.V{app(0, 0)}
			for i := 0; i < k; i++ {
				ops = append(ops, val.L(val.N(6), val.N(0), val.Int(kind)))
			}
			ops = append(ops, app(0, 1))
			c.Count("exhaustive-publish-k-times-one-replayer")
			c.Emit(withHints(ops))
		}
	}
	// exhaustive: one message published k times through the ValidReplayers, everything expires and is collected, then again
	for kind := 1; kind < 4; kind += 2 {
		for k := 1; k <= 5; k++ {
			ops := []val.V{app(0, 0), app(0, 1), app(0, 2)}
			if kind == 3 {
				ops = append(ops, val.L(val.N(1), val.N(0), val.L(val.S("man"))))
			}
			for i := 0; i < k; i++ {
				ops = append(ops, val.L(val.N(6), val.N(0), val.Int(kind)))
			}
			ops = append(ops, val.L(val.N(9), val.N(600)), val.L(val.N(6), val.N(0), val.Int(kind)), val.L(val.N(9), val.N(600)),
				val.L(val.N(6), val.N(0), val.Int(kind)), val.L(val.N(9), val.N(1100)), val.L(val.N(6), val.N(0), val.Int(kind)), app(0, 3))
			c.Count("exhaustive-publish-expire-republish")
			c.Emit(withHints(ops))
		}
	}
	// one message published 105 times through each ID-assigning replayer: every publication keeps its own ID (three digits
	// included) whatever is published later
	for kind := 0; kind < 2; kind++ {
		ops := []val.V{app(0, 0)}
		for i := 0; i < 105; i++ {
			ops = append(ops, val.L(val.N(6), val.N(0), val.Int(kind)))
		}
		ops = append(ops, app(0, 1))
		c.Count("directed-publish-105-times")
		c.Emit(withHints(ops))
	}
	// exhaustive: UnmarshalText into a message that has clones / stored copies, at every template size
	for k := 1; k <= 6; k++ {
		for target := 0; target < 3; target++ {
			ops := []val.V{}
			for i := 0; i < k; i++ {
				ops = append(ops, app(0, i))
			}
			ops = append(ops, val.L(val.N(4), val.N(0)), val.L(val.N(6), val.N(0), val.N(1)),
				val.L(val.N(7), val.Int(target), val.S("fresh"), val.N(0)), app(target, 5), val.L(val.N(7), val.Int(target), val.S("again"), val.N(0)))
			c.Count("exhaustive-unmarshal-into-shared")
			c.Emit(withHints(ops))
		}
	}
	// exhaustive: a message decoded from an event with a type and no (or one) data line, with k earlier lines or none,
	// then cloned / published, then every member appended to in every order
	for k := 0; k <= 3; k++ {
		for withLine := 0; withLine < 2; withLine++ {
			for how := 0; how < 3; how++ {
				for order := 0; order < 6; order++ {
					ops := []val.V{}
					for i := 0; i < k; i++ {
						ops = append(ops, app(0, i))
					}
					ops = append(ops, val.L(val.N(8), val.N(0), val.S("ping"), val.Opt(val.S("only"), withLine == 1), val.N(0)))
					switch how {
					case 0:
						ops = append(ops, val.L(val.N(4), val.N(0)), val.L(val.N(4), val.N(1)))
					case 1:
						ops = append(ops, val.L(val.N(6), val.N(0), val.N(0)), val.L(val.N(6), val.N(0), val.N(0)))
					default:
						ops = append(ops, val.L(val.N(6), val.N(0), val.N(1)), val.L(val.N(4), val.N(0)))
					}
					perm := [][3]int{{0, 1, 2}, {0, 2, 1}, {1, 0, 2}, {1, 2, 0}, {2, 0, 1}, {2, 1, 0}}[order]
					for n, t := range perm {
						ops = append(ops, app(t, 20+n))
					}
					c.Count("exhaustive-decode-dataless-then-share")
					c.Emit(withHints(ops))
				}
			}
		}
	}
	// exhaustive: Publish through a Joe with each kind of replayer, of a message whose ID is unset / set and empty / set,
	// twice (the first may be refused, the second must meet the same message)
	for idk := 0; idk < 3; idk++ {
		for kind := 0; kind < 4; kind++ {
			ops := []val.V{app(0, 0)}
			switch idk {
			case 1:
				ops = append(ops, val.L(val.N(1), val.N(0), val.L(val.S(""))))
			case 2:
				ops = append(ops, val.L(val.N(1), val.N(0), val.L(val.S("x"))))
			}
			ops = append(ops, val.L(val.N(3), val.N(0), val.Z(2_000_000)), val.L(val.N(10), val.N(0), val.Int(kind)), val.L(val.N(10), val.N(0), val.Int(kind)), app(0, 1))
			c.Count("exhaustive-publish-through-joe")
			c.Emit(withHints(ops))
		}
	}
	// exhaustive: Put through all four replayers of a message whose ID is unset / set and empty / set
	for idk := 0; idk < 3; idk++ {
		for kind := 0; kind < 4; kind++ {
			ops := []val.V{app(0, 0)}
			switch idk {
			case 1:
				ops = append(ops, val.L(val.N(1), val.N(0), val.L(val.S(""))))
			case 2:
				ops = append(ops, val.L(val.N(1), val.N(0), val.L(val.S("x"))))
			}
			ops = append(ops, val.L(val.N(6), val.N(0), val.Int(kind)), val.L(val.N(6), val.N(0), val.Int(kind)), app(0, 1))
			c.Count("exhaustive-put-id-kinds")
			c.Emit(withHints(ops))
		}
	}
	// exhaustive: accepted and rejected Puts through ONE replayer in every order.  Member 0 carries no ID, member 1 (a clone)
	// an explicit one; "the newest publication" is the copy the last accepted automatic Put returned (it carries the ID it
	// was given), so republishing it is rejected by the replayers that assign IDs.  With automatic IDs (kinds 0, 1) member 0 is
	// accepted and the two others are rejected, with explicit IDs (kinds 2, 3) it is the other way round.  Every publication's
	// encoding (its ID line included) is re-read after every step.
	for kind := 0; kind < 4; kind++ {
		for length := 1; length <= 5; length++ {
			seq := make([]int, length)
			for {
				ops := []val.V{app(0, 0), val.L(val.N(4), val.N(0)), val.L(val.N(1), val.N(1), val.L(val.S("x")))}
				members, newest := 2, 1
				for _, a := range seq {
					target := []int{0, newest, 1}[a]
					ops = append(ops, val.L(val.N(6), val.Int(target), val.Int(kind)))
					if a == 0 && kind < 2 {
						newest = members
						members++
					}
				}
				ops = append(ops, app(0, 1))
				c.Count("exhaustive-accepted-and-rejected-puts")
				c.Emit(withHints(ops))
				k := length - 1
				for k >= 0 {
					seq[k]++
					if seq[k] < 3 {
						break
					}
					seq[k] = 0
					k--
				}
				if k < 0 {
					break
				}
			}
		}
	}
	n, maxOps := 3000, 16
	if c.Thorough {
		n, maxOps = 60000, 40
	}
	for i := 0; i < n; i++ {
		// the generator follows which members exist and which of them carry an ID (a Put through a replayer that assigns IDs
		// adds the stored copy to the family iff the target has none)
		hasID := []bool{false}
		l := 1 + c.R.Intn(maxOps)
		ops := make([]val.V, 0, l)
		put := func(t, kind int) {
			ops = append(ops, val.L(val.N(6), val.Int(t), val.Int(kind)))
			c.Count("op:put")
			if kind < 2 && !hasID[t] {
				hasID = append(hasID, true)
				c.Count("op:put:auto-accepted")
			} else if kind < 2 {
				c.Count("op:put:auto-rejected")
			}
		}
		for j := 0; j < l; j++ {
			size := len(hasID)
			t := c.R.Intn(size)
			switch x := c.R.Intn(100); {
			case x < 45:
				ops = append(ops, val.L(val.N(0), val.Int(t), val.Bool(c.R.Intn(4) == 0), line(c.R.Intn(26)), val.N(0)))
				c.Count("op:append")
			case x < 52:
				idv := "id" + string(rune('0'+c.R.Intn(10)))
				if c.R.Intn(4) == 0 {
					idv = "" // set, but empty
				}
				present := c.R.Intn(4) > 0
				ops = append(ops, val.L(val.N(1), val.Int(t), val.Opt(val.S(idv), present)))
				hasID[t] = present
				c.Count("op:set-id")
			case x < 58:
				ops = append(ops, val.L(val.N(2), val.Int(t), val.Opt(val.S("ty"), c.R.Bool())))
				c.Count("op:set-type")
			case x < 62:
				ops = append(ops, val.L(val.N(3), val.Int(t), val.Z(int64(c.R.Intn(5))*1_000_000)))
				c.Count("op:set-retry")
			case x < 80:
				if size < 10 {
					ops = append(ops, val.L(val.N(4), val.Int(t)))
					hasID = append(hasID, hasID[t])
					c.Count("op:clone")
				}
			case x < 82:
				ops = append(ops, val.L(val.N(5), val.Int(t)))
				hasID[t] = false
				c.Count("op:reset")
			case x < 84:
				ops = append(ops, val.L(val.N(7), val.Int(t), line(c.R.Intn(26)), val.N(0)))
				hasID[t] = false
				c.Count("op:unmarshal")
			case x < 86:
				ops = append(ops, val.L(val.N(8), val.Int(t), val.S("ty"), val.Opt(line(c.R.Intn(26)), c.R.Bool()), val.N(0)))
				hasID[t] = false
				c.Count("op:unmarshal-typed")
			case x < 90:
				if size < 12 {
					put(t, c.R.Intn(4))
				}
			case x < 92:
				ops = append(ops, val.L(val.N(10), val.Int(t), val.Int(c.R.Intn(4))))
				c.Count("op:publish-through-joe")
			case x < 95:
				// a burst of publications through one replayer: any members, those that carry an ID (earlier publications
				// among them) included, so accepted and rejected Puts alternate
				kind := c.R.Intn(4)
				for k := 2 + c.R.Intn(3); k > 0 && len(hasID) < 12; k-- {
					put(c.R.Intn(len(hasID)), kind)
					j++
				}
				c.Count("op:put-burst")
			default:
				ops = append(ops, val.L(val.N(9), val.Int([]int{300, 600, 1100}[c.R.Intn(3)])))
				c.Count("op:clock-advance-and-collect")
			}
		}
		c.Emit(withHints(ops))
	}
}
