package main

import (
	"context"
	"errors"
	"fmt"
	"io"
	"net"
	"net/http"
	"os"
	"reflect"
	"syscall"

	sse "github.com/tmaxmax/go-sse"

	"verifharness/rng"
)

// Error characters of the family "session" (C16): WHICH VALUE a scripted write or flush error is.
//
// The model and the oracle treat an error as an opaque index e (script verdict (n<k> n<e>), entry
// (n2 n<e>), returned n<e>).  The harness builds the error VALUE from the index: e = low + 1000*char,
// low in 1..999, char 0 = the harness's own opaque type (codeErr), every other char a value that IS or
// WRAPS a well-known sentinel the way real writers' errors do - so that code which inspects the error
// (errors.Is / errors.As / == / a Timeout() method) instead of handing it on is exercised with the
// values it looks for.  What a call returned is projected back to the index BY IDENTITY (sessErrCode):
// the injected values of the running case are remembered, and the returned error - or something it
// wraps - must be one of them (==).  A bare sentinel has no room for an index: it stands for its most
// recent injection (a call returns the error of an operation of its own, i.e. the latest one).
//
//	char = 1 + sessForms*s + f    sentinel s (sessSentinels) in form f:
//	  f = 0 the sentinel itself            | 1 fmt.Errorf("...: %w", s)      | 2 a type with Unwrap() error
//	      3 a type with Is(target) bool    | 4 errors.Join(opaque, s)        | 5 *net.OpError{Op:"write", Err: s}
//	char = sessSpecialBase + ...
//	  0 *net.OpError{write} around write: EPIPE      | 1 *net.OpError{write} around write: ECONNRESET
//	  2 what http.NewResponseController(w).Flush() REALLY returns for a writer without any Flush (a middleware
//	    writer whose FlushError delegates to a ResponseController over an inner writer that cannot flush):
//	    a fresh value wrapping http.ErrNotSupported
//	  3 Timeout() is true | 4 Temporary() is true | 5 *net.OpError{write} around a Timeout() error (a write deadline)
//	  6 EPIPE itself (syscall.Errno) | 7 a wrap of a wrap of io.EOF (two levels)
var sessSentinels = []error{
	http.ErrNotSupported, http.ErrHandlerTimeout, http.ErrAbortHandler,
	io.EOF, io.ErrUnexpectedEOF, io.ErrClosedPipe, io.ErrShortWrite,
	context.Canceled, context.DeadlineExceeded,
	net.ErrClosed, os.ErrDeadlineExceeded,
	http.ErrBodyNotAllowed, http.ErrHijacked, http.ErrContentLength, http.ErrServerClosed,
	sse.ErrUpgradeUnsupported, sse.ErrProviderClosed, sse.ErrNoTopic, sse.ErrUnexpectedEOF,
}

const (
	sessForms       = 6
	sessSpecials    = 8
	sessSpecialBase = 1 + sessForms*19 // 19 = len(sessSentinels), checked in init
	sessChars       = sessSpecialBase + sessSpecials
)

func init() {
	if sessSpecialBase != 1+sessForms*len(sessSentinels) {
		panic("session_errs.go: sessSpecialBase does not match sessSentinels")
	}
}

type sessUnwrapErr struct {
	idx   uint64
	inner error
}

func (e sessUnwrapErr) Error() string { return fmt.Sprintf("scripted error %d (%v)", e.idx, e.inner) }
func (e sessUnwrapErr) Unwrap() error { return e.inner }

type sessIsErr struct {
	idx    uint64
	target error
}

func (e sessIsErr) Error() string        { return fmt.Sprintf("scripted error %d", e.idx) }
func (e sessIsErr) Is(target error) bool { return target == e.target }

type sessTimeoutErr struct{ idx uint64 }

func (e sessTimeoutErr) Error() string { return fmt.Sprintf("scripted error %d: i/o timeout", e.idx) }
func (e sessTimeoutErr) Timeout() bool { return true }

type sessTemporaryErr struct{ idx uint64 }

func (e sessTemporaryErr) Error() string   { return fmt.Sprintf("scripted error %d", e.idx) }
func (e sessTemporaryErr) Temporary() bool { return true }

// a ResponseWriter with nothing but the three methods: http.NewResponseController(it).Flush() fails
type sessBareWriter struct{}

func (sessBareWriter) Header() http.Header         { return http.Header{} }
func (sessBareWriter) Write(p []byte) (int, error) { return len(p), nil }
func (sessBareWriter) WriteHeader(int)             {}

// sessErrValue builds the error value with index idx (nothing is remembered).
func sessErrValue(idx uint64) error {
	char := int(idx / 1000)
	opErr := func(inner error) error {
		return &net.OpError{Op: "write", Net: "tcp", Source: scriptedAddr, Addr: scriptedAddr, Err: inner}
	}
	switch {
	case char == 0 || char >= sessChars:
		return codeErr{idx}
	case char < sessSpecialBase:
		s := sessSentinels[(char-1)/sessForms]
		switch (char - 1) % sessForms {
		case 0:
			return s
		case 1:
			return fmt.Errorf("scripted error %d: %w", idx, s)
		case 2:
			return sessUnwrapErr{idx, s}
		case 3:
			return sessIsErr{idx, s}
		case 4:
			return errors.Join(codeErr{idx}, s)
		default:
			return opErr(s)
		}
	}
	switch char - sessSpecialBase {
	case 0:
		return opErr(&os.SyscallError{Syscall: "write", Err: syscall.EPIPE})
	case 1:
		return opErr(&os.SyscallError{Syscall: "write", Err: syscall.ECONNRESET})
	case 2:
		if err := http.NewResponseController(sessBareWriter{}).Flush(); err != nil {
			return err
		}
		return fmt.Errorf("%w", http.ErrNotSupported) // not reached with the toolchains seen so far
	case 3:
		return sessTimeoutErr{idx}
	case 4:
		return sessTemporaryErr{idx}
	case 5:
		return opErr(sessTimeoutErr{idx})
	case 6:
		return syscall.EPIPE
	default:
		return fmt.Errorf("flush: %w", sessUnwrapErr{idx, io.EOF})
	}
}

// the values injected while the current case runs, in order
type sessInjection struct {
	err error
	idx uint64
}

var sessInjected []sessInjection

func sessReset() { sessInjected = sessInjected[:0] }

// sessErr: the error a failing Write/Flush of the recording writer returns for the verdict's index
func sessErr(idx uint64) error {
	err := sessErrValue(idx)
	sessInjected = append(sessInjected, sessInjection{err, idx})
	return err
}

// sessFind looks for an injected value in err's chain (err itself first, then what it wraps): identity only.
func sessFind(err error, depth int) (uint64, bool) {
	if err == nil || depth > 16 {
		return 0, false
	}
	if reflect.TypeOf(err).Comparable() {
		for i := len(sessInjected) - 1; i >= 0; i-- {
			if in := sessInjected[i]; reflect.TypeOf(in.err) == reflect.TypeOf(err) && in.err == err {
				return in.idx, true
			}
		}
	}
	switch u := err.(type) {
	case interface{ Unwrap() error }:
		return sessFind(u.Unwrap(), depth+1)
	case interface{ Unwrap() []error }:
		for _, e := range u.Unwrap() {
			if idx, ok := sessFind(e, depth+1); ok {
				return idx, true
			}
		}
	}
	return 0, false
}

// sessErrCode: what a Send/Flush returned, as the index of the injected error it is (0 = nil, 99 = an
// error that is none of the injected values)
func sessErrCode(err error) uint64 {
	if err == nil {
		return 0
	}
	if idx, ok := sessFind(err, 0); ok {
		return idx
	}
	return 99
}

// sessIdx draws an error index: the given small number, with a character - the opaque one a third of the time.
func sessIdx(r *rng.R, c *Ctx, low uint64) uint64 {
	char := 0
	if r.Intn(3) != 0 {
		char = 1 + r.Intn(sessChars-1)
	}
	return sessIdxOf(c, low, char)
}

func sessIdxOf(c *Ctx, low uint64, char int) uint64 {
	c.Count("error-character:" + sessCharName(char))
	return low + 1000*uint64(char)
}

var sessFormNames = [sessForms]string{"itself", "wrapped-%w", "Unwrap-method", "Is-method", "errors.Join", "in-net.OpError"}
var sessSpecialNames = [sessSpecials]string{"OpError-EPIPE", "OpError-ECONNRESET", "ResponseController-no-Flush", "Timeout()", "Temporary()", "OpError-timeout", "EPIPE", "wrapped-twice-io.EOF"}

func sessCharName(char int) string {
	switch {
	case char == 0:
		return "opaque"
	case char < sessSpecialBase:
		return sessFormNames[(char-1)%sessForms]
	}
	return sessSpecialNames[char-sessSpecialBase]
}
