package main

import (
	"bufio"
	"bytes"
	"context"
	"errors"
	"io"
	"net/http"
	"strings"
	"time"

	sse "github.com/tmaxmax/go-sse"

	"verifharness/rng"
	"verifharness/val"
)

// Family "parse" (C01 C20): a byte stream, cut into read chunks by a scripted reader, is read
// through one of the entry points.
//
// input : ( n<entry> (x<chunk> ...) ending stop (n<hasbuf> n<cap> z<max>) x<id0> x<first> )
//   entry  0 sse.Read(r, cfg)            cfg = nil if hasbuf=0 and max=0, else &ReadConfig{MaxEventSize: max}
//          1 Connection (scripted http.RoundTripper, MaxRetries -1, SubscribeToAll, Connection.Buffer(buf, max))
//          4 as 1, but the stream is the body of the connection's SECOND attempt.  The first response's body is <first>
//            (one read, clean end): a stream that may set, change and reset the last event ID.  Its events are not part
//            of the observation; what it leaves behind is the ID the stream under test must be interpreted with.
//            (x<first> = "s" | "b" | "f": the reader handed to Read is a *strings.Reader / *bytes.Reader / *bytes.Buffer itself)
//          6 as 4, but Connection.Buffer(buf, max) is called from OnRetry after the first attempt instead of before Connect
//          5 sse.Read's iterator ranged over twice; written out as the entry-0 case the second range is (see postParse)
//          2 read() as a Connection calls it (retry callback, EOF reported), initial last event ID id0
//          3 read() as sse.Read calls it (no retry callback, EOF ignored), initial last event ID id0
//            (2, 3: Parser.Buffer(buf, max) is called iff hasbuf=1 or max>0)
//   ending n0 clean EOF | (n<k>) the reader fails with scripted error k | n4 the context is cancelled
//          and the reader returns its error
//   stop   () never | (n<k>): the consumer answers false to event number k (from 0)
//   buf    nil if hasbuf=0, else make([]byte, 0, cap)
// observed : ( (yield ...) n<bytes pulled from the reader> n<0 normal | 1 panic> )
//   yield  (n0 (x<LastEventID> x<Type> x<Data>)) | (n1 n<retry ms>) | (n2 err)
//   err    n1 io.EOF | n2 ErrUnexpectedEOF | n3 bufio.ErrTooLong | n4 context error | (n<k>) scripted | n9 other
// Events are copied the moment they are yielded.  Entry 1 cannot observe retry values.

func init() { families["parse"] = family{gen: genParse, exec: execParse, post: postParse} }

// Entry 5: the iterator sse.Read returned is ranged over TWICE: the first range is left by the consumer at event
// <stop> (or runs to the end of the input), the second range runs to the end.  Every range reads with a fresh parser
// from wherever the reader stands, starting with the last event ID the previous range left.  So the second range IS an
// entry-0 case on the chunks the reader still holds, with that ID: the line is written as that case (postParse), and
// the model and the oracles judge it like any other.  (The first range is an ordinary entry-0 case with a stop.)
// exec returns ( (yield ...) n<pulled> n<panic> (x<remaining chunk> ...) x<carried ID> ) for entry 5.
func postParse(in, obs val.V) (val.V, val.V) {
	if in.At(0).Int() != 5 {
		return in, obs
	}
	return val.L(val.N(0), obs.At(3), in.At(2), val.L(), in.At(4), obs.At(4), val.S("")),
		val.L(obs.At(0), obs.At(1), obs.At(2))
}

func execParseTwice(in val.V, rd *scriptReader, stop int, cfg *sse.ReadConfig) (out val.V) {
	var yields []val.V
	remaining := func() val.V {
		var cs []val.V
		for _, c := range rd.chunks {
			if len(c) > 0 {
				cs = append(cs, val.B(append([]byte(nil), c...)))
			}
		}
		return val.List(cs)
	}
	rem, carried := remaining(), ""
	defer func() {
		if r := recover(); r != nil {
			out = val.L(val.List(yields), val.Int(rd.pulled), val.N(1), rem, val.S(carried))
		}
	}()
	it := sse.Read(rd, cfg)
	events := 0
	it(func(e sse.Event, err error) bool {
		if err != nil {
			yields = append(yields, val.L(val.N(2), projParseErr(err)))
			return false
		}
		yields = append(yields, encEvent(e))
		carried = strings.Clone(e.LastEventID)
		events++
		return stop < 0 || events <= stop
	})
	// the second range
	yields, rem, rd.pulled = nil, remaining(), 0
	it(func(e sse.Event, err error) bool {
		if err != nil {
			yields = append(yields, val.L(val.N(2), projParseErr(err)))
			return false
		}
		yields = append(yields, encEvent(e))
		return true
	})
	return val.L(val.List(yields), val.Int(rd.pulled), val.N(0), rem, val.S(carried))
}

type scriptReader struct {
	chunks [][]byte
	ending val.V
	pulled int
	cancel func()
	ctx    context.Context
}

func (r *scriptReader) Read(p []byte) (int, error) {
	for len(r.chunks) > 0 && len(r.chunks[0]) == 0 {
		r.chunks = r.chunks[1:]
	}
	if len(r.chunks) == 0 {
		switch {
		case r.ending.K == '(':
			return 0, codeErr{r.ending.At(0).Num()}
		case r.ending.Num() == 4:
			if r.cancel != nil {
				r.cancel()
				return 0, r.ctx.Err()
			}
			return 0, context.Canceled
		default:
			return 0, io.EOF
		}
	}
	n := copy(p, r.chunks[0])
	r.chunks[0] = r.chunks[0][n:]
	r.pulled += n
	return n, nil
}

func (r *scriptReader) Close() error { return nil }

func projParseErr(err error) val.V {
	var ce codeErr
	switch {
	case errors.As(err, &ce):
		return val.L(val.N(ce.code))
	case errors.Is(err, io.EOF):
		return val.N(1)
	case errors.Is(err, sse.ErrUnexpectedEOF):
		return val.N(2)
	case errors.Is(err, bufio.ErrTooLong):
		return val.N(3)
	case errors.Is(err, context.Canceled):
		return val.N(4)
	default:
		return val.N(9)
	}
}

func encEvent(e sse.Event) val.V {
	return val.L(val.N(0), val.L(val.S(strings.Clone(e.LastEventID)), val.S(strings.Clone(e.Type)), val.S(strings.Clone(e.Data))))
}

type parseRT func(*http.Request) (*http.Response, error)

func (f parseRT) RoundTrip(r *http.Request) (*http.Response, error) { return f(r) }

func execParse(in val.V) (out val.V) {
	entry := in.At(0).Int()
	var chunks [][]byte
	for _, c := range in.At(1).Items() {
		chunks = append(chunks, append([]byte(nil), c.Bytes()...))
	}
	rd := &scriptReader{chunks: chunks, ending: in.At(2)}
	stop := -1
	if in.At(3).Present() {
		stop = in.At(3).At(0).Int()
	}
	hasBuf := in.At(4).At(0).Truth()
	capBuf := in.At(4).At(1).Int()
	maxSize := int(in.At(4).At(2).Signed())
	var buf []byte
	if hasBuf {
		buf = make([]byte, 0, capBuf)
	}
	id0 := in.At(5).Str()

	var yields []val.V
	events := 0
	defer func() {
		if r := recover(); r != nil {
			out = val.L(val.List(yields), val.Int(rd.pulled), val.N(1))
		}
	}()
	consume := func(e sse.Event, err error) bool {
		if err != nil {
			yields = append(yields, val.L(val.N(2), projParseErr(err)))
			return false
		}
		yields = append(yields, encEvent(e))
		events++
		return stop < 0 || events <= stop
	}
	onRetry := func(n int64) { yields = append(yields, val.L(val.N(1), val.N(uint64(n)))) }

	switch entry {
	case 0, 5:
		var cfg *sse.ReadConfig
		if hasBuf || maxSize != 0 {
			cfg = &sse.ReadConfig{MaxEventSize: maxSize}
		}
		if entry == 5 {
			return execParseTwice(in, rd, stop, cfg)
		}
		if kind := in.At(6).Str(); kind != "" {
			// the caller hands Read one of the standard in-memory readers itself (they have Len, WriteTo, ReadByte ...): the
			// same bytes, read the same way as one chunk
			var whole []byte
			for _, c := range chunks {
				whole = append(whole, c...)
			}
			var r io.Reader
			var left func() int
			switch kind {
			case "s":
				sr := strings.NewReader(string(whole))
				r, left = sr, sr.Len
			case "b":
				br := bytes.NewReader(whole)
				r, left = br, br.Len
			default:
				bb := bytes.NewBuffer(whole)
				r, left = bb, bb.Len
			}
			pulledNow := func() int { return len(whole) - left() }
			defer func() {
				if r := recover(); r != nil {
					out = val.L(val.List(yields), val.Int(pulledNow()), val.N(1))
				}
			}()
			sse.Read(r, cfg)(consume)
			return val.L(val.List(yields), val.Int(pulledNow()), val.N(0))
		}
		sse.Read(rd, cfg)(consume)
	case 1, 4, 6:
		ctx, cancel := context.WithCancel(context.Background())
		defer cancel()
		rd.ctx, rd.cancel = ctx, cancel
		// entry 4: the stream arrives on the SECOND attempt of the connection, so that whatever Connection.Buffer
		// configured must still be in force after a reconnect and the last event ID is the one the first attempt left
		first := in.At(6).Str()
		attempts := 0
		// half of the responses announce their length (truthfully: only bodies that end cleanly), the others do not (-1)
		var total int64
		for _, c := range chunks {
			total += int64(len(c))
		}
		announced := func(n int64, clean bool) int64 {
			if clean && n%2 == 0 {
				return n
			}
			return -1
		}
		bo := sse.Backoff{MaxRetries: -1}
		var secondErr error
		var connRef *sse.Connection
		var onRetryErr func(error, time.Duration)
		second := entry == 4 || entry == 6
		if second {
			// every validated response resets the retry counter, so the run is ended from OnRetry: the error that ends
			// the second attempt is the observation, then the context is cancelled
			bo = sse.Backoff{MaxRetries: 0, InitialInterval: time.Microsecond, Jitter: -1}
			retries := 0
			onRetryErr = func(err error, _ time.Duration) {
				retries++
				if retries == 1 && entry == 6 {
					// the application changes the buffer while connected (it has seen the first attempt end): the next
					// attempt must scan with what Buffer was given last
					connRef.Buffer(buf, maxSize)
				}
				if retries == 2 {
					secondErr = err
					cancel()
				}
			}
		}
		client := sse.Client{
			HTTPClient: &http.Client{Transport: parseRT(func(r *http.Request) (*http.Response, error) {
				attempts++
				if second && attempts > 2 {
					// the timer may win the select against the cancelled context: nothing more is to be read
					return nil, context.Canceled
				}
				if second && attempts == 1 {
					return &http.Response{StatusCode: http.StatusOK, Body: io.NopCloser(strings.NewReader(first)), Request: r, Header: http.Header{},
						ContentLength: announced(int64(len(first)), true)}, nil
				}
				return &http.Response{StatusCode: http.StatusOK, Body: rd, Request: r, Header: http.Header{},
					ContentLength: announced(total, in.At(2).K == 'n' && in.At(2).Num() == 0)}, nil
			})},
			ResponseValidator: sse.NoopValidator,
			Backoff:           bo,
			OnRetry:           onRetryErr,
		}
		req, _ := http.NewRequestWithContext(ctx, http.MethodGet, "http://verif.invalid/", http.NoBody)
		conn := client.NewConnection(req)
		connRef = conn
		if entry != 6 {
			conn.Buffer(buf, maxSize)
		}
		conn.SubscribeToAll(func(e sse.Event) {
			if second && attempts < 2 {
				return // the first attempt's events are not the observation
			}
			yields = append(yields, encEvent(e))
		})
		err := conn.Connect()
		if second && secondErr != nil {
			err = secondErr
		}
		if err != nil {
			yields = append(yields, val.L(val.N(2), projParseErr(err)))
		}
	case 2:
		sse.VerifRead(rd, hasBuf || maxSize > 0, buf, maxSize, id0, onRetry, false)(consume)
	default:
		sse.VerifRead(rd, hasBuf || maxSize > 0, buf, maxSize, id0, nil, true)(consume)
	}
	return val.L(val.List(yields), val.Int(rd.pulled), val.N(0))
}

// ---- generators ---------------------------------------------------------------------------

const parseBOM = "\xEF\xBB\xBF"

var parseAlphabet = []string{"data", "id", "event", "retry", ":", " ", "\n", "\r", "x", "7", "+", "\x00", parseBOM, "\xEF", "da"}

type parseCase struct {
	entry   int
	stream  string
	cuts    []int // strictly increasing cut offsets inside (0, len)
	ending  val.V
	stop    int // -1: never
	hasBuf  bool
	capBuf  int
	maxSize int64
	id0     string
	reader  string // entry 0, one chunk, clean end: "s" / "b" / "f" hands Read that standard reader itself
}

func (pc parseCase) emit(c *Ctx) {
	var chunks []val.V
	prev := 0
	for _, k := range pc.cuts {
		if k > prev && k < len(pc.stream) {
			chunks = append(chunks, val.S(pc.stream[prev:k]))
			prev = k
		}
	}
	if prev < len(pc.stream) {
		chunks = append(chunks, val.S(pc.stream[prev:]))
	}
	entry := pc.entry
	if entry == 0 && c.R.Intn(4) == 0 {
		entry = 5
		if pc.stop < 0 && c.R.Bool() {
			pc.stop = c.R.Intn(3)
		}
		if pc.stop >= 0 {
			c.Count("ranged-twice:after-break")
		} else {
			c.Count("ranged-twice:after-the-end")
		}
	}
	stop := val.L()
	if pc.stop >= 0 {
		stop = val.L(val.Int(pc.stop))
	}
	first := ""
	if entry == 0 && len(chunks) <= 1 && pc.ending.K == 'n' && pc.ending.Num() == 0 && (pc.reader != "" || c.R.Bool()) {
		first = pc.reader
		if first == "" {
			first = rng.Pick(c.R, []string{"s", "b", "f"})
		}
		c.Count("in-memory-reader:" + first)
	}
	if entry == 1 && c.R.Intn(3) == 0 {
		entry = 4
		if k := c.R.Intn(len(parseFirstBodies) + 3); k < len(parseFirstBodies) {
			first = parseFirstBodies[k]
		}
		if c.R.Intn(3) == 0 {
			entry = 6
			c.Count("second-attempt:buffer-set-between-attempts")
		}
		if first == "" {
			c.Count("second-attempt:after-empty-body")
		} else {
			c.Count("second-attempt:after-events")
		}
	}
	c.Emit(val.L(val.Int(entry), val.List(chunks), pc.ending, stop,
		val.L(val.Bool(pc.hasBuf), val.Int(pc.capBuf), val.Z(pc.maxSize)), val.S(pc.id0), val.S(first)))
}

// bodies of a connection's first attempt (entry 4): what they do to the last event ID is for the model and the
// specification to say - set, changed, reset by an empty id field, an id containing NUL, an id in an event that is
// never dispatched, an id in an event that the end of the stream flushes
var parseFirstBodies = []string{
	"id: 5\ndata: a\n\nid\ndata: b\n\n",
	"id: 5\ndata: a\n\n",
	"id: 5\ndata: a\n\nid:\n\n",
	"id: 7\r\n\r\n",
	"id: 5\ndata: a\n\nid: x\x00y\ndata: b\n\n",
	"id: 9\ndata: a\n\nid: 10\ndata: cut",
	"id: 9\ndata: a\n\nid: 10\ndata: pending\n",
	parseBOM + "id: b\rdata: x\r\r: c\r",
	"data: no id\n\n",
	"id: 1\n\nid: 2\n\nid\n\nid: prev id\ndata: z\n\n",
}

func parseEveryN(l, n int) []int {
	var cuts []int
	for k := n; k < l; k += n {
		cuts = append(cuts, k)
	}
	return cuts
}

func parseRandomCuts(r *rng.R, l int) []int {
	if l < 2 {
		return nil
	}
	n := 1 + r.Intn(4)
	if r.Chance(1, 4) {
		n = 1 + r.Intn(l)
	}
	seen := map[int]bool{}
	for i := 0; i < n; i++ {
		seen[1+r.Intn(l-1)] = true
	}
	var cuts []int
	for k := 1; k < l; k++ {
		if seen[k] {
			cuts = append(cuts, k)
		}
	}
	return cuts
}

// cut points inside CR LF pairs and inside BOMs
func parseDelicateCuts(s string) []int {
	var cuts []int
	for i := 0; i+1 < len(s); i++ {
		if s[i] == '\r' && s[i+1] == '\n' {
			cuts = append(cuts, i+1)
		}
		if s[i] == 0xEF || s[i] == 0xBB {
			cuts = append(cuts, i+1)
		}
	}
	return cuts
}

func parseRandEnding(r *rng.R, entry int) val.V {
	switch r.Intn(6) {
	case 0, 1, 2:
		return val.N(0)
	case 3, 4:
		return val.L(val.Int(1 + r.Intn(5)))
	default:
		return val.N(4)
	}
}

func parseRandEntry(r *rng.R) int {
	return []int{0, 0, 1, 1, 2, 2, 3}[r.Intn(7)]
}

func (pc *parseCase) randStopAndID(r *rng.R) {
	pc.stop = -1
	pc.id0 = ""
	if pc.entry != 1 && r.Chance(1, 4) {
		pc.stop = r.Intn(3)
	}
	if pc.entry >= 2 && r.Chance(1, 2) {
		pc.id0 = rng.Pick(r, []string{"i0", "0", "prev id"})
	}
}

var parseNameChoices = []string{"data", "data", "data", "data", "id", "id", "event", "event", "retry", "retry",
	"data ", "Data", "datax", "dat", "", "i d", "ID", "retry ", "events", parseBOM + "data", "\xEF\xBBdata", "comment"}
var parseValuePieces = []string{"\x01", "\x7f", "\x1b[0m", "\x0b", "\x1f", "a", "b", "x", "hello", "message", "message", "Message", "open", "error", "7", "0", "42", " ", "  ", ":", "+", "-", "\x00", "\xEF", "\xFF", "\xC3\xA9", parseBOM, "é", "\t", "data", "id: x"}
var parseRetryValues = []string{"7", "0", "007", "1500", "9223372036854775807", "9223372036854775808", "18446744073709551616",
	"99999999999999999999999", "00000000000000000007", "0000000000000000000000000000012", "09223372036854775807", "+7", "-0", "-7", "", " 7", "7 ", "7x", "0x10", "1_000", "１"}
var parseTerminators = []string{"\n", "\n", "\n", "\r", "\r\n", "\r\n"}

func parseRandLine(r *rng.R) string {
	if r.Chance(1, 10) {
		return ":" + rng.Pick(r, parseValuePieces) // comment
	}
	name := rng.Pick(r, parseNameChoices)
	if r.Chance(1, 12) {
		return name // no colon
	}
	sep := ":"
	if r.Chance(3, 4) {
		sep = ": "
	}
	var v string
	if strings.HasPrefix(name, "retry") && r.Chance(3, 4) {
		v = rng.Pick(r, parseRetryValues)
	} else {
		for i, n := 0, r.Intn(4); i < n; i++ {
			v += rng.Pick(r, parseValuePieces)
		}
	}
	return name + sep + v
}

func parseRandStream(r *rng.R, maxEvents int) string {
	var sb strings.Builder
	if r.Chance(1, 8) {
		sb.WriteString(parseBOM)
	}
	if r.Chance(1, 8) {
		sb.WriteString(rng.Pick(r, parseTerminators))
		if r.Chance(1, 2) {
			sb.WriteString(parseBOM)
		}
	}
	n := 1 + r.Intn(maxEvents)
	for i := 0; i < n; i++ {
		for j, m := 0, 1+r.Intn(4); j < m; j++ {
			sb.WriteString(parseRandLine(r))
			sb.WriteString(rng.Pick(r, parseTerminators))
		}
		if i < n-1 || r.Chance(2, 3) {
			for j, m := 0, 1+r.Intn(3); j < m; j++ {
				if j == 0 || r.Chance(1, 3) {
					sb.WriteString(rng.Pick(r, parseTerminators))
				}
			}
		}
	}
	if r.Chance(1, 6) {
		sb.WriteString(parseRandLine(r)) // unterminated last line
	}
	return sb.String()
}

// a group (event or comment block) of exactly n >= 3 bytes including its blank line
func parseSizedGroup(r *rng.R, n int, tag byte) string {
	term := "\n"
	blank := "\n"
	if n >= 12 && r.Chance(1, 3) {
		term = "\r\n"
	}
	if n >= 12 && r.Chance(1, 3) {
		blank = rng.Pick(r, []string{"\r", "\r\n"})
	}
	rest := n - len(term) - len(blank)
	var line string
	switch {
	case rest >= 7:
		line = "data: " + strings.Repeat(string(tag), rest-6)
	case rest >= 3:
		line = "id:" + strings.Repeat(string(tag), rest-3)
	case rest == 2:
		line = "id"
	case rest == 1:
		line = ":"
	default:
		return strings.Repeat("\n", n)
	}
	return line + term + blank
}

func genParse(c *Ctx) {
	r := c.R
	count := func(k string) { c.Count(k) }

	// (a) exhaustive words over the token alphabet
	maxLen, fullLen := 4, 3
	sampleLong := 12000
	if c.Thorough {
		maxLen, fullLen, sampleLong = 5, 4, 150000
	}
	var words []string
	var rec func(prefix string, depth int)
	rec = func(prefix string, depth int) {
		if prefix != "" {
			words = append(words, prefix)
		}
		if depth == 0 {
			return
		}
		for _, t := range parseAlphabet {
			rec(prefix+t, depth-1)
		}
	}
	rec("", fullLen)
	for i := 0; i < sampleLong; i++ {
		w := ""
		for j := 0; j < maxLen; j++ {
			w += rng.Pick(r, parseAlphabet)
		}
		words = append(words, w)
	}
	for wi, w := range words {
		l := len(w)
		var segs [][]int
		segs = append(segs, nil)
		if l > 1 {
			segs = append(segs, parseEveryN(l, 1))
		}
		if c.Thorough || wi%3 == 0 || l <= 6 {
			for k := 1; k < l; k++ {
				segs = append(segs, []int{k})
			}
		} else if l > 1 {
			segs = append(segs, []int{1 + r.Intn(l-1)})
		}
		if l <= 5 {
			for a := 1; a < l; a++ {
				for b := a + 1; b < l; b++ {
					segs = append(segs, []int{a, b})
				}
			}
		}
		for _, cuts := range segs {
			pc := parseCase{entry: parseRandEntry(r), stream: w, cuts: cuts, ending: val.N(0)}
			if r.Chance(1, 3) {
				pc.ending = val.L(val.N(1))
			}
			pc.randStopAndID(r)
			if r.Chance(1, 8) {
				pc.maxSize = int64(1 + r.Intn(l+2))
			}
			count("words")
			pc.emit(c)
		}
	}

	// (b) grammar-based random streams
	nRandom := 15000
	if c.Thorough {
		nRandom = 150000
	}
	for i := 0; i < nRandom; i++ {
		s := parseRandStream(r, 5)
		l := len(s)
		var cuts []int
		switch r.Intn(6) {
		case 0:
			count("seg:whole")
		case 1:
			cuts = parseEveryN(l, 1)
			count("seg:bytewise")
		case 2:
			cuts = parseDelicateCuts(s)
			count("seg:delicate")
		case 3:
			cuts = parseEveryN(l, 2+r.Intn(7))
			count("seg:fixed")
		default:
			cuts = parseRandomCuts(r, l)
			count("seg:random")
		}
		pc := parseCase{entry: parseRandEntry(r), stream: s, cuts: cuts, ending: parseRandEnding(r, 0)}
		pc.randStopAndID(r)
		switch r.Intn(7) {
		case 0: // a limit around the stream's size or smaller
			pc.maxSize = int64(1 + r.Intn(l+3))
			count("limit:random")
		case 1: // small buffers make the scanner compact and grow all the time
			pc.maxSize = int64(16 + r.Intn(48))
			if pc.entry != 0 && r.Chance(1, 2) {
				pc.hasBuf, pc.capBuf = true, r.Intn(80)
			}
			count("limit:small")
		case 2:
			if pc.entry != 0 {
				pc.hasBuf, pc.capBuf = true, r.Intn(2*l+2)
				pc.maxSize = int64(r.Intn(2*l+2)) - 2
				count("limit:buffer")
			}
		case 3:
			if pc.entry == 0 {
				// a ReadConfig that is set but leaves MaxEventSize unset (zero) or negative: the default limit applies
				pc.hasBuf, pc.capBuf, pc.maxSize = true, 0, []int64{0, 0, -1, -7}[r.Intn(4)]
				count("limit:config-without-size")
			} else {
				// "unlimited": the largest ints as the limit, no buffer given
				pc.maxSize = []int64{9223372036854775807, 9223372036854775806, 4611686018427387903}[r.Intn(3)]
				count("limit:maximal")
			}
		default:
			count("limit:default")
		}
		count("random")
		pc.emit(c)
	}

	// (c) size-targeted streams around small custom limits
	limits := []int{1, 2, 3, 4, 5, 7, 8, 9, 16, 17, 33, 64}
	reps := 1
	if c.Thorough {
		reps = 6
	}
	for rep := 0; rep < reps; rep++ {
		for _, L := range limits {
			for delta := -2; delta <= 2; delta++ {
				n := L + delta
				if n < 3 {
					continue
				}
				for pos := 0; pos < 3; pos++ { // the sized group first / in the middle / last
					for _, lead := range []int{0, 1, 2} { // blank lines before it
						if n-lead < 3 {
							continue
						}
						g := strings.Repeat("\n", lead) + parseSizedGroup(r, n-lead, 'x')
						small := parseSizedGroup(r, 3+r.Intn(max(1, min(L-2, 6))), 'y')
						var s string
						switch pos {
						case 0:
							s = g + small
						case 1:
							s = small + g + small
						default:
							s = small + g
						}
						if r.Chance(1, 4) {
							s = s[:len(s)-1] // the last group is ended by EOF only
						}
						for _, cuts := range [][]int{nil, parseEveryN(len(s), 1), parseEveryN(len(s), max(1, L-1)), parseEveryN(len(s), L), parseEveryN(len(s), L+1), parseRandomCuts(r, len(s))} {
							pc := parseCase{entry: parseRandEntry(r), stream: s, cuts: cuts, ending: parseRandEnding(r, 0), stop: -1}
							switch {
							case pc.entry == 0 || r.Chance(1, 3):
								pc.maxSize = int64(L)
							case r.Chance(1, 2):
								pc.hasBuf, pc.capBuf, pc.maxSize = true, L, int64(r.Intn(L+1))-1
							default:
								pc.hasBuf, pc.capBuf, pc.maxSize = true, r.Intn(L), int64(L)
							}
							count("sized:small")
							pc.emit(c)
						}
					}
				}
			}
			// streams that never complete an event
			for _, unit := range []string{"\n", "\r\n", "\r", ": c\n", "data: x\n", "x"} {
				s := parseSizedGroup(r, 4, 'y') + strings.Repeat(unit, 3*L/len(unit)+3)
				for _, cuts := range [][]int{nil, parseEveryN(len(s), 1), parseEveryN(len(s), 7), parseRandomCuts(r, len(s))} {
					pc := parseCase{entry: parseRandEntry(r), stream: s, cuts: cuts, ending: parseRandEnding(r, 0), stop: -1, maxSize: int64(L)}
					if pc.entry != 0 && r.Chance(1, 3) {
						pc.hasBuf, pc.capBuf, pc.maxSize = true, L, 0
					}
					count("endless:small")
					pc.emit(c)
				}
			}
		}
	}

	// (d) the scanner's own sizes: 4096 (initial buffer), 65536 (default limit), a custom 4097
	type big struct {
		limit   int64
		hasBuf  bool
		capBuf  int
		sizes   []int
		chunkBy []int
	}
	bigs := []big{
		{0, false, 0, []int{4094, 4095, 4096, 4097, 4098}, []int{0, 1000, 4096}},
		{4097, false, 0, []int{4095, 4096, 4097, 4098, 4099}, []int{0, 4096, 513}},
		{4096, true, 100, []int{4095, 4096, 4097}, []int{0, 4095}},
	}
	if c.Thorough {
		bigs = append(bigs, big{0, false, 0, []int{65534, 65535, 65536, 65537, 65538}, []int{0, 4096, 30000}})
	} else {
		bigs = append(bigs, big{0, false, 0, []int{65535, 65536, 65537}, []int{0, 4096}})
	}
	for _, b := range bigs {
		for _, n := range b.sizes {
			for pos := 0; pos < 2; pos++ {
				g := parseSizedGroup(r, n, 'x')
				s := g + "data: tail\n\n"
				if pos == 1 {
					s = "id: 1\n\n" + g
				}
				for _, by := range b.chunkBy {
					var cuts []int
					if by > 0 {
						cuts = parseEveryN(len(s), by)
					}
					pc := parseCase{entry: parseRandEntry(r), stream: s, cuts: cuts, ending: val.N(0), stop: -1,
						maxSize: b.limit, hasBuf: b.hasBuf, capBuf: b.capBuf}
					if pc.entry == 0 {
						pc.hasBuf, pc.capBuf = false, 0
					}
					count("sized:big")
					pc.emit(c)
					if by == 0 {
						// the same through Read with each standard in-memory reader, with the limit Read can be given
						for _, rk := range []string{"s", "b", "f"} {
							pr := parseCase{entry: 0, stream: s, ending: val.N(0), stop: -1, maxSize: b.limit, reader: rk}
							count("sized:big:in-memory-reader")
							pr.emit(c)
						}
					}
				}
			}
		}
	}
	// endless input against the default limit
	for _, unit := range []string{"\n", "data: x\n"} {
		s := "data: first\n\n" + strings.Repeat(unit, 70000/len(unit))
		pc := parseCase{entry: parseRandEntry(r), stream: s, cuts: parseEveryN(len(s), 4096), ending: val.L(val.N(2)), stop: -1}
		count("endless:big")
		pc.emit(c)
	}
}
