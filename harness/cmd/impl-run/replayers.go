package main

import (
	"errors"
	"fmt"
	"strconv"
	"time"

	sse "github.com/tmaxmax/go-sse"

	"verifharness/rng"
	"verifharness/val"
)

// Families "finite" and "valid" (C08, C09, C18): histories of Put/Replay(/GC/clock) against the
// real replayers; observed = per operation (result, raw ring state through verif_export.go).

func init() {
	families["finite"] = family{gen: genFinite, exec: execFinite}
	families["valid"] = family{gen: genValid, exec: execValid}
}

type codeErr struct{ code uint64 }

func (e codeErr) Error() string { return fmt.Sprintf("scripted error %d", e.code) }

func errCode(err error) uint64 {
	if err == nil {
		return 0
	}
	var ce codeErr
	if errors.As(err, &ce) {
		return ce.code
	}
	return 99
}

// scriptWriter is a MessageWriter whose k-th call returns the k-th verdict of the script.
type scriptWriter struct {
	script []uint64
	calls  []val.V
}

func (w *scriptWriter) verdict() error {
	if len(w.script) == 0 {
		return nil
	}
	v := w.script[0]
	w.script = w.script[1:]
	if v == 0 {
		return nil
	}
	return codeErr{v}
}

func msgTok(m *sse.Message) uint64 {
	c, _ := m.VerifChunks()
	if len(c) == 0 {
		return 0
	}
	n, _ := strconv.ParseUint(c[0], 10, 64)
	return n
}

func (w *scriptWriter) Send(m *sse.Message) error {
	w.calls = append(w.calls, val.L(val.N(msgTok(m)), val.S(m.ID.String())))
	return w.verdict()
}
func (w *scriptWriter) Flush() error {
	w.calls = append(w.calls, val.L())
	return w.verdict()
}

func putErrCode(err error) uint64 {
	switch {
	case errors.Is(err, sse.ErrNoTopic):
		return 1
	case err.Error() == "message has no ID":
		return 2
	case err.Error() == "message already has an ID, can't use generated ID":
		return 3
	}
	return 99
}

func mkMsg(idopt val.V, tok uint64) *sse.Message {
	m := &sse.Message{}
	if idopt.Present() {
		m.ID = sse.ID(idopt.At(0).Str())
	}
	m.AppendData(strconv.FormatUint(tok, 10))
	return m
}

func lastID(idopt val.V) sse.EventID {
	if idopt.Present() {
		return sse.ID(idopt.At(0).Str())
	}
	return sse.EventID{}
}

func scriptOf(v val.V) []uint64 {
	out := []uint64{}
	for _, x := range v.Items() {
		out = append(out, x.Num())
	}
	return out
}

func encState(st sse.VerifQueueState, base time.Time, withExp bool) val.V {
	slots := make([]val.V, len(st.Slots))
	for i, m := range st.Slots {
		if m == nil {
			slots[i] = val.L()
		} else if withExp {
			slots[i] = val.L(val.N(msgTok(m)), val.Z(int64(st.Exp[i].Sub(base))))
		} else {
			slots[i] = val.L(val.N(msgTok(m)))
		}
	}
	return val.L(val.Int(st.Head), val.Int(st.Tail), val.Int(st.Count), val.List(slots))
}

func guard(f func() val.V) (out val.V) {
	defer func() {
		if r := recover(); r != nil {
			out = val.S("panic")
		}
	}()
	return f()
}

func putObserved(m *sse.Message, err error) val.V {
	if err != nil {
		return val.L(val.N(1), val.N(putErrCode(err)))
	}
	return val.L(val.N(0), val.S(m.ID.String()))
}

// topicArena hands out topic lists as views of shared backing arrays: a list that occurs as a contiguous run of an
// earlier list is returned as a sub-slice of it (same first element, another length - "tiers[:1]" and "tiers[:3]"),
// with its spare capacity.  The replayers keep the slices they are given; nothing ever writes to them.
type topicArena struct {
	on     bool
	arrays [][]string
}

func (a *topicArena) view(ts []string) []string {
	if !a.on || len(ts) == 0 {
		return ts
	}
	for _, arr := range a.arrays {
		for i := 0; i+len(ts) <= len(arr); i++ {
			ok := true
			for j := range ts {
				if arr[i+j] != ts[j] {
					ok = false
					break
				}
			}
			if ok {
				return arr[i : i+len(ts)]
			}
		}
	}
	a.arrays = append(a.arrays, ts)
	return ts
}

// both ways of handing over topic lists must behave alike; if they do not, the aliased run is the observation
func bothTopicModes(run func(a *topicArena) val.V) val.V {
	fresh := run(&topicArena{})
	aliased := run(&topicArena{on: true})
	if aliased.String() != fresh.String() {
		return aliased
	}
	return fresh
}

func execFinite(in val.V) val.V {
	return bothTopicModes(func(a *topicArena) val.V { return execFiniteWith(in, a) })
}

func execFiniteWith(in val.V, arena *topicArena) val.V {
	r, err := sse.NewFiniteReplayer(in.At(0).Int(), in.At(1).Truth())
	if err != nil {
		return val.L(val.N(1))
	}
	outs := []val.V{}
	for _, op := range in.At(2).Items() {
		op := op
		res := guard(func() val.V {
			if op.At(0).Num() == 0 {
				msg := mkMsg(op.At(1), op.At(2).Num())
				before := msg.String()
				m, err := r.Put(msg, arena.view(op.At(3).Strs()))
				if msg.String() != before {
					return val.S("Put mutated its argument")
				}
				return val.L(putObserved(m, err), encState(r.VerifState(), time.Time{}, false))
			}
			w := &scriptWriter{script: scriptOf(op.At(3))}
			err := r.Replay(sse.Subscription{Client: w, LastEventID: lastID(op.At(1)), Topics: arena.view(op.At(2).Strs())})
			return val.L(val.L(val.List(w.calls), val.N(errCode(err))), encState(r.VerifState(), time.Time{}, false))
		})
		outs = append(outs, res)
		if res.K == 'x' {
			break
		}
	}
	return val.L(val.N(0), val.List(outs))
}

var baseTime = time.Unix(1_700_000_000, 0)

func execValid(in val.V) val.V {
	return bothTopicModes(func(a *topicArena) val.V { return execValidWith(in, a) })
}

func execValidWith(in val.V, arena *topicArena) val.V {
	r, err := sse.NewValidReplayer(time.Duration(in.At(0).Signed()), in.At(1).Truth())
	if err != nil {
		return val.L(val.N(1))
	}
	if in.At(2).Present() {
		r.GCInterval = time.Duration(in.At(2).At(0).Signed())
	}
	now := baseTime
	r.Now = func() time.Time { return now }
	outs := []val.V{}
	for _, op := range in.At(3).Items() {
		op := op
		now = baseTime.Add(time.Duration(op.At(1).Signed()))
		res := guard(func() val.V {
			switch op.At(0).Num() {
			case 0:
				msg := mkMsg(op.At(2), op.At(3).Num())
				before := msg.String()
				m, err := r.Put(msg, arena.view(op.At(4).Strs()))
				if msg.String() != before {
					return val.S("Put mutated its argument")
				}
				return val.L(putObserved(m, err), encState(r.VerifState(), baseTime, true))
			case 1:
				w := &scriptWriter{script: scriptOf(op.At(4))}
				err := r.Replay(sse.Subscription{Client: w, LastEventID: lastID(op.At(2)), Topics: arena.view(op.At(3).Strs())})
				return val.L(val.L(val.List(w.calls), val.N(errCode(err))), encState(r.VerifState(), baseTime, true))
			case 2:
				r.GC()
				return val.L(val.L(), encState(r.VerifState(), baseTime, true))
			default:
				// the exported configuration field is assigned on a replayer in use
				r.GCInterval = time.Duration(op.At(2).Signed())
				return val.L(val.L(), encState(r.VerifState(), baseTime, true))
			}
		})
		outs = append(outs, res)
		if res.K == 'x' {
			break
		}
	}
	return val.L(val.N(0), val.List(outs))
}

// ---- generators ------------------------------------------------------------

// histGen tracks which IDs were issued so that Replay can present IDs by recency.
type histGen struct {
	auto    bool
	issued  []string // IDs of accepted puts, in order
	nextTok uint64
	nextMan int
	// how the IDs the publisher chooses itself are spelled (manual mode; also the rejected explicit IDs of automatic mode)
	manStyle int
	manPerm  []int // manStyleShuffled: a permutation of 0..len-1 (beyond it: the identity)
}

// spellings of the k-th explicit ID.  Applications that set IDs themselves mostly number their events, so explicit IDs
// that LOOK like generated ones (canonical decimals) in every order are a class of their own, next to opaque names.
const (
	manStyleName     = iota // "m0", "m1", ...
	manStyleCounting        // "0", "1", "2", ... exactly what an automatic replayer would issue
	manStyleDown            // decreasing decimals
	manStyleBlocks          // decimals, every block of three out of order: 0 2 1 3 5 4 ...
	manStyleGapped          // increasing with gaps: 0 1 5 6 10 11 ...
	manStylePadded          // decimals with leading zeros: "000", "001", ...
	manStyleMixed           // decimals and names alternating
	manStyleShuffled        // decimals in a shuffled order (manPerm; without one: k*7+3 mod 11 per block of 11)
	manStyleOffset          // consecutive decimals that do not start at 0
	numManStyles
)

func (g *histGen) manID(k int) string {
	switch g.manStyle {
	case manStyleCounting:
		return strconv.Itoa(k)
	case manStyleDown:
		return strconv.Itoa(1000 - k%1000)
	case manStyleBlocks:
		return strconv.Itoa(k/3*3 + []int{0, 2, 1}[k%3])
	case manStyleGapped:
		return strconv.Itoa(k + k/2*3)
	case manStylePadded:
		return fmt.Sprintf("%03d", k)
	case manStyleMixed:
		if k%2 == 0 {
			return strconv.Itoa(k)
		}
		return "m" + strconv.Itoa(k)
	case manStyleShuffled:
		if k < len(g.manPerm) {
			return strconv.Itoa(g.manPerm[k])
		}
		if g.manPerm != nil {
			return strconv.Itoa(k)
		}
		return strconv.Itoa(k/11*11 + (k*7+3)%11)
	case manStyleOffset:
		return strconv.Itoa(k + 17)
	}
	return "m" + strconv.Itoa(k)
}

// blockShuffle is a permutation of 0..n-1 that shuffles blocks of 2-5 neighbours (IDs out of order, but close together)
func blockShuffle(r *rng.R, n int) []int {
	p := make([]int, n)
	for i := range p {
		p[i] = i
	}
	for lo := 0; lo < n; {
		hi := lo + 2 + r.Intn(4)
		if hi > n {
			hi = n
		}
		for i := hi - 1; i > lo; i-- {
			j := lo + r.Intn(i-lo+1)
			p[i], p[j] = p[j], p[i]
		}
		lo = hi
	}
	return p
}

// randHist: a history generator with a random spelling of the explicit IDs (opaque names half of the time)
func randHist(r *rng.R, auto bool, maxOps int) *histGen {
	g := &histGen{auto: auto}
	if r.Bool() {
		g.manStyle = 1 + r.Intn(numManStyles-1)
		if g.manStyle == manStyleShuffled {
			g.manPerm = blockShuffle(r, maxOps)
		}
	}
	return g
}

// unissuedNumeral: a canonical decimal that no accepted put carries - inside the range of the issued numerals if there is
// a hole there (one of the four nearest to the largest, which one depends on the history's length), else (or if !inside)
// the largest issued numeral plus one
func (g *histGen) unissuedNumeral(inside bool) string {
	have := map[uint64]bool{}
	var lo, hi uint64
	first := true
	for _, id := range g.issued {
		n, err := strconv.ParseUint(id, 10, 64)
		if err != nil || strconv.FormatUint(n, 10) != id {
			continue
		}
		have[n] = true
		if first || n < lo {
			lo = n
		}
		if first || n > hi {
			hi = n
		}
		first = false
	}
	if first {
		return "1"
	}
	if inside {
		holes := []uint64{}
		for n := hi; n > lo && hi-n < 64 && len(holes) < 4; n-- {
			if !have[n] {
				holes = append(holes, n)
			}
		}
		if len(holes) > 0 {
			return strconv.FormatUint(holes[len(g.issued)%len(holes)], 10)
		}
	}
	return strconv.FormatUint(hi+1, 10)
}

var topicSets = [][]string{{""}, {"t"}, {"", "t"}, {"u"}}

// abstract operations
const (
	opPut0 = iota // put, topics {""}
	opPut1        // put, topics {"t"}
	opPut2        // put, topics {"", "t"}
	opPutNoTopic
	opPutWrongID
	opPutDupID   // manual: reuse the most recent ID (first-match semantics); auto: same as wrong ID
	opPutEmptyID // an ID that is set but empty (the "id:" reset line): manual: accepted; auto: rejected like any set ID
	opRepNewest  // replay presenting the k-th most recent issued ID
	opRep1
	opRep2
	opRep3
	opRep5
	opRepUnknown
	opRepUnset
	opRepNonCanon // "0"+newest (automatic: never issued in this form)
	opRepFuture   // automatic: a numeral not yet issued
	opRepFail0    // replay from 2nd most recent... with the first Send failing
	opRepFail1    // second call failing
	opRepTopicT   // replay k=3 with topics {"t"} only
	opRepHuge     // numerals around 2^63 / 2^64 (never issued)
	opRepNoTopics // replay k=2 by a subscription without topics (a direct user of the replayer; the Server never does)
	opRepInRange  // a canonical numeral that was never issued although it lies between the smallest and the largest issued one
	opRepNextNum  // the numeral right after the largest issued one
	numAbstractOps
)

func (g *histGen) put(kind int) (idopt val.V, tok uint64, topics []string) {
	g.nextTok++
	tok = g.nextTok
	switch kind {
	case opPut0:
		topics = topicSets[0]
	case opPut1:
		topics = topicSets[1]
	case opPut2:
		topics = topicSets[2]
	case opPutNoTopic:
		topics = nil
	default:
		topics = topicSets[0]
	}
	wantID := !g.auto
	if kind == opPutWrongID {
		wantID = g.auto
	}
	if kind == opPutDupID && !g.auto && len(g.issued) > 0 {
		id := g.issued[len(g.issued)-1]
		g.issued = append(g.issued, id)
		return val.L(val.S(id)), tok, topics
	}
	if kind == opPutDupID && g.auto {
		wantID = true
	}
	if kind == opPutEmptyID {
		if !g.auto {
			g.issued = append(g.issued, "")
		}
		return val.L(val.S("")), tok, topics
	}
	if wantID {
		id := g.manID(g.nextMan)
		g.nextMan++
		if !g.auto && kind != opPutNoTopic {
			g.issued = append(g.issued, id)
		}
		return val.L(val.S(id)), tok, topics
	}
	if g.auto && kind != opPutNoTopic && kind != opPutWrongID && kind != opPutDupID {
		g.issued = append(g.issued, strconv.Itoa(len(g.issued)))
	}
	return val.L(), tok, topics
}

func (g *histGen) recent(k int) val.V {
	if k >= len(g.issued) {
		if len(g.issued) == 0 {
			return val.L(val.S("none-yet"))
		}
		k = len(g.issued) - 1
	}
	return val.L(val.S(g.issued[len(g.issued)-1-k]))
}

func (g *histGen) replay(kind int) (idopt val.V, topics []string, script val.V) {
	topics = []string{""}
	script = val.L()
	switch kind {
	case opRepNewest:
		idopt = g.recent(0)
	case opRep1:
		idopt = g.recent(1)
	case opRep2:
		idopt = g.recent(2)
		topics = []string{"", "t"}
	case opRep3:
		idopt = g.recent(3)
	case opRep5:
		idopt = g.recent(5)
		topics = []string{"t", "u"}
	case opRepUnknown:
		idopt = val.L(val.S("zz"))
	case opRepUnset:
		idopt = val.L()
	case opRepNonCanon:
		idopt = val.L(val.S("0" + g.recent(1).At(0).Str()))
	case opRepFuture:
		idopt = val.L(val.S(strconv.Itoa(len(g.issued) + 3)))
	case opRepFail0:
		idopt = g.recent(2)
		topics = []string{"", "t"}
		script = val.L(val.N(7))
	case opRepFail1:
		idopt = g.recent(3)
		topics = []string{"", "t"}
		script = val.L(val.N(0), val.N(8))
	case opRepTopicT:
		idopt = g.recent(3)
		topics = []string{"t"}
	case opRepNoTopics:
		idopt = g.recent(2)
		topics = nil
	case opRepInRange, opRepNextNum:
		idopt = val.L(val.S(g.unissuedNumeral(kind == opRepInRange)))
	case opRepHuge:
		idopt = val.L(val.S([]string{"18446744073709551615", "9223372036854775808", "18446744073709551616", "9223372036854775807"}[len(g.issued)%4]))
	}
	return
}

var topicPool = []string{"", "a", "b", "c", "t"}

// randTopics overrides the topic list of half of the random operations with a random
// ordered list of 1-3 topics (intersections at every relative position).
func randTopics(r *rng.R, topics []string) []string {
	if r == nil || len(topics) == 0 || r.Bool() {
		return topics
	}
	n := 1 + r.Intn(3)
	out := make([]string, n)
	for i := range out {
		out[i] = topicPool[r.Intn(len(topicPool))]
	}
	return out
}

func finiteOp(g *histGen, kind int, r *rng.R) val.V {
	if kind < opRepNewest {
		id, tok, topics := g.put(kind)
		return val.L(val.N(0), id, val.N(tok), val.Strs(randTopics(r, topics)))
	}
	id, topics, script := g.replay(kind)
	return val.L(val.N(1), id, val.Strs(randTopics(r, topics)), script)
}

// enumerate all sequences of abstract ops of the given length over the alphabet
func enumerate(alphabet []int, length int, f func(seq []int)) {
	seq := make([]int, length)
	var rec func(i int)
	rec = func(i int) {
		if i == length {
			f(seq)
			return
		}
		for _, a := range alphabet {
			seq[i] = a
			rec(i + 1)
		}
	}
	rec(0)
}

var exhaustiveStyles = []int{manStyleName, manStyleCounting, manStyleBlocks, manStyleDown, manStylePadded, manStyleMixed}

var smallAlphabet = []int{opPut0, opPut2, opPutNoTopic, opPutWrongID, opPutEmptyID, opRepNewest, opRep1, opRep2, opRepUnknown, opRepUnset, opRepFail0, opRepNonCanon, opRepHuge}

func weightedOp(r *rng.R) int {
	// mostly valid puts and replays of buffered IDs, some of everything else
	switch x := r.Intn(100); {
	case x < 40:
		return []int{opPut0, opPut1, opPut2}[r.Intn(3)]
	case x < 46:
		return []int{opPutNoTopic, opPutWrongID, opPutDupID, opPutEmptyID}[r.Intn(4)]
	default:
		return opRepNewest + r.Intn(numAbstractOps-opRepNewest)
	}
}

// directed: capacities that are no power of two (and some that are), well over N puts, then replays from several ages
func genFiniteCapacities(c *Ctx) {
	for _, auto := range []bool{false, true} {
		for _, n := range []int{5, 7, 12, 16, 17, 20, 24, 31, 32, 33, 48, 100} {
			g := &histGen{auto: auto}
			ops := []val.V{}
			for i := 0; i < 2*n+3; i++ {
				ops = append(ops, finiteOp(g, opPut0, nil))
				if i == n-1 || i == n || i == n+1 || i == 2*n+2 {
					ops = append(ops, finiteOp(g, opRepNewest, nil), finiteOp(g, opRep3, nil))
				}
			}
			c.Count("directed:capacity-sweep")
			c.Emit(val.L(val.Int(n), val.Bool(auto), val.List(ops)))
			// the same puts, then the ID of every age presented: the oldest buffered one, the one evicted last, IDs evicted
			// 2, 3, n/2, n-1, n, n+1 puts ago and the very first (what a buffer that holds more than N would still find)
			for _, k := range []int{n - 2, n - 1, n, n + 1, n + 2, n + n/2, 2*n - 1, 2 * n, 2*n + 1, 2*n + 2} {
				if k < len(g.issued) {
					ops = append(ops, val.L(val.N(1), g.recent(k), val.Strs([]string{""}), val.L()))
				}
			}
			c.Count("directed:capacity-sweep-every-age")
			c.Emit(val.L(val.Int(n), val.Bool(auto), val.List(ops)))
		}
	}
}

// arrangements: every sequence of m distinct values out of 0..n-1
func arrangements(n, m int, f func(seq []int)) {
	seq := make([]int, 0, m)
	used := make([]bool, n)
	var rec func()
	rec = func() {
		if len(seq) == m {
			f(seq)
			return
		}
		for v := 0; v < n; v++ {
			if !used[v] {
				used[v] = true
				seq = append(seq, v)
				rec()
				seq = seq[:len(seq)-1]
				used[v] = false
			}
		}
	}
	rec()
}

// explicit IDs that are numerals, in every order: the publisher puts m distinct numbers out of base..base+5 (increasing,
// decreasing, permuted, with gaps; zero-padded to the given width), then a subscriber presents every number of that range and
// the next one - buffered, evicted or never issued.  emit gets the IDs put and the IDs presented.
func manualNumeralSweep(emit func(name string, puts, presented []string)) {
	for _, sp := range []struct {
		base  int
		width int
	}{{0, 0}, {8, 0}, {0, 2}} {
		spell := func(v int) string { return fmt.Sprintf("%0*d", sp.width, sp.base+v) }
		for m := 2; m <= 4; m++ {
			arrangements(6, m, func(seq []int) {
				puts := make([]string, m)
				for i, v := range seq {
					puts[i] = spell(v)
				}
				presented := []string{}
				for v := 0; v <= 6; v++ {
					presented = append(presented, spell(v))
				}
				emit(fmt.Sprintf("directed:manual-numerals:%d-of-6", m), puts, presented)
			})
		}
	}
}

func genFinite(c *Ctx) {
	genFiniteCapacities(c)
	manualNumeralSweep(func(name string, puts, presented []string) {
		for _, n := range []int{2, 3, 4, 5} {
			if n > len(puts)+1 {
				continue
			}
			ops := []val.V{}
			for i, id := range puts {
				ops = append(ops, val.L(val.N(0), val.L(val.S(id)), val.Int(i+1), val.Strs([]string{""})))
			}
			for _, id := range presented {
				ops = append(ops, val.L(val.N(1), val.L(val.S(id)), val.Strs([]string{""}), val.L()))
			}
			c.Count(name)
			c.Emit(val.L(val.Int(n), val.Bool(false), val.List(ops)))
		}
	})
	// directed: subscriptions without topics resuming from every age
	for _, auto := range []bool{false, true} {
		g := &histGen{auto: auto}
		ops := []val.V{}
		for i := 0; i < 5; i++ {
			ops = append(ops, finiteOp(g, []int{opPut0, opPut2, opPut0, opPut1, opPut0}[i], nil), finiteOp(g, opRepNoTopics, nil))
		}
		c.Count("directed:subscription-without-topics")
		c.Emit(val.L(val.Int(4), val.Bool(auto), val.List(ops)))
	}
	// capacities below the minimum are rejected
	for _, n := range []int{0, 1} {
		c.Emit(val.L(val.Int(n), val.Bool(true), val.L()))
	}
	maxLen := 4
	if c.Thorough {
		maxLen = 5
	}
	for _, auto := range []bool{false, true} {
		for _, n := range []int{2, 3} {
			for length := 1; length <= maxLen; length++ {
				if length == maxLen && n == 3 && !c.Thorough {
					continue
				}
				// up to length 3 also with explicit IDs spelled as numerals (for the longer histories it would triple the run)
				styles := []int{manStyleName}
				if length <= 3 {
					styles = exhaustiveStyles
				}
				alphabet := smallAlphabet
				if length > 4 {
					// 13^5 x 4 histories are 1.5 million and more than the driver reads back: nine letters there
					alphabet = []int{opPut0, opPut2, opPutWrongID, opRepNewest, opRep1, opRep2, opRepUnknown, opRepFail0, opRepNonCanon}
				}
				for _, style := range styles {
					enumerate(alphabet, length, func(seq []int) {
						g := &histGen{auto: auto, manStyle: style}
						ops := make([]val.V, len(seq))
						for i, k := range seq {
							ops[i] = finiteOp(g, k, nil)
						}
						c.Count(fmt.Sprintf("exhaustive:len%d", length))
						c.Emit(val.L(val.Int(n), val.Bool(auto), val.List(ops)))
					})
				}
			}
		}
	}
	nrand, maxOps := 1500, 60
	if c.Thorough {
		// sized to stay below what the driver can read back (1.5 GB of observed states); it was 40000 before the directed
		// sweeps and ID spellings of round 7 were added
		nrand, maxOps = 37000, 400
	}
	for i := 0; i < nrand; i++ {
		auto := c.R.Bool()
		n := []int{2, 3, 4, 5, 7, 8, 16, 64}[c.R.Intn(8)]
		g := randHist(c.R, auto, maxOps)
		l := 1 + c.R.Intn(maxOps)
		ops := make([]val.V, l)
		for j := range ops {
			ops[j] = finiteOp(g, weightedOp(c.R), c.R)
		}
		c.Count("random")
		c.Count(fmt.Sprintf("random:cap%d", n))
		c.Emit(val.L(val.Int(n), val.Bool(auto), val.List(ops)))
	}
}

// the user assigns GCInterval (an exported field) between two operations
func setGCIOp(now, gci int64) val.V { return val.L(val.N(3), val.Z(now), val.Z(gci)) }

// the values the abstract operations -2, -3, -4 assign
var gciChoices = []int64{1, 25, 0}

// valid: abstract ops additionally: GC (-1), GCInterval assignments (-2, -3, -4) and clock advances (applied before the op)
func validOp(g *histGen, kind int, now int64, r *rng.R) val.V {
	switch {
	case kind <= -2:
		return setGCIOp(now, gciChoices[-2-kind])
	case kind == -1:
		return val.L(val.N(2), val.Z(now))
	case kind < opRepNewest:
		id, tok, topics := g.put(kind)
		return val.L(val.N(0), val.Z(now), id, val.N(tok), val.Strs(randTopics(r, topics)))
	default:
		id, topics, script := g.replay(kind)
		return val.L(val.N(1), val.Z(now), id, val.Strs(randTopics(r, topics)), script)
	}
}

// directed: a long backlog.  A burst of n events (n well above any batch size a collection might work in), a pause longer
// than the TTL, then ONE Put whose collection is due (or an explicit GC()): all n are expired at that instant - or all but
// the five that were put just before the pause.  Afterwards resumptions and further Puts (the ring shrinks step by step).
func genValidBacklog(c *Ctx) {
	const ttl = 10
	for _, n := range []int{300, 1000} {
		for _, auto := range []bool{false, true} {
			for gk, gci := range []val.V{val.L(), val.L(val.Z(1)), val.L(val.Z(3 * ttl))} {
				for variant := 0; variant < 3; variant++ {
					if n > 300 && (gk != 0 || variant == 2) {
						continue // the long ones cost tens of megabytes of observed ring states each
					}
					g := &histGen{auto: auto}
					vops := []val.V{}
					for i := 0; i < n; i++ {
						vops = append(vops, validOp(g, opPut0, int64(i*4/n), nil)) // instants 0..3: collections fall due on the way, nothing has expired
					}
					now := int64(100)
					switch variant {
					case 0: // everything expired, one Put
						vops = append(vops, validOp(g, opPut0, now, nil))
					case 1: // five more just before the pause; they are alive when the Put comes
						for i := 0; i < 5; i++ {
							vops = append(vops, validOp(g, opPut2, 9, nil))
						}
						now = 14
						vops = append(vops, validOp(g, opPut0, now, nil))
					default: // explicit collection
						vops = append(vops, validOp(g, -1, now, nil), validOp(g, opPut0, now, nil))
					}
					vops = append(vops, validOp(g, opRepNewest, now, nil), validOp(g, opRep3, now, nil), validOp(g, opRep5, now+1, nil),
						validOp(g, opPut0, now+1, nil), validOp(g, opPut0, now+3*ttl, nil), validOp(g, opRep1, now+3*ttl, nil),
						validOp(g, opPut0, now+6*ttl, nil), validOp(g, -1, now+9*ttl, nil))
					c.Count(fmt.Sprintf("directed:backlog-%d", n))
					c.Emit(val.L(val.Z(ttl), val.Bool(auto), gci, val.List(vops)))
				}
			}
		}
	}
}

func genValid(c *Ctx) {
	genValidBacklog(c)
	genValidHistories(c)
}

func genValidHistories(c *Ctx) {
	c.Emit(val.L(val.Z(0), val.Bool(true), val.L(), val.L()))
	c.Emit(val.L(val.Z(-5), val.Bool(false), val.L(), val.L()))
	const ttl = 10
	// exhaustive: (advance in {0,1,ttl-1,ttl,ttl+1}) x (op in small set incl. GC)
	advances := []int64{0, 1, ttl - 1, ttl}
	ops := []int{opPut0, opPut2, opPutWrongID, opRepNewest, opRep1, opRep2, opRepFail0, -1}
	maxLen := 3
	if c.Thorough {
		maxLen = 4
	}
	type step struct {
		adv int64
		op  int
	}
	var full, reduced []step
	for _, a := range advances {
		for _, o := range ops {
			full = append(full, step{a, o})
			if a != 1 && o != opPutWrongID && o != opRep2 {
				reduced = append(reduced, step{a, o})
			}
		}
	}
	// GCInterval assigned between two operations: lowered to 1, raised to 25, switched off (the instant does not matter);
	// up to length 3 only - the thorough tier's length 4 is as large as the driver can read back without them
	for _, o := range []int{-2, -3, -4} {
		full = append(full, step{0, o})
	}
	for _, auto := range []bool{false, true} {
		for _, gci := range []val.V{val.L(), val.L(val.Z(0)), val.L(val.Z(1)), val.L(val.Z(25))} {
			for length := 1; length <= maxLen; length++ {
				// 32 steps up to length 3; beyond that (thorough tier) the 18-step alphabet, or the space explodes
				alphabet := full
				if length > 3 {
					alphabet = reduced
				}
				idx := make([]int, length)
				for {
					g := &histGen{auto: auto}
					now := int64(0)
					vops := make([]val.V, length)
					for i, ai := range idx {
						now += alphabet[ai].adv
						vops[i] = validOp(g, alphabet[ai].op, now, nil)
					}
					c.Count(fmt.Sprintf("exhaustive:len%d", length))
					c.Emit(val.L(val.Z(ttl), val.Bool(auto), gci, val.List(vops)))
					k := length - 1
					for k >= 0 {
						idx[k]++
						if idx[k] < len(alphabet) {
							break
						}
						idx[k] = 0
						k--
					}
					if k < 0 {
						break
					}
				}
			}
		}
	}
	// directed: subscriptions without topics resuming from every age
	for _, auto := range []bool{false, true} {
		g := &histGen{auto: auto}
		vops := []val.V{}
		for i := 0; i < 5; i++ {
			vops = append(vops, validOp(g, []int{opPut0, opPut2, opPut0, opPut1, opPut0}[i], int64(i), nil), validOp(g, opRepNoTopics, int64(i), nil))
		}
		c.Count("directed:subscription-without-topics")
		c.Emit(val.L(val.Z(ttl), val.Bool(auto), val.L(), val.List(vops)))
	}
	// directed: explicit IDs that are numerals in every order (the ring is not full / grows from 4 to 8 slots on the way)
	manualNumeralSweep(func(name string, puts, presented []string) {
		for _, extra := range []int{0, 3} {
			if extra > 0 && len(puts) != 3 {
				continue
			}
			vops := []val.V{}
			tok := uint64(0)
			for i := 0; i < extra; i++ { // earlier events with names for IDs; they expire before the replays
				tok++
				vops = append(vops, val.L(val.N(0), val.Z(0), val.L(val.S("e"+strconv.Itoa(i))), val.N(tok), val.Strs([]string{""})))
			}
			for _, id := range puts {
				tok++
				vops = append(vops, val.L(val.N(0), val.Z(5), val.L(val.S(id)), val.N(tok), val.Strs([]string{""})))
			}
			for _, id := range presented {
				vops = append(vops, val.L(val.N(1), val.Z(ttl+1), val.L(val.S(id)), val.Strs([]string{""}), val.L()))
			}
			c.Count(name)
			c.Emit(val.L(val.Z(ttl), val.Bool(false), val.L(val.Z(0)), val.List(vops)))
		}
	})
	// directed: GCInterval changed on a replayer in use - before the first Put, after two Puts, after a collection triggered
	// by a Put, after an explicit one - from every value to every value; then a pause of every relevant length and a Put
	// (is its collection due under the interval in force NOW?), a resumption, another pause of the new interval and a Put
	for _, auto := range []bool{false, true} {
		for _, g0 := range []val.V{val.L(), val.L(val.Z(0)), val.L(val.Z(1)), val.L(val.Z(5)), val.L(val.Z(30))} {
			for _, g1 := range []int64{0, 1, 2, 5, 30} {
				for when := 0; when < 4; when++ {
					for _, pause := range []int64{1, 2, 5, ttl + 1, 30, 41} {
						g := &histGen{auto: auto}
						vops := []val.V{}
						now := int64(0)
						if when == 0 {
							vops = append(vops, setGCIOp(now, g1))
						}
						vops = append(vops, validOp(g, opPut0, now, nil), validOp(g, opPut2, now+1, nil))
						now++
						switch when {
						case 2: // a Put late enough for any interval: it collects (unless the interval is 0)
							now += 31
							vops = append(vops, validOp(g, opPut0, now, nil), validOp(g, opPut0, now, nil))
						case 3:
							now += 3
							vops = append(vops, validOp(g, -1, now, nil), validOp(g, opPut0, now, nil))
						}
						if when != 0 {
							vops = append(vops, setGCIOp(now, g1))
						}
						now += pause
						vops = append(vops, validOp(g, opPut0, now, nil), validOp(g, opRep1, now, nil))
						now += g1
						vops = append(vops, validOp(g, opPut0, now, nil), validOp(g, opRepNewest, now, nil), validOp(g, -1, now+ttl, nil))
						c.Count("directed:gc-interval-changed")
						c.Emit(val.L(val.Z(ttl), val.Bool(auto), g0, val.List(vops)))
					}
				}
			}
		}
	}
	// directed: "keep (almost) forever" TTLs - close to the largest Duration, 250 years
	for _, auto := range []bool{false, true} {
		for _, ttlv := range []int64{9223372036854775807 - 4_000_000_000_000, 250 * 365 * 24 * 3600 * 1_000_000_000, 1 << 62} {
			g := &histGen{auto: auto}
			vops := []val.V{}
			now := int64(0)
			for i := 0; i < 6; i++ {
				now += 1_000_000_000
				vops = append(vops, validOp(g, opPut0, now, nil))
			}
			vops = append(vops, validOp(g, opRep3, now, nil), validOp(g, -1, now+3_000_000_000, nil), validOp(g, opRep2, now+3_000_000_000, nil), validOp(g, opPut0, now+3_000_000_001, nil), validOp(g, opRepNewest, now+3_000_000_002, nil))
			c.Count("directed:very-long-ttl")
			c.Emit(val.L(val.Z(ttlv), val.Bool(auto), val.L(), val.List(vops)))
		}
	}
	// directed: grow the ring to L slots with one put per tick, let all but r entries expire, collect explicitly (the
	// shrink decision is taken at r around L/4), then resume from the newest / an older ID, put, collect partially, put
	for _, auto := range []bool{false, true} {
		for _, L := range []int{8, 16, 32} {
			for _, r := range []int{L/4 - 1, L / 4, L/4 + 1, L / 2, 1, 0} {
				for _, fill := range []int{L/2 + 1, L - 1, L} {
					if r > fill {
						continue
					}
					for variant := 0; variant < 3; variant++ {
						g := &histGen{auto: auto}
						const bigTTL = 1000
						vops := []val.V{}
						now := int64(0)
						for i := 0; i < fill; i++ {
							now++
							vops = append(vops, validOp(g, opPut0, now, nil))
						}
						now = int64(fill-r) + bigTTL // the first fill-r entries are expired now, the last r are not
						vops = append(vops, validOp(g, -1, now, nil))
						switch variant {
						case 0:
							vops = append(vops, validOp(g, opRepNewest, now, nil), validOp(g, opRep1, now, nil), validOp(g, opPut0, now, nil), validOp(g, opRepNewest, now, nil))
						case 1:
							vops = append(vops, validOp(g, opPut2, now, nil), validOp(g, opRep2, now, nil))
							now += 2
							vops = append(vops, validOp(g, -1, now, nil), validOp(g, opPut0, now, nil), validOp(g, opRep1, now, nil))
						default:
							now++
							vops = append(vops, validOp(g, -1, now, nil), validOp(g, opPut0, now, nil), validOp(g, opPut0, now, nil), validOp(g, opRep3, now, nil), validOp(g, opRepNewest, now, nil))
						}
						c.Count("directed:grow-expire-collect")
						c.Emit(val.L(val.Z(bigTTL), val.Bool(auto), val.L(val.Z(0)), val.List(vops)))
					}
				}
			}
		}
	}
	nrand, maxOps := 1500, 80
	if c.Thorough {
		nrand, maxOps = 40000, 400
	}
	for i := 0; i < nrand; i++ {
		auto := c.R.Bool()
		ttlv := []int64{1, 5, 10, 100, 1000}[c.R.Intn(5)]
		gci := []val.V{val.L(), val.L(val.Z(0)), val.L(val.Z(1)), val.L(val.Z(ttlv / 2)), val.L(val.Z(ttlv * 3))}[c.R.Intn(5)]
		g := randHist(c.R, auto, maxOps)
		l := 1 + c.R.Intn(maxOps)
		now := int64(0)
		vops := make([]val.V, l)
		// phases of dense puts (growth), quiet periods (expiry, shrink), to visit grow/wrap/shrink shapes
		burst := c.R.Intn(3)
		for j := range vops {
			if c.R.Intn(12) == 0 {
				burst = c.R.Intn(3)
			}
			var adv int64
			switch burst {
			case 0: // dense
				if c.R.Intn(4) == 0 {
					adv = 1
				}
			case 1: // steady
				adv = int64(c.R.Intn(int(ttlv)/2 + 2))
			default: // sparse
				adv = int64(c.R.Intn(int(ttlv)*2 + 2))
			}
			now += adv
			var k int
			switch x := c.R.Intn(100); {
			case x < 3:
				// the interval is changed: switched off, the smallest, a fraction / a multiple of the TTL
				vops[j] = setGCIOp(now, []int64{0, 1, ttlv / 4, ttlv / 2, ttlv, ttlv * 3}[c.R.Intn(6)])
				c.Count("random:op:set-gc-interval")
				continue
			case x < 12:
				k = -1
			case burst == 0 && x < 80:
				k = []int{opPut0, opPut1, opPut2}[c.R.Intn(3)]
			default:
				k = weightedOp(c.R)
			}
			vops[j] = validOp(g, k, now, c.R)
		}
		c.Count("random")
		c.Emit(val.L(val.Z(ttlv), val.Bool(auto), gci, val.List(vops)))
	}
}
