package main

import (
	"context"
	"encoding/json"
	"net"
	"net/http"
	"net/http/httptest"

	sse "github.com/tmaxmax/go-sse"

	"verifharness/rng"
	"verifharness/val"
)

// Family "fields" (C14): every construction route of EventID/EventType.
// input : (n<route> ...)   observed : (set value err)

func init() { families["fields"] = family{gen: genFields, exec: execFields} }

var fieldPieces = []string{"%0A", "%0D%0A", "%0d", "a%0Adata: x", "&#10;", "\\r\\n", "message", "*", "\x0b", "\x0c", "\u0085", "\u2028", "", "a", "b", "id: x", "data: injected", ":", " ", "\n", "\r", "\r\n", "\n\n", "\x00", "\xef\xbb\xbf", "é", "\xff", "7", "event: e", "\\n"}

func genFieldText(r *rng.R) string {
	n := r.Intn(5)
	s := ""
	for i := 0; i < n; i++ {
		s += rng.Pick(r, fieldPieces)
	}
	return s
}

func genFields(c *Ctx) {
	// exhaustive small texts: all sequences of up to 3 pieces from a reduced alphabet, through every route
	small := []string{"a", "\n", "\r", ":", " ", "\x00", ""}
	var texts []string
	var rec func(prefix string, depth int)
	rec = func(prefix string, depth int) {
		texts = append(texts, prefix)
		if depth == 0 {
			return
		}
		for _, p := range small[:6] {
			rec(prefix+p, depth-1)
		}
	}
	rec("", 3)
	n := 3000
	if c.Thorough {
		n = 60000
	}
	for i := 0; i < n; i++ {
		texts = append(texts, genFieldText(c.R))
	}
	for _, t := range texts {
		hasNL := false
		for i := 0; i < len(t); i++ {
			if t[i] == '\n' || t[i] == '\r' {
				hasNL = true
			}
		}
		if hasNL {
			c.Count("text:multiline")
		} else {
			c.Count("text:singleline")
		}
		b := []byte(t)
		c.Emit(val.L(val.N(0), val.B(b)))
		c.Emit(val.L(val.N(1), val.B(b)))
		// JSON: a proper encoding of t, t between quotes as it is (a string literal whose inside is
		// RAW text: control characters, line breaks, quotes, backslashes unescaped - what a caller of
		// the method, or a lenient decoder, may hand over; `decoded` is what encoding/json says of it),
		// and t itself as a raw document
		enc, _ := json.Marshal(t)
		quoted := append(append([]byte{'"'}, b...), '"')
		if hasNL {
			c.Count("json:raw-linebreak-inside-literal")
		}
		for di, doc := range [][]byte{quoted, enc, b, []byte("null"), []byte("12"), []byte(`"a\u000ab"`), []byte(`"a\rb"`), []byte(`"\u000D"`)} {
			var s string
			err := json.Unmarshal(doc, &s)
			c.Emit(val.L(val.N(2), val.B(doc), val.Opt(val.S(s), err == nil)))
			if di >= 1 && len(texts) > 500 && c.R.Intn(4) != 0 {
				break
			}
		}
		c.Emit(val.L(val.N(3), val.N(1), val.B(b)))
		c.Emit(val.L(val.N(3), val.N(2), val.B(b)))
		if c.R.Intn(16) == 0 {
			c.Emit(val.L(val.N(3), val.N(0), val.B(nil)))
			c.Emit(val.L(val.N(3), val.N(3), val.B(nil)))
		}
		// the encoding side: the value NewID makes of t, through MarshalText/UnmarshalText, Value/Scan, MarshalJSON/UnmarshalJSON
		{
			var s string
			err := json.Unmarshal(enc, &s)
			c.Emit(val.L(val.N(5), val.B(b), val.B(enc), val.Opt(val.S(s), err == nil)))
			c.Count("encoding-side-round-trips")
		}
		// header: the value first, alone or followed by another
		c.Emit(val.L(val.N(4), val.L(val.B(b))))
		if c.R.Intn(4) == 0 {
			c.Emit(val.L(val.N(4), val.L(val.B(b), val.S("other"))))
			c.Emit(val.L(val.N(4), val.L()))
		}
	}
}

func encField(set bool, value string, err bool) val.V {
	return val.L(val.Bool(set), val.S(value), val.Bool(err))
}

// every case is run twice: a second call with the same input must give what the first gave (nothing may remember)
func execFields(in val.V) val.V {
	first := execFieldsOnce(in)
	second := execFieldsOnce(in)
	if second.String() != first.String() {
		return second
	}
	return first
}

func execFieldsOnce(in val.V) val.V {
	switch in.At(0).Num() {
	case 0:
		id, err := sse.NewID(in.At(1).Str())
		ty, err2 := sse.NewType(in.At(1).Str())
		if id.IsSet() != ty.IsSet() || id.String() != ty.String() || (err != nil) != (err2 != nil) {
			return val.S("NewID/NewType disagree")
		}
		// ID()/Type() panic exactly when New* errors
		panics := func(f func()) (p bool) {
			defer func() { p = recover() != nil }()
			f()
			return
		}
		var viaID sse.EventID
		var viaType sse.EventType
		if panics(func() { viaID = sse.ID(in.At(1).Str()) }) != (err != nil) || viaID != id {
			return val.S("ID()/NewID disagree")
		}
		if panics(func() { viaType = sse.Type(in.At(1).Str()) }) != (err2 != nil) || viaType != ty {
			return val.S("Type()/NewType disagree")
		}
		return encField(id.IsSet(), id.String(), err != nil)
	case 1:
		id := sse.ID("previous")
		buf := append([]byte(nil), in.At(1).Bytes()...)
		err := id.UnmarshalText(buf)
		scribble(buf) // the caller may reuse its buffer: the value must not change (nor become multi-line) afterwards
		return encField(id.IsSet(), id.String(), err != nil)
	case 2:
		id := sse.ID("previous")
		buf := append([]byte(nil), in.At(1).Bytes()...)
		err := id.UnmarshalJSON(buf)
		scribble(buf)
		return encField(id.IsSet(), id.String(), err != nil)
	case 3:
		ty := sse.Type("previous")
		var src any
		switch in.At(1).Num() {
		case 0:
			src = nil
		case 1:
			src = append([]byte(nil), in.At(2).Bytes()...)
		case 2:
			src = in.At(2).Str()
		default:
			src = 42
		}
		err := ty.Scan(src)
		if b, ok := src.([]byte); ok {
			scribble(b) // database/sql reuses the []byte it hands to Scan
		}
		return encField(ty.IsSet(), ty.String(), err != nil)
	case 5:
		id, err := sse.NewID(in.At(1).Str())
		out := []val.V{encField(id.IsSet(), id.String(), err != nil)}
		mt, mterr := id.MarshalText()
		if mterr == nil {
			out = append(out, val.L(val.N(1), val.B(append([]byte(nil), mt...))))
			back := sse.ID("previous")
			buf := append([]byte(nil), mt...)
			e := back.UnmarshalText(buf)
			scribble(buf)
			scribble(mt) // the caller owns what MarshalText returned: the value must not change with it
			out = append(out, encField(back.IsSet(), back.String(), e != nil))
		} else {
			out = append(out, val.L(val.N(0), val.B(nil)), val.L())
		}
		dv, _ := id.Value()
		var asBytes any
		switch x := dv.(type) {
		case nil:
			out = append(out, val.L(val.N(0), val.B(nil)))
		case string:
			out = append(out, val.L(val.N(1), val.S(x)))
			asBytes = []byte(x)
		default:
			out = append(out, val.L(val.N(2), val.B(nil)))
			asBytes = 42
		}
		for _, src := range []any{dv, asBytes} {
			back := sse.Type("previous")
			e := back.Scan(src)
			if bs, ok := src.([]byte); ok {
				scribble(bs)
			}
			out = append(out, encField(back.IsSet(), back.String(), e != nil))
		}
		doc, _ := id.MarshalJSON()
		// what the document denotes (not its spelling): null, a string, anything else
		var denoted string
		switch derr := json.Unmarshal(doc, &denoted); {
		case string(doc) == "null":
			out = append(out, val.L(val.N(0)))
		case derr == nil:
			out = append(out, val.L(val.N(1), val.S(denoted)))
		default:
			out = append(out, val.L(val.N(2)))
		}
		back := sse.ID("previous")
		e := back.UnmarshalJSON(doc)
		scribble(doc)
		out = append(out, encField(back.IsSet(), back.String(), e != nil))
		if id.String() != in.At(1).Str() && id.IsSet() {
			return val.S("the value changed while it was encoded")
		}
		return val.List(out)
	case 4:
		req := httptest.NewRequest(http.MethodGet, "/", nil)
		if vals := in.At(1).Strs(); len(vals) > 0 {
			req.Header["Last-Event-Id"] = vals
		}
		sess, err := sse.Upgrade(httptest.NewRecorder(), req)
		if err != nil {
			return val.S("upgrade failed")
		}
		// the same request as a handler sees it behind net/http's server (the context carries the server's keys) and
		// behind middleware that rewrote the header after it was parsed: nothing may depend on where a request comes from
		ctx := context.WithValue(req.Context(), http.ServerContextKey, &http.Server{})
		ctx = context.WithValue(ctx, http.LocalAddrContextKey, &net.TCPAddr{IP: net.IPv4(127, 0, 0, 1), Port: 80})
		sess2, err2 := sse.Upgrade(httptest.NewRecorder(), req.WithContext(ctx))
		if err2 != nil {
			return val.S("upgrade failed")
		}
		if sess2.LastEventID != sess.LastEventID {
			return encField(sess2.LastEventID.IsSet(), sess2.LastEventID.String(), false)
		}
		return encField(sess.LastEventID.IsSet(), sess.LastEventID.String(), false)
	}
	return val.L()
}

// scribble overwrites a buffer the callee has been given with line breaks.
func scribble(b []byte) {
	for i := range b {
		b[i] = '\n'
	}
}
