package main

import (
	"bytes"
	"encoding/json"
	"errors"
	"io"
	"time"

	sse "github.com/tmaxmax/go-sse"

	"verifharness/rng"
	"verifharness/val"
)

// Family "encode" (C02): sequences of messages built through the public API; observed: the wire
// form of every message, and the events go-sse's own sse.Read reports for the concatenation.
// input : ((op ...) ...)  op = (n0 n<isComment> (x<str> ...)) | (n1 x<id>) | (n2 x<type>) | (n3 z<retry>)
// output: ((x<wire> ...) ((x<id> x<type> x<data>) ...) err)

func init() { families["encode"] = family{gen: genEncode, exec: execEncode} }

func readErrCode(err error) val.V {
	switch {
	case err == nil:
		return val.N(0)
	case errors.Is(err, io.ErrUnexpectedEOF):
		return val.N(2)
	case errors.Is(err, io.EOF):
		return val.N(1)
	default:
		return val.N(9)
	}
}

func execEncode(in val.V) val.V {
	return guard(func() val.V {
		fam := []*sse.Message{{}}
		for _, op := range in.Items() {
			t := op.At(1).Int()
			kind := op.At(0).Num()
			if kind == 5 {
				fam = append(fam, &sse.Message{})
				continue
			}
			if t >= len(fam) {
				continue
			}
			m := fam[t]
			switch kind {
			case 0:
				if op.At(2).Truth() {
					m.AppendComment(op.At(3).Strs()...)
				} else {
					m.AppendData(op.At(3).Strs()...)
				}
			case 1:
				if id, err := sse.NewID(op.At(2).Str()); err == nil {
					m.ID = id
				}
			case 2:
				if ty, err := sse.NewType(op.At(2).Str()); err == nil {
					m.Type = ty
				}
			case 3:
				m.Retry = time.Duration(op.At(2).Signed())
			case 9, 10:
				doc := append([]byte(nil), op.At(2).Bytes()...)
				if kind == 9 {
					var id sse.EventID
					if id.UnmarshalJSON(doc) == nil {
						m.ID = id
					}
				} else {
					var ty sse.EventType
					if ty.UnmarshalJSON(doc) == nil {
						m.Type = ty
					}
				}
				scribble(doc)
			case 12, 13:
				// the ID / type arrives through Scan (database/sql), into the member's field as it is (set or not), from a
				// value the driver reuses afterwards
				if kind == 12 {
					_ = m.ID.Scan(op.At(2).Str())
				} else {
					buf := append([]byte(nil), op.At(2).Bytes()...)
					_ = m.Type.Scan(buf)
					scribble(buf)
				}
			case 11:
				// an attempt to write the member to a writer that fails somewhere: it must leave no trace, neither in the
				// member nor in what is encoded next
				w := &faultWriter{script: op.At(2).Items()}
				var dst io.Writer = w
				if len(val.String(op))%2 == 0 {
					dst = byteFaultWriter{w}
				}
				_, _ = m.WriteTo(dst)
			case 8:
				// the member is overwritten by decoding a wire text into it (it may have clones that share its storage)
				_ = m.UnmarshalText([]byte("data: " + op.At(2).Str() + "\n\n"))
			case 6, 7:
				// the ID / type arrives through UnmarshalText from a buffer the caller reuses afterwards
				buf := append([]byte(nil), op.At(2).Bytes()...)
				if kind == 6 {
					var id sse.EventID
					if id.UnmarshalText(buf) == nil {
						m.ID = id
					}
				} else {
					var ty sse.EventType
					if ty.UnmarshalText(buf) == nil {
						m.Type = ty
					}
				}
				scribble(buf)
			default:
				fam = append(fam, m.Clone())
			}
		}
		// a batch: every member marshalled first, the results looked at afterwards (what an earlier call returned must not
		// change when a later one is made)
		held := make([][]byte, len(fam))
		for i, m := range fam {
			held[i], _ = m.MarshalText()
		}
		var all bytes.Buffer
		wires := []val.V{}
		for i, m := range fam {
			w := wireOf(m)
			if w.Str() != "panic" && string(held[i]) != m.String() {
				w = val.B(held[i])
			}
			wires = append(wires, w)
			all.Write(w.Bytes())
		}
		events := []val.V{}
		var rerr error
		sse.Read(bytes.NewReader(all.Bytes()), nil)(func(ev sse.Event, err error) bool {
			if err != nil {
				rerr = err
				return false
			}
			events = append(events, val.L(val.S(ev.LastEventID), val.S(ev.Type), val.S(ev.Data)))
			return true
		})
		return val.L(val.List(wires), val.List(events), readErrCode(rerr))
	})
}

var payloadPieces = []string{"\x0b", "\x0c", "a\fb", "\x1e", "\u0085", "\u2028", "\t", "\x08", "message", "Message", "a", "b c", "", " ", ":", "\n", "\r", "\r\n", "\n\n", "\r\r\n", "id: x", "data: y", "event: z", "retry: 5", "data:", "\x00", "\xef\xbb\xbf", "é", "\xff", ": c", "data", "  x", "\n\ndata: injected\n\n", "\nid: 9", "\revent: e"}

// lengths around the sizes of buffers an encoder might use
var boundaryLens = []int{55, 56, 57, 58, 59, 60, 61, 62, 63, 64, 65, 66, 120, 121, 122, 126, 127, 128, 129, 250, 254, 255, 256, 257, 506, 510, 511, 512, 513, 1018, 1022, 1023, 1024, 1025, 4088, 4090, 4094, 4095, 4096, 4097}

func longLine(n, seed int) string {
	b := make([]byte, n)
	for i := range b {
		b[i] = byte('a' + (i+seed)%26)
	}
	return string(b)
}

func genPayload(r *rng.R) string {
	if r.Intn(40) == 0 {
		// a line of boundary length, possibly followed by more text
		s := longLine(rng.Pick(r, boundaryLens[:22])+r.Intn(3)-1, r.Intn(26))
		if r.Intn(3) == 0 {
			s += rng.Pick(r, payloadPieces)
		}
		return s
	}
	n := r.Intn(5)
	s := ""
	for i := 0; i < n; i++ {
		s += rng.Pick(r, payloadPieces)
	}
	return s
}

// genEncodeOps appends 0-5 operations on member t.
func genEncodeOps(c *Ctx, ops []val.V, t int, withNul bool) []val.V {
	r := c.R
	nops := r.Intn(6)
	tv := val.Int(t)
	for j := 0; j < nops; j++ {
		switch x := r.Intn(100); {
		case x < 45:
			n := 1 + r.Intn(3)
			strs := make([]val.V, n)
			for i := range strs {
				strs[i] = val.S(genPayload(r))
			}
			isc := r.Intn(4) == 0
			ops = append(ops, val.L(val.N(0), tv, val.Bool(isc), val.List(strs)))
			if isc {
				c.Count("op:comment")
			} else {
				c.Count("op:data")
			}
		case x < 65:
			s := genPayload(r)
			if !withNul {
				s = string(bytes.ReplaceAll([]byte(s), []byte{0}, []byte("0")))
			}
			k := uint64(1)
			if r.Intn(3) == 0 {
				k = 6
			}
			ops = append(ops, val.L(val.N(k), tv, val.S(s)))
			c.Count("op:id")
		case x < 85:
			k := uint64(2)
			if r.Intn(3) == 0 {
				k = 7
			}
			ops = append(ops, val.L(val.N(k), tv, val.S(genPayload(r))))
			c.Count("op:type")
		case x < 93:
			ops = append(ops, val.L(val.N(3), tv, val.Z(retryValues[r.Intn(len(retryValues))])))
			c.Count("op:retry")
		case x < 95:
			ops = append(ops, val.L(val.N(8), tv, val.S(rng.Pick(r, []string{"fresh", "x", "message", "id: 7", " lead"}))))
			c.Count("op:unmarshal-into")
		case x < 96:
			s := genPayload(r)
			if !withNul {
				s = string(bytes.ReplaceAll([]byte(s), []byte{0}, []byte("0")))
			}
			ops = append(ops, val.L(val.N(uint64(12+r.Intn(2))), tv, val.S(s)))
			c.Count("op:id-or-type-through-scan")
		case x < 98:
			// WriteTo on a writer that fails at call k, accepting j bytes of it (or takes everything and then fails)
			ncalls := r.Intn(12)
			script := make([]val.V, ncalls+1)
			for i := 0; i < ncalls; i++ {
				script[i] = val.L()
			}
			script[ncalls] = val.L(val.Int(r.Intn(40)), val.N(uint64(1+r.Intn(9))))
			ops = append(ops, val.L(val.N(11), tv, val.List(script)))
			c.Count("op:failed-write")
		default:
			text := genPayload(r)
			if !withNul {
				text = string(bytes.ReplaceAll([]byte(text), []byte{0}, []byte("0")))
			}
			ops = append(ops, jsonOp(uint64(9+r.Intn(2)), tv, text, r.Intn(3)))
			c.Count("op:id-or-type-through-json")
		}
	}
	return ops
}

// jsonOp sets the ID / type through UnmarshalJSON: how = 0 a proper JSON encoding of the text, 1 the text between
// quotes as it is (raw control characters included), 2 the text itself as the document.
func jsonOp(kind uint64, tv val.V, text string, how int) val.V {
	var doc []byte
	switch how {
	case 0:
		doc, _ = json.Marshal(text)
	case 1:
		doc = []byte("\"" + text + "\"")
	default:
		doc = []byte(text)
	}
	var s string
	err := json.Unmarshal(doc, &s)
	return val.L(val.N(kind), tv, val.B(doc), val.Opt(val.S(s), err == nil))
}

func dataOp(t int, s string) val.V { return val.L(val.N(0), val.Int(t), val.N(0), val.L(val.S(s))) }

func genEncode(c *Ctx) {
	// the known finding D9, so that every run re-confirms it: an ID containing NUL
	c.Emit(val.L(val.L(val.N(1), val.N(0), val.S("p")), dataOp(0, "x"), val.L(val.N(5), val.N(0)),
		val.L(val.N(1), val.N(1), val.S("a\x00b")), dataOp(1, "y")))
	// exhaustive: every payload piece alone as data, comment, id and type of the middle one of three messages
	for _, p := range payloadPieces {
		for kind := 0; kind < 4; kind++ {
			if kind == 2 && bytes.IndexByte([]byte(p), 0) >= 0 {
				continue // NUL in an ID: D9, covered by the dedicated case above and by the random stream below
			}
			var op val.V
			switch kind {
			case 0:
				op = dataOp(1, p)
			case 1:
				op = val.L(val.N(0), val.N(1), val.N(1), val.L(val.S(p)))
			case 2:
				op = val.L(val.N(1), val.N(1), val.S(p))
			default:
				op = val.L(val.N(2), val.N(1), val.S(p))
			}
			pre := []val.V{val.L(val.N(1), val.N(0), val.S("first")), dataOp(0, "one"), val.L(val.N(5), val.N(0)), val.L(val.N(5), val.N(0)), dataOp(2, "three")}
			c.Count("exhaustive-single-piece")
			c.Emit(val.List(append(append([]val.V{}, pre...), op, dataOp(1, "two"))))
			c.Emit(val.List(append(append([]val.V{}, pre...), dataOp(1, "two"), op)))
			c.Emit(val.List(append(append([]val.V{}, pre...), op)))
		}
	}
	// exhaustive: every payload piece as ID and type through UnmarshalJSON, in the three document forms
	for _, p := range payloadPieces {
		for kind := uint64(9); kind <= 10; kind++ {
			for how := 0; how < 3; how++ {
				if kind == 9 && bytes.IndexByte([]byte(p), 0) >= 0 {
					continue
				}
				pre := []val.V{val.L(val.N(1), val.N(0), val.S("first")), dataOp(0, "one"), val.L(val.N(5), val.N(0)), val.L(val.N(5), val.N(0)), dataOp(2, "three")}
				c.Count("exhaustive-json-route")
				c.Emit(val.List(append(append([]val.V{}, pre...), jsonOp(kind, val.N(1), p, how), dataOp(1, "two"))))
			}
		}
	}
	// exhaustive: one data / comment line of every length 0..300 and around larger powers of two, between two other messages
	lens := []int{}
	for l := 0; l <= 300; l++ {
		lens = append(lens, l)
	}
	for _, b := range boundaryLens {
		if b > 300 {
			lens = append(lens, b)
		}
	}
	for _, l := range lens {
		for isc := 0; isc < 2; isc++ {
			pre := []val.V{val.L(val.N(1), val.N(0), val.S("first")), dataOp(0, "one"), val.L(val.N(5), val.N(0)), val.L(val.N(5), val.N(0)), dataOp(2, "three")}
			op := val.L(val.N(0), val.N(1), val.Int(isc), val.L(val.S(longLine(l, l))))
			c.Count("exhaustive-line-lengths")
			c.Emit(val.List(append(append([]val.V{}, pre...), op, dataOp(1, "two"))))
			c.Emit(val.List(append(append([]val.V{}, pre...), dataOp(1, "two"), op)))
		}
	}
	// exhaustive: a template with k lines is cloned, then a wire text is decoded into the original / the clone
	for k := 1; k <= 6; k++ {
		for target := 0; target < 2; target++ {
			ops := []val.V{}
			for i := 0; i < k; i++ {
				ops = append(ops, dataOp(0, string(rune('a'+i))))
			}
			ops = append(ops, val.L(val.N(4), val.N(0)), val.L(val.N(8), val.Int(target), val.S("decoded")), dataOp(target, "more"))
			c.Count("exhaustive-unmarshal-into-cloned")
			c.Emit(val.List(ops))
		}
	}
	// exhaustive: a template with k lines is cloned twice; appends to the clones and the original in every order
	for k := 0; k <= 9; k++ {
		for order := 0; order < 6; order++ {
			ops := []val.V{}
			for i := 0; i < k; i++ {
				ops = append(ops, dataOp(0, string(rune('a'+i))))
			}
			ops = append(ops, val.L(val.N(4), val.N(0)), val.L(val.N(4), val.N(0)))
			perm := [][3]int{{0, 1, 2}, {0, 2, 1}, {1, 0, 2}, {1, 2, 0}, {2, 0, 1}, {2, 1, 0}}[order]
			for _, t := range perm {
				ops = append(ops, dataOp(t, "for-"+string(rune('0'+t))))
			}
			c.Count("exhaustive-clone-then-append")
			c.Emit(val.List(ops))
		}
	}
	// directed: a message with every kind of line is written to a writer that fails after j bytes (every j up to its
	// length), then an ordinary message is built and everything is encoded
	for j := 0; j <= 60; j++ {
		for _, calls := range []int{0, 2} {
			script := []val.V{}
			for i := 0; i < calls; i++ {
				script = append(script, val.L())
			}
			script = append(script, val.L(val.Int(j), val.N(3)))
			ops := []val.V{
				val.L(val.N(1), val.N(0), val.S("7")), val.L(val.N(2), val.N(0), val.S("t")), val.L(val.N(3), val.N(0), val.Z(1_500_000_000)),
				val.L(val.N(0), val.N(0), val.N(1), val.L(val.S("a comment"))), dataOp(0, "secret of another subscriber\nsecond secret line"),
				val.L(val.N(11), val.N(0), val.List(script)),
				val.L(val.N(5), val.N(0)), dataOp(1, "hello\nworld"),
			}
			c.Count("directed:failed-write-then-next-message")
			c.Emit(val.List(ops))
		}
	}
	n := 5000
	if c.Thorough {
		n = 150000
	}
	for i := 0; i < n; i++ {
		k := 1 + c.R.Intn(5)
		withNul := c.R.Intn(40) == 0 // a thin separate stream that exercises the known finding
		if withNul {
			c.Count("stream:ids-may-contain-NUL")
		} else {
			c.Count("stream:ids-without-NUL")
		}
		ops := []val.V{}
		size := 1
		for j := 0; j < k; j++ {
			if j > 0 {
				if c.R.Intn(3) == 0 {
					ops = append(ops, val.L(val.N(4), val.Int(c.R.Intn(size))))
					c.Count("op:clone")
				} else {
					ops = append(ops, val.L(val.N(5), val.N(0)))
				}
				size++
			}
			ops = genEncodeOps(c, ops, c.R.Intn(size), withNul)
		}
		c.Emit(val.List(ops))
	}
}
