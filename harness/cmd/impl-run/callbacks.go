package main

import (
	"context"
	"errors"
	"fmt"
	"io"
	"net/http"
	"os"
	"os/exec"
	"path/filepath"
	"runtime"
	"sort"
	"strconv"
	"strings"
	"sync"
	"sync/atomic"
	"time"

	sse "github.com/tmaxmax/go-sse"

	"verifharness/rng"
	"verifharness/val"
)

// Family "callbacks" (C13): subscription histories against a REAL sse.Connection.
//
// Kind 0 - sequential history.  The connection is connected through a scripted
// http.RoundTripper whose body is an SSE stream fed one event at a time: the body's Read
// blocks until the harness releases the next event, and the harness learns that the dispatch
// of an event has completed when the parser comes back for the next Read (the read loop is
// sequential).  Subscription operations are applied between releases, from the harness
// goroutine - i.e. from another goroutine than the one running Connect, while connected -
// and the first <start> operations before Connect.  No sleeps, no timing.
//   input  : (n0 n<start> (op ...) n<context kind>),
//            op = (n0 x<type> n<label>) | (n1 n<label>) | (n2 n<k>) | (n3 x<type> n<more>) | (n4 n<how>)
//   output : ((opres ...) (seen ...)), see coq/theories/RunCallbacks.v
//
// Events may arrive together: an event op whose <more> is set is held back and released in one chunk with
// the event op that follows it (and so on), so that the parser finds several complete events in what one
// Read returned; the harness gets control back when the parser asks for more, and attributes the
// invocations to the events of the chunk by the position each event carries as its data.
//
// (n4 n<how>): the REQUEST'S CONTEXT is ended (cancelled, cancelled with a cause, its deadline expires - by the
// context kind, see connContext) - how = 0 by the harness goroutine, now, i.e. between two events while the read
// loop waits for input; how = 1 from inside a callback: by the first callback invoked after this point, during
// the dispatch of that event (the usual way to end a connection on a "done" event).  A cancellation scripted
// before Connect is made from inside the first callback invoked as well (a context that is done when Connect
// is called lets the first select take either branch: whether anything is requested at all is not a function of
// the input, and it is C11's matter).  The scripted body does not watch the context: like a strings.Reader, a
// pipe, a file or whatever a custom RoundTripper hands out, it keeps delivering what the harness releases; so
// events keep being parsed and dispatched after the cancellation, and every one of them must reach every
// callback that is subscribed at that moment - being subscribed ends with the remover, not with the context.
// What Connect finally returns is not observed here (C11).
//
// Kind 1 - concurrent scenarios; only violation counters are observed (all must be 0):
//   input  : (n1 n0 n<kindA> n<kindB>)            the callback invoked first removes the other from
//                                                 another goroutine and waits for that remover to
//                                                 return (it cannot: dispatch holds the read lock)
//            (n1 n1 n<seed> n<workers> n<events>) subscribe/unsubscribe storm from other goroutines
//                                                 during a stream, with permanent witnesses
//   output : (afterRemove order dup missed wrongType leak)

//
// Kind 3 - operations that MEET: in every round <pre> subscriptions to one type are made one after
// the other, then <k> goroutines subscribing to that same type and <rm> goroutines calling the
// removers of the first <rm> earlier subscriptions are released together from a barrier; when all
// those calls have RETURNED, an event of another type (a decoy), then an event of the type are
// released; then every remover is called (again) and the event is released once more.  Nothing
// here depends on timing: which subscriptions are in force when an event is released is a
// function of the input, only the interleaving of the calls that met is not.
//   input  : (n3 (round ...)), round = (x<type> n<pre> n<k> n<rm>)
//   output : (round-result ...), round-result =
//            ((n<typed> n<all> n<types>) (n<count> ...) (n<count> ...) (n<typed> n<all> n<types>) (n<count> ...) n<witness>)
//            registry sizes after the meeting, per subscription of the round (the <pre> earlier ones
//            first) how often it was invoked for the event / for the decoy, registry sizes after the
//            removers, invocations for the event released after them, and how many of the round's
//            three events a permanent subscribe-to-all witness saw

func init() { families["callbacks"] = family{gen: genCallbacks, exec: execCallbacks} }

// ---- the scripted transport ---------------------------------------------------

type stepBody struct {
	feed   chan []byte   // next chunk of the stream; closed = end of stream
	called chan struct{} // one token per Read call that finds nothing left over, sent when Read is entered
	quit   chan struct{} // closed when the harness is done: further Reads see the end of the stream
	rest   []byte        // what the caller's buffer had no room for
}

func (b *stepBody) Read(p []byte) (int, error) {
	if len(b.rest) > 0 {
		n := copy(p, b.rest)
		b.rest = b.rest[n:]
		return n, nil
	}
	select {
	case b.called <- struct{}{}:
	case <-b.quit:
		return 0, io.EOF
	}
	data, ok := <-b.feed
	if !ok {
		return 0, io.EOF
	}
	n := copy(p, data)
	b.rest = data[n:]
	return n, nil
}

func (b *stepBody) Close() error { return nil }

type stepTransport struct{ body *stepBody }

func (t stepTransport) RoundTrip(r *http.Request) (*http.Response, error) {
	return &http.Response{
		StatusCode: 200, Status: "200 OK", Proto: "HTTP/1.1", ProtoMajor: 1, ProtoMinor: 1,
		Header:  http.Header{"Content-Type": []string{"text/event-stream"}},
		Body:    t.body,
		Request: r,
	}, nil
}

type cbConn struct {
	conn *sse.Connection
	body *stepBody
	done chan error
	up   bool
	// broken: Connect returned although the stream has not ended
	broken   bool
	finished bool
}

func newCbConn() *cbConn { return newCbConnCtx(context.Background()) }

func newCbConnCtx(ctx context.Context) *cbConn {
	body := &stepBody{feed: make(chan []byte), called: make(chan struct{}), quit: make(chan struct{})}
	client := sse.Client{
		HTTPClient:        &http.Client{Transport: stepTransport{body}},
		ResponseValidator: sse.NoopValidator,
		Backoff:           sse.Backoff{MaxRetries: -1},
	}
	req, _ := http.NewRequestWithContext(ctx, http.MethodGet, "http://verif.invalid/events", http.NoBody)
	return &cbConn{conn: client.NewConnection(req), body: body, done: make(chan error, 1)}
}

// connect starts Connect and returns once the read loop waits for the first chunk.
func (c *cbConn) connect() {
	go func() { c.done <- c.conn.Connect() }()
	c.up = true
	c.wait()
}

// wait returns when the read loop asks for the next chunk (or Connect has returned: broken).
func (c *cbConn) wait() {
	if c.broken {
		return
	}
	select {
	case <-c.body.called:
	case <-c.done:
		c.broken = true
	}
}

func cbEventBytes(typ string, data string) string {
	s := ""
	if typ != "" {
		s = "event: " + typ + "\n"
	}
	return s + "data: " + data + "\n\n"
}

// deliver releases one event and returns when its dispatch has completed.
func (c *cbConn) deliver(typ string, data string) { c.deliverBytes(cbEventBytes(typ, data)) }

// deliverBytes releases complete events in one chunk and returns when the parser asks for more.
func (c *cbConn) deliverBytes(s string) {
	if c.broken {
		return
	}
	select {
	case c.body.feed <- []byte(s):
		c.wait()
	case <-c.done:
		c.broken = true
	}
}

func (c *cbConn) finish() {
	if !c.up || c.finished {
		return
	}
	c.finished = true
	close(c.body.feed)
	close(c.body.quit)
	if !c.broken {
		<-c.done
	}
}

// ---- kind 0 -----------------------------------------------------------------------

type cbInv struct {
	pos, sub int
	label    uint64
}

func execCallbacksSeq(in val.V) val.V {
	start := in.At(1).Int()
	ops := in.At(2).Items()
	ctx, endCtx, release := connContext(in.At(3).Num()%connCtxKinds, false)
	defer release()
	c := newCbConnCtx(ctx)
	defer c.finish()
	var mu sync.Mutex
	var log []cbInv
	bad := ""
	sent := map[int]string{} // position -> type of the event released with that position as its data
	armed := false           // the next callback invoked ends the request's context
	var removers []sse.EventCallbackRemover
	mk := func(k int, label uint64) sse.EventCallback {
		return func(e sse.Event) {
			pos, err := strconv.Atoi(e.Data)
			mu.Lock()
			defer mu.Unlock()
			if armed {
				armed = false
				endCtx() // from inside a callback, during a dispatch
			}
			typ, ok := sent[pos]
			if err != nil || !ok || e.Type != typ {
				bad = "callback got an event that was not sent"
				return
			}
			log = append(log, cbInv{pos, k, label})
		}
	}
	outs := make([]val.V, len(ops))
	accounted := 0 // how much of the log has been attributed to events
	result := func(pos int, part []cbInv) {
		sort.SliceStable(part, func(i, j int) bool { return part[i].sub < part[j].sub })
		inv := make([]val.V, len(part))
		for i, x := range part {
			inv[i] = val.L(val.Int(x.sub), val.N(x.label))
		}
		typed, all, types := c.conn.VerifCallbackCount()
		outs[pos] = val.L(val.L(val.Int(typed), val.Int(all), val.Int(types)), val.List(inv))
	}
	// the events held back for the next chunk
	var held []int
	var chunk strings.Builder
	flush := func() {
		if len(held) == 0 {
			return
		}
		c.deliverBytes(chunk.String())
		chunk.Reset()
		mu.Lock()
		part := append([]cbInv(nil), log[accounted:]...)
		accounted = len(log)
		mu.Unlock()
		// stream order: the invocations for the first event of the chunk, then those for the second ...
		at := 0
		for _, p := range held {
			from := at
			for at < len(part) && part[at].pos == p {
				at++
			}
			result(p, part[from:at])
		}
		if at != len(part) {
			mu.Lock()
			bad = "invocation for an event other than the one being dispatched"
			mu.Unlock()
		}
		held = held[:0]
	}
	for pos, op := range ops {
		kind := op.At(0).Num()
		if kind < 3 || kind == 4 {
			flush()
		}
		if pos == start {
			c.connect()
		}
		switch kind {
		case 0:
			if op.At(1).Str() == "" && op.At(2).Num()%2 == 0 {
				// the unnamed type through its own entry point
				removers = append(removers, c.conn.SubscribeMessages(mk(len(removers), op.At(2).Num())))
			} else {
				removers = append(removers, c.conn.SubscribeEvent(op.At(1).Str(), mk(len(removers), op.At(2).Num())))
			}
		case 1:
			removers = append(removers, c.conn.SubscribeToAll(mk(len(removers), op.At(1).Num())))
		case 2:
			if k := op.At(1).Int(); k < len(removers) {
				removers[k]()
			}
		case 4:
			if op.At(1).Num() == 0 && c.up {
				endCtx() // from this goroutine, while the read loop waits for input
			} else {
				mu.Lock()
				armed = true
				mu.Unlock()
			}
		default:
			if !c.up {
				return val.S("event before Connect")
			}
			typ := op.At(1).Str()
			mu.Lock()
			sent[pos] = typ
			mu.Unlock()
			chunk.WriteString(cbEventBytes(typ, strconv.Itoa(pos)))
			held = append(held, pos)
			if !op.At(2).Truth() {
				flush()
			}
			continue
		}
		mu.Lock()
		if len(log) != accounted {
			bad = "invocation for an event other than the one being dispatched"
			accounted = len(log)
		}
		mu.Unlock()
		result(pos, nil)
	}
	flush()
	if c.broken {
		return val.S("Connect returned before the stream ended")
	}
	mu.Lock()
	defer mu.Unlock()
	if bad != "" {
		return val.S(bad)
	}
	seen := make([]val.V, len(removers))
	for k := range removers {
		var l []val.V
		for _, x := range log {
			if x.sub == k {
				l = append(l, val.Int(x.pos))
			}
		}
		seen[k] = val.List(l)
	}
	return val.L(val.List(outs), val.List(seen))
}

// ---- kind 1 ---------------------------------------------------------------------

const cbBlockWait = 15 * time.Millisecond

// subscribe by kind: 0 = SubscribeEvent("x"), 1 = SubscribeToAll, 2 = SubscribeMessages
func cbSubscribe(conn *sse.Connection, kind uint64, cb sse.EventCallback) sse.EventCallbackRemover {
	switch kind {
	case 0:
		return conn.SubscribeEvent("x", cb)
	case 1:
		return conn.SubscribeToAll(cb)
	default:
		return conn.SubscribeMessages(cb)
	}
}

func cbKindMatches(kind uint64, typ string) bool {
	switch kind {
	case 0:
		return typ == "x"
	case 1:
		return true
	default:
		return typ == ""
	}
}

// The callback that is invoked first for the first event has the other one removed by another
// goroutine and waits until that remover has returned, or a while.  In the code as it is the
// remover needs the write lock and therefore returns only after the dispatch: the other
// callback is still invoked for this event (legitimately) and for no later one.  A callback
// invoked after its remover has returned is a violation.
func execCallbacksBlock(in val.V) val.V {
	kinds := [2]uint64{in.At(2).Num(), in.At(3).Num()}
	c := newCbConn()
	var removed [2]atomic.Bool
	var removers [2]sse.EventCallbackRemover
	var first atomic.Int32
	first.Store(-1)
	var afterRemove, dup atomic.Int64
	var count [2]atomic.Int64
	var wg sync.WaitGroup
	mk := func(me int) sse.EventCallback {
		other := 1 - me
		return func(e sse.Event) {
			if removed[me].Load() {
				afterRemove.Add(1)
			}
			count[me].Add(1)
			if e.Data == "0" && first.CompareAndSwap(-1, int32(me)) {
				ret := make(chan struct{})
				wg.Add(1)
				go func() {
					defer wg.Done()
					removers[other]()
					removed[other].Store(true)
					close(ret)
				}()
				select {
				case <-ret:
				case <-time.After(cbBlockWait):
				}
			}
		}
	}
	removers[0] = cbSubscribe(c.conn, kinds[0], mk(0))
	removers[1] = cbSubscribe(c.conn, kinds[1], mk(1))
	c.connect()
	c.deliver("x", "0")
	wg.Wait()
	c.deliver("x", "1")
	c.deliver("x", "2")
	c.finish()
	if c.broken {
		return val.S("Connect returned before the stream ended")
	}
	f := int(first.Load())
	missed := 0
	if f < 0 {
		missed = 1
	} else {
		// the first one stays subscribed: 3 events; the other: at most the first event
		if count[f].Load() != 3 {
			missed++
		}
		if count[1-f].Load() > 1 {
			dup.Add(1)
		}
	}
	typed, all, _ := c.conn.VerifCallbackCount()
	leak := 0
	if typed+all != 1 {
		leak = 1
	}
	return val.L(val.N(uint64(afterRemove.Load())), val.N(0), val.N(uint64(dup.Load())), val.Int(missed), val.N(0), val.Int(leak))
}

type stormSub struct {
	kind    uint64
	state   atomic.Int32 // 0 subscribing, 1 subscribed, 2 remover running, 3 remover returned
	lastPos atomic.Int64
}

// Subscribe/unsubscribe storm from worker goroutines while a stream is dispatched; permanent
// witnesses (subscribed before Connect, never removed) must see every matching event once, in order.
func execCallbacksStorm(in val.V) val.V {
	r := rng.New(in.At(2).Num())
	workers := in.At(3).Int()
	events := in.At(4).Int()
	c := newCbConn()
	var afterRemove, order, dup, wrongType atomic.Int64
	curType := atomic.Value{}
	curType.Store("")
	mk := func(s *stormSub) sse.EventCallback {
		s.lastPos.Store(-1)
		return func(e sse.Event) {
			if s.state.Load() == 3 {
				afterRemove.Add(1)
			}
			if !cbKindMatches(s.kind, e.Type) {
				wrongType.Add(1)
			}
			pos, _ := strconv.Atoi(e.Data)
			last := s.lastPos.Swap(int64(pos))
			if int64(pos) == last {
				dup.Add(1)
			} else if int64(pos) < last {
				order.Add(1)
			}
		}
	}
	// witnesses
	type witness struct {
		kind uint64
		seen []int
	}
	wit := make([]*witness, 3)
	for i := range wit {
		w := &witness{kind: uint64(i)}
		wit[i] = w
		cbSubscribe(c.conn, w.kind, func(e sse.Event) {
			pos, _ := strconv.Atoi(e.Data)
			w.seen = append(w.seen, pos) // only ever called by the Connect goroutine
			if !cbKindMatches(w.kind, e.Type) {
				wrongType.Add(1)
			}
		})
	}
	c.connect()
	stop := make(chan struct{})
	var wg sync.WaitGroup
	for w := 0; w < workers; w++ {
		wr := r.Fork()
		wg.Add(1)
		go func() {
			defer wg.Done()
			var mine []*stormSub
			var rem []sse.EventCallbackRemover
			for {
				select {
				case <-stop:
					for i, s := range mine {
						s.state.Store(2)
						rem[i]()
						s.state.Store(3)
					}
					return
				default:
				}
				if len(mine) < 3 && wr.Intn(2) == 0 {
					s := &stormSub{kind: uint64(wr.Intn(3))}
					rm := cbSubscribe(c.conn, s.kind, mk(s))
					s.state.Store(1)
					mine = append(mine, s)
					rem = append(rem, rm)
				} else if len(mine) > 0 {
					i := wr.Intn(len(mine))
					mine[i].state.Store(2)
					rem[i]()
					mine[i].state.Store(3)
					if wr.Intn(3) == 0 {
						rem[i]() // repeated remover
					}
					mine = append(mine[:i], mine[i+1:]...)
					rem = append(rem[:i], rem[i+1:]...)
				}
				if wr.Intn(4) == 0 {
					time.Sleep(time.Duration(wr.Intn(20)) * time.Microsecond)
				}
			}
		}()
	}
	types := []string{"x", "", "y"}
	sent := make([]string, events)
	for p := 0; p < events; p++ {
		sent[p] = types[r.Intn(len(types))]
		c.deliver(sent[p], strconv.Itoa(p))
	}
	close(stop)
	wg.Wait()
	c.finish()
	if c.broken {
		return val.S("Connect returned before the stream ended")
	}
	missed := 0
	for _, w := range wit {
		var want []int
		for p, t := range sent {
			if cbKindMatches(w.kind, t) {
				want = append(want, p)
			}
		}
		if len(want) != len(w.seen) {
			missed++
			continue
		}
		for i := range want {
			if want[i] != w.seen[i] {
				missed++
				break
			}
		}
	}
	typed, all, _ := c.conn.VerifCallbackCount()
	leak := 0
	if typed != 2 || all != 1 {
		leak = 1
	}
	return val.L(val.N(uint64(afterRemove.Load())), val.N(uint64(order.Load())), val.N(uint64(dup.Load())), val.Int(missed), val.N(uint64(wrongType.Load())), val.Int(leak))
}

// ---- kind 3 ---------------------------------------------------------------------

// an event type no subscription of a round on <typ> is for
func cbDecoy(typ string) string {
	if typ == "" {
		return "message"
	}
	return ""
}

func execCallbacksMeet(in val.V) val.V {
	rounds := in.At(1).Items()
	c := newCbConn()
	defer c.finish()
	var witness atomic.Int64
	c.conn.SubscribeToAll(func(sse.Event) { witness.Add(1) })
	c.connect()
	var badMu sync.Mutex
	bad := ""
	outs := make([]val.V, 0, len(rounds))
	for ri, rd := range rounds {
		typ := rd.At(0).Str()
		pre, k, rm := rd.At(1).Int(), rd.At(2).Int(), rd.At(3).Int()
		if rm > pre {
			rm = pre
		}
		n := pre + k
		// the three events of the round: the decoy, the event, the event again after the removers
		sent := [3]string{cbDecoy(typ), typ, typ}
		data := func(ph int) string { return fmt.Sprintf("%d.%d", ri, ph) }
		var phase atomic.Int32
		cnt := make([]atomic.Int64, 3*n)
		mk := func(i int) sse.EventCallback {
			return func(e sse.Event) {
				ph := int(phase.Load())
				if e.Data != data(ph) || e.Type != sent[ph] {
					badMu.Lock()
					bad = "callback got an event that was not sent"
					badMu.Unlock()
					return
				}
				cnt[ph*n+i].Add(1)
			}
		}
		subscribe := func(i int) sse.EventCallbackRemover {
			if typ == "" && i%2 == 0 {
				return c.conn.SubscribeMessages(mk(i)) // the unnamed type through its own entry point
			}
			return c.conn.SubscribeEvent(typ, mk(i))
		}
		removers := make([]sse.EventCallbackRemover, n)
		for i := 0; i < pre; i++ {
			removers[i] = subscribe(i)
		}
		// the meeting: everybody is released by one store and runs its call to the end
		var ready, done sync.WaitGroup
		var start atomic.Bool
		meet := func(f func()) {
			ready.Add(1)
			done.Add(1)
			go func() {
				defer done.Done()
				ready.Done()
				for spin := 1; !start.Load(); spin++ {
					if spin%4096 == 0 {
						runtime.Gosched() // fewer processors than goroutines: let the others arrive
					}
				}
				f()
			}()
		}
		for i := 0; i < rm; i++ {
			i := i
			meet(func() { removers[i]() })
		}
		for i := pre; i < n; i++ {
			i := i
			meet(func() { removers[i] = subscribe(i) })
		}
		ready.Wait()
		start.Store(true)
		done.Wait()
		// every Subscribe* call and every remover call of the round has returned
		typed, all, types := c.conn.VerifCallbackCount()
		w0 := witness.Load()
		for ph := 0; ph < 2; ph++ {
			phase.Store(int32(ph))
			c.deliver(sent[ph], data(ph))
		}
		for _, rmv := range removers {
			if rmv != nil {
				rmv()
			}
		}
		typed2, all2, types2 := c.conn.VerifCallbackCount()
		phase.Store(2)
		c.deliver(sent[2], data(2))
		col := func(ph int) val.V {
			l := make([]val.V, n)
			for i := range l {
				l[i] = val.N(uint64(cnt[ph*n+i].Load()))
			}
			return val.List(l)
		}
		outs = append(outs, val.L(
			val.L(val.Int(typed), val.Int(all), val.Int(types)), col(1), col(0),
			val.L(val.Int(typed2), val.Int(all2), val.Int(types2)), col(2),
			val.N(uint64(witness.Load()-w0))))
	}
	if c.broken {
		return val.S("Connect returned before the stream ended")
	}
	badMu.Lock()
	defer badMu.Unlock()
	if bad != "" {
		return val.S(bad)
	}
	return val.List(outs)
}

// runInChild runs one case in a child process of this same binary, so that a crash of the Go
// runtime (e.g. "fatal error: concurrent map writes", which cannot be recovered) becomes an
// observation of that case instead of the end of the whole run.
func runInChild(in val.V) val.V {
	exe, err := os.Executable()
	if err != nil {
		return execCallbacksConcurrent(in)
	}
	dir := filepath.Join(raceRoot(), ".work")
	_ = os.MkdirAll(dir, 0o755)
	inFile := filepath.Join(dir, fmt.Sprintf("cb-child-in.%d.txt", os.Getpid()))
	outFile := filepath.Join(dir, fmt.Sprintf("cb-child-out.%d.txt", os.Getpid()))
	if os.WriteFile(inFile, []byte(val.String(in)+"\n"), 0o644) != nil {
		return execCallbacksConcurrent(in)
	}
	defer os.Remove(inFile)
	defer os.Remove(outFile)
	ctx, cancel := context.WithTimeout(context.Background(), 2*time.Minute)
	defer cancel()
	cmd := exec.CommandContext(ctx, exe, "-replay", inFile, "-out", outFile, "callbacks")
	cmd.Env = append(os.Environ(), "VERIF_CB_CHILD=1")
	b, err := cmd.CombinedOutput()
	if err != nil {
		msg := string(b)
		if i := strings.Index(msg, "fatal error:"); i >= 0 {
			msg = msg[i:]
		}
		if i := strings.IndexByte(msg, '\n'); i >= 0 {
			msg = msg[:i]
		}
		return val.S("crashed: " + msg)
	}
	ob, err := os.ReadFile(outFile)
	if err != nil {
		return val.S("crashed: no output")
	}
	line := strings.TrimRight(string(ob), "\n")
	if i := strings.IndexByte(line, '\t'); i >= 0 {
		if v, err := val.Parse(line[i+1:]); err == nil {
			return v
		}
	}
	return val.S("crashed: unreadable output")
}

func execCallbacks(in val.V) val.V {
	if in.At(0).Num() == 0 {
		return execCallbacksSeq(in)
	}
	if in.At(0).Num() == 2 {
		return execCallbacksRace(in)
	}
	if os.Getenv("VERIF_CB_CHILD") != "1" && os.Getenv("VERIF_RACE_CHILD") != "1" {
		return runInChild(in)
	}
	return execCallbacksConcurrent(in)
}

func execCallbacksConcurrent(in val.V) val.V {
	if in.At(0).Num() == 3 {
		return execCallbacksMeet(in)
	}
	if in.At(1).Num() == 0 {
		return execCallbacksBlock(in)
	}
	return execCallbacksStorm(in)
}

// ---- kind 2: the same scenarios under the race detector ---------------------------
//
//   input  : (n2 n<seed>)
//   output : (n0) no data race reported | (n1) the race detector reported a data race
//            | (n2) the race-enabled run failed otherwise
// A race-enabled copy of this harness is built (go build -race, same tags and module file as the
// binary bin/check built) and run as a child process on concurrent scenarios and on histories
// whose operations happen from another goroutine while connected.  When the race detector is
// not available here (no cgo toolchain) the generator does not emit this case and says so in
// the input distribution.

func raceRoot() string {
	exe, err := os.Executable()
	if err != nil {
		return "."
	}
	return filepath.Dir(filepath.Dir(exe))
}

func raceEnv() []string {
	env := os.Environ()
	has := func(k string) bool { return os.Getenv(k) != "" }
	for _, kv := range [][2]string{{"GOFLAGS", "-mod=mod"}, {"GOPROXY", "off"}, {"GOSUMDB", "off"}, {"GOTOOLCHAIN", "local"}} {
		if !has(kv[0]) {
			env = append(env, kv[0]+"="+kv[1])
		}
	}
	if !has("GOCACHE") {
		env = append(env, "GOCACHE="+filepath.Join(raceRoot(), ".work", "gocache"))
	}
	return env
}

var raceBuilt bool

// buildRaceHarness builds .work/impl-run-race (once per process); the error text is empty on success.
func buildRaceHarness() (string, string) {
	root := raceRoot()
	out := filepath.Join(root, ".work", "impl-run-race")
	if raceBuilt {
		return out, ""
	}
	args := []string{"build", "-race"}
	if repo := os.Getenv("VERIF_REPO"); repo != "" {
		if rp, err := filepath.EvalSymlinks(repo); err == nil && rp != "/repo" {
			args = append(args, "-modfile="+filepath.Join(root, ".work", "alt.mod"))
		}
	}
	args = append(args, "-tags", "verif", "-o", out, "./cmd/impl-run")
	ctx, cancel := context.WithTimeout(context.Background(), 10*time.Minute)
	defer cancel()
	cmd := exec.CommandContext(ctx, "go", args...)
	cmd.Dir = filepath.Join(root, "harness")
	cmd.Env = raceEnv()
	b, err := cmd.CombinedOutput()
	if err != nil {
		return out, err.Error() + ": " + string(b)
	}
	raceBuilt = true
	return out, ""
}

func raceInputs(r *rng.R) []val.V {
	var ins []val.V
	for a := uint64(0); a < 2; a++ {
		for b := uint64(0); b < 2; b++ {
			ins = append(ins, val.L(val.N(1), val.N(0), val.N(a), val.N(b)))
		}
	}
	for i := 0; i < 40; i++ {
		ins = append(ins, val.L(val.N(1), val.N(1), val.N(r.U64()>>1), val.Int(1+r.Intn(4)), val.Int(20+r.Intn(150))))
	}
	for i := 0; i < 6; i++ {
		ins = append(ins, val.L(val.N(3), val.List(genMeetRounds(r, 20, func(string) {}))))
	}
	types := []string{"", "x", "X"}
	for i := 0; i < 300; i++ {
		l := 2 + r.Intn(25)
		ops := make([]val.V, 0, l)
		nsub := 0
		for j := 0; j < l; j++ {
			switch x := r.Intn(10); {
			case x < 3:
				ops = append(ops, val.L(val.N(0), val.S(types[r.Intn(3)]), val.Int(r.Intn(3))))
				nsub++
			case x < 4:
				ops = append(ops, val.L(val.N(1), val.Int(r.Intn(3))))
				nsub++
			case x < 6 && nsub > 0:
				ops = append(ops, val.L(val.N(2), val.Int(r.Intn(nsub))))
			default:
				ops = append(ops, val.L(val.N(3), val.S(types[r.Intn(3)])))
			}
		}
		ins = append(ins, val.L(val.N(0), val.N(0), val.List(ops))) // connected from the start: every op is concurrent with the read loop
	}
	return ins
}

func execCallbacksRace(in val.V) val.V {
	if os.Getenv("VERIF_RACE_CHILD") == "1" {
		return val.L(val.N(0))
	}
	bin, berr := buildRaceHarness()
	if berr != "" {
		fmt.Fprintln(os.Stderr, "race-enabled harness could not be built:", berr)
		return val.L(val.N(2))
	}
	root := raceRoot()
	inFile := filepath.Join(root, ".work", fmt.Sprintf("race-in.%d.txt", os.Getpid()))
	var sb strings.Builder
	for _, v := range raceInputs(rng.New(in.At(1).Num())) {
		sb.WriteString(val.String(v))
		sb.WriteByte('\n')
	}
	if err := os.WriteFile(inFile, []byte(sb.String()), 0o644); err != nil {
		return val.L(val.N(2))
	}
	defer os.Remove(inFile)
	ctx, cancel := context.WithTimeout(context.Background(), 5*time.Minute)
	defer cancel()
	cmd := exec.CommandContext(ctx, bin, "-replay", inFile, "-out", os.DevNull, "callbacks")
	cmd.Env = append(os.Environ(), "GORACE=halt_on_error=1 exitcode=66", "VERIF_RACE_CHILD=1")
	b, err := cmd.CombinedOutput()
	if err == nil {
		return val.L(val.N(0))
	}
	var ee *exec.ExitError
	if strings.Contains(string(b), "DATA RACE") || (errors.As(err, &ee) && ee.ExitCode() == 66) {
		i := strings.Index(string(b), "WARNING: DATA RACE")
		if i < 0 {
			i = 0
		}
		j := i + 1500
		if j > len(b) {
			j = len(b)
		}
		fmt.Fprintln(os.Stderr, string(b[i:j]))
		return val.L(val.N(1))
	}
	fmt.Fprintln(os.Stderr, "race-enabled run failed:", err, string(b))
	return val.L(val.N(2))
}

// ---- generators -----------------------------------------------------------------

// one event of every type of the history's pool (and of one nobody subscribes to)
func cbTail(types ...string) []val.V {
	if len(types) == 0 {
		types = []string{"", "x", "y"}
	}
	l := make([]val.V, len(types))
	for i, t := range types {
		l[i] = val.L(val.N(3), val.S(t))
	}
	return l
}

// The type pools of the random histories.  The unnamed type "" is in every pool; next to it
// ordinary names, or names that LOOK like the unnamed type: the specification's name for it
// ("message"), case and whitespace variants of that, a prefix/suffix of a pool member.
var cbTypePools = [][]string{
	{"", "x", "X", "xy"},
	{"", "message", "Message", " message"},
	{"", "message", "x", "messages"},
	{"message", "", "MESSAGE", "mess"},
	{"", "*", "x", "**"},
	{"*", "", "all", "?"},
}

// rounds of operations that meet (kind 3); count is called with the class of every round
func genMeetRounds(r *rng.R, n int, count func(string)) []val.V {
	types := []string{"", "message", "x", "Message"}
	rounds := make([]val.V, n)
	for i := range rounds {
		typ := types[r.Intn(len(types))]
		if r.Intn(3) == 0 {
			typ = fmt.Sprintf("t%d", i) // a type this connection has never seen
		}
		var pre, k, rm int
		switch r.Intn(3) {
		case 0:
			pre, k, rm = 0, 2+r.Intn(7), 0
			count("meet:first-subscriptions-to-a-type")
		case 1:
			pre = 1 + r.Intn(2)
			rm = pre
			k = 1 + r.Intn(3)
			count("meet:subscriptions-and-the-last-unsubscription-of-the-type")
		default:
			pre = r.Intn(4)
			rm = r.Intn(pre + 1)
			k = r.Intn(5)
			count("meet:any")
		}
		rounds[i] = val.L(val.S(typ), val.Int(pre), val.Int(k), val.Int(rm))
	}
	return rounds
}

// emit a history; Connect starts at a random point not after the first event
func emitCbHistory(c *Ctx, ops []val.V, key string) { emitCbHistoryCtx(c, ops, key, 0) }

// cbBatch makes events that follow one another arrive together: every event op that is directly followed by another one
// is, with probability num/den, held back and released in one chunk with its successor
func cbBatch(r *rng.R, ops []val.V, num, den int) {
	for i := 0; i+1 < len(ops); i++ {
		if ops[i].At(0).Num() == 3 && ops[i+1].At(0).Num() == 3 && r.Chance(num, den) {
			ops[i] = val.L(val.N(3), ops[i].At(1), val.N(1))
		}
	}
}

// cbInsert returns ops with op inserted before position i
func cbInsert(ops []val.V, i int, op val.V) []val.V {
	out := make([]val.V, 0, len(ops)+1)
	out = append(out, ops[:i]...)
	out = append(out, op)
	return append(out, ops[i:]...)
}

// emit a history whose request context is of kind ctxKind; Connect starts at a random point not after the first event
// and not after the first cancellation
func emitCbHistoryCtx(c *Ctx, ops []val.V, key string, ctxKind int) {
	firstEv := len(ops)
	for i, op := range ops {
		if k := op.At(0).Num(); k == 3 || k == 4 {
			firstEv = i
			break
		}
	}
	start := c.R.Intn(firstEv + 1)
	if c.R.Intn(3) == 0 {
		start = 0
	}
	c.Count(key)
	if start == 0 {
		c.Count("connect:before-any-subscription")
	} else {
		c.Count("connect:after-some-operations")
	}
	if ctxKind == 0 {
		c.Emit(val.L(val.N(0), val.Int(start), val.List(ops)))
	} else {
		c.Emit(val.L(val.N(0), val.Int(start), val.List(ops), val.Int(ctxKind)))
	}
}

// The request's context ends while events are still to come (see the head of this file): a few subscription set-ups
// (typed, unnamed, to-all, several per type, one removed before, one removed after the cancellation) x a stream of six
// events x the cancellation after every number of events x made by the harness goroutine / from inside a callback x
// the events arriving one by one / all that remain in one chunk / in pairs x every kind of context.
func cbCancelSweep(c *Ctx) {
	sub := func(t string, l int) val.V { return val.L(val.N(0), val.S(t), val.Int(l)) }
	all := func(l int) val.V { return val.L(val.N(1), val.Int(l)) }
	rm := func(k int) val.V { return val.L(val.N(2), val.Int(k)) }
	setups := [][]val.V{
		{all(0)},
		{sub("", 0), sub("x", 1), all(2)},
		{sub("", 1), sub("", 2), sub("done", 0), sub("x", 1), rm(1)},
		{sub("x", 0), sub("x", 0), all(1), all(2), sub("message", 1)},
		{sub("done", 2)},
	}
	types := []string{"", "done", "x", "", "message", "x"}
	for si, setup := range setups {
		for at := 0; at <= len(types); at++ {
			for how := 0; how < 2; how++ {
				for batch := 0; batch < 3; batch++ {
					ops := append([]val.V{}, setup...)
					for i, t := range types {
						if i == at {
							ops = append(ops, val.L(val.N(4), val.Int(how)))
						}
						more := 0
						if i+1 < len(types) && (batch == 1 || batch == 2 && i%2 == 0) {
							more = 1
						}
						ops = append(ops, val.L(val.N(3), val.S(t), val.Int(more)))
						if i == 3 && si%2 == 0 {
							ops = append(ops, rm(0)) // unsubscribing, not cancelling, is what stops a callback
						}
					}
					if at == len(types) {
						ops = append(ops, val.L(val.N(4), val.Int(how)))
					}
					ops = append(ops, cbTail("", "done", "x")...)
					c.Count("cancel-sweep")
					c.Count(fmt.Sprintf("cancel:how-%d", how))
					ctxKind := (si + at + how + batch) % connCtxKinds
					c.Emit(val.L(val.N(0), val.Int(c.R.Intn(len(setup)+1)), val.List(ops), val.Int(ctxKind)))
				}
			}
		}
	}
}

func genCallbacks(c *Ctx) {
	// exhaustive: all histories of up to maxLen letters over
	// {sub "", sub "x", sub all, remover 0, remover 1, remover 2, event "", event "x"}
	// (labels cycle through 3 values), each followed by one event of every type
	// - with the named type "x" up to maxLen, and with the named type "message" (the name the
	// specification gives to the unnamed type; the tail then has "Message" as the third type) one shorter
	maxLen := 6
	if c.Thorough {
		maxLen = 7
	}
	var named, key string
	var tail []val.V
	letters := 8
	var rec func(prefix []int, maxLen int)
	rec = func(prefix []int, maxLen int) {
		nsub := 0
		cancelled := false
		ops := make([]val.V, 0, len(prefix)+3)
		for _, a := range prefix {
			switch a {
			case 0:
				ops = append(ops, val.L(val.N(0), val.S(""), val.Int(nsub%3)))
				nsub++
			case 1:
				ops = append(ops, val.L(val.N(0), val.S(named), val.Int(nsub%3)))
				nsub++
			case 2:
				ops = append(ops, val.L(val.N(1), val.Int(nsub%3)))
				nsub++
			case 3, 4, 5:
				ops = append(ops, val.L(val.N(2), val.Int(a-3)))
			case 6:
				ops = append(ops, val.L(val.N(3), val.S("")))
			case 7:
				ops = append(ops, val.L(val.N(3), val.S(named)))
			default:
				ops = append(ops, val.L(val.N(4), val.Int(a-8)))
				cancelled = true
			}
		}
		if letters == 8 {
			emitCbHistory(c, append(ops, tail...), key)
		} else if cancelled {
			// the second enumeration: only the histories the first one does not have
			ops = append(ops, tail...)
			if c.R.Chance(1, 2) {
				cbBatch(c.R, ops, 1, 1)
			}
			emitCbHistoryCtx(c, ops, key, c.R.Intn(connCtxKinds))
		}
		if len(prefix) == maxLen {
			return
		}
		for a := 0; a < letters; a++ {
			if a >= 3 && a <= 5 && a-3 >= nsub {
				continue // a remover that does not exist yet
			}
			if a >= 8 && cancelled {
				continue // a context ends once
			}
			rec(append(prefix, a), maxLen)
		}
	}
	named, key, tail = "x", "exhaustive", cbTail()
	rec(nil, maxLen)
	named, key, tail = "message", "exhaustive:named-type-message", cbTail("", "message", "Message")
	rec(nil, maxLen-1)
	// the same alphabet with two more letters - the request's context is ended by the harness goroutine / from inside the
	// next callback invoked -, two shorter; all histories in which the context ends (once)
	letters, named, key, tail = 10, "x", "exhaustive:with-cancellation", cbTail()
	rec(nil, maxLen-2)
	letters = 8

	// random longer histories: a pool of 4 types (see cbTypePools), 3 labels, stale and repeated removers favoured
	n, maxOps := 3000, 40
	if c.Thorough {
		n, maxOps = 60000, 120
	}
	for i := 0; i < n; i++ {
		pi := c.R.Intn(len(cbTypePools))
		types := cbTypePools[pi]
		c.Count(fmt.Sprintf("random:type-pool-%d", pi))
		l := 1 + c.R.Intn(maxOps)
		ops := make([]val.V, 0, l+3)
		nsub := 0
		for j := 0; j < l; j++ {
			switch x := c.R.Intn(100); {
			case x < 22:
				ops = append(ops, val.L(val.N(0), val.S(types[c.R.Intn(2+c.R.Intn(3))]), val.Int(c.R.Intn(3))))
				nsub++
			case x < 30:
				ops = append(ops, val.L(val.N(1), val.Int(c.R.Intn(3))))
				nsub++
			case x < 60 && nsub > 0:
				k := c.R.Intn(nsub)
				if c.R.Intn(2) == 0 && nsub > 3 {
					k = c.R.Intn(3) // old removers again and again
				}
				ops = append(ops, val.L(val.N(2), val.Int(k)))
			default:
				ops = append(ops, val.L(val.N(3), val.S(types[c.R.Intn(len(types))])))
			}
		}
		ops = append(ops, cbTail(append([]string{"y"}, types...)...)...)
		// a third of the histories: events that follow one another arrive in one chunk
		if c.R.Chance(1, 3) {
			cbBatch(c.R, ops, 2, 3)
			c.Count("random:events-arrive-together")
		}
		// a third of the histories: the request's context ends somewhere after the first operation - by the harness
		// goroutine between two events, or from inside the next callback invoked; the context is of a random kind
		ctxKind := 0
		if c.R.Chance(1, 3) {
			how := c.R.Intn(2)
			ops = cbInsert(ops, 1+c.R.Intn(len(ops)), val.L(val.N(4), val.Int(how)))
			ctxKind = c.R.Intn(connCtxKinds)
			c.Count(fmt.Sprintf("cancel:how-%d", how))
			c.Count(fmt.Sprintf("cancel:context-kind-%d", ctxKind))
		}
		emitCbHistoryCtx(c, ops, "random", ctxKind)
	}
	cbCancelSweep(c)

	// operations that meet at a barrier (kind 3)
	meets, rounds := 24, 50
	if c.Thorough {
		meets, rounds = 400, 60
	}
	for i := 0; i < meets; i++ {
		c.Count("concurrent:meet")
		c.Emit(val.L(val.N(3), val.List(genMeetRounds(c.R, rounds, c.Count))))
	}

	// concurrent scenarios
	for a := uint64(0); a < 2; a++ {
		for b := uint64(0); b < 2; b++ {
			reps := 2
			if c.Thorough {
				reps = 10
			}
			for i := 0; i < reps; i++ {
				c.Count("concurrent:remover-during-dispatch")
				c.Emit(val.L(val.N(1), val.N(0), val.N(a), val.N(b)))
			}
		}
	}
	// the race detector, when this machine has one
	if _, berr := buildRaceHarness(); berr == "" {
		c.Count("race-detector:run")
		c.Emit(val.L(val.N(2), val.N(c.R.U64()>>1)))
	} else {
		c.Count("race-detector:unavailable")
	}
	storms := 30
	if c.Thorough {
		storms = 400
	}
	for i := 0; i < storms; i++ {
		c.Count("concurrent:storm")
		c.Emit(val.L(val.N(1), val.N(1), val.N(c.R.U64()>>1), val.Int(1+c.R.Intn(4)), val.Int(20+c.R.Intn(200))))
	}
}
