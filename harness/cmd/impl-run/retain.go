package main

import (
	"runtime"
	"sort"
	"sync"
	"time"

	sse "github.com/tmaxmax/go-sse"

	"verifharness/val"
)

// Families "finite_retain" / "valid_retain" (C18, runtime observation): the histories of the
// finite/valid families are run on real replayers with a finalizer on every message given to Put;
// afterwards all harness references are dropped, the collector is forced, and the tokens of the
// messages that are STILL reachable are reported.  With explicit IDs the replayer keeps the
// caller's message itself, so what is reachable is what the replayer retains; with automatic IDs
// it keeps a copy and the caller's message must not be retained at all.
// output: (n0 (n<tok> ...))  tokens still reachable, ascending; (n1) constructor error

func init() {
	families["finite_retain"] = family{gen: sampled(genFinite, 45, 25), exec: execFiniteRetain}
	// the long-backlog histories are few: all of them; of the others every 150th / 60th
	families["valid_retain"] = family{gen: func(c *Ctx) { genValidBacklog(c); sampled(genValidHistories, 150, 60)(c) }, exec: execValidRetain}
}

// sampled runs every k-th case of a generator (k2 in the thorough tier): forcing collections is slow.
func sampled(gen func(*Ctx), k, k2 int) func(*Ctx) {
	return func(c *Ctx) {
		emit := c.emit
		step := k
		if c.Thorough {
			step = k2
		}
		n := 0
		c.emit = func(v val.V) {
			n++
			if n%step == 0 {
				emit(v)
			}
		}
		gen(c)
		c.emit = emit
	}
}

type finalizerLog struct {
	mu   sync.Mutex
	done map[uint64]bool
	all  []uint64
}

func (f *finalizerLog) track(m *sse.Message, tok uint64) {
	f.all = append(f.all, tok)
	runtime.SetFinalizer(m, func(*sse.Message) {
		f.mu.Lock()
		f.done[tok] = true
		f.mu.Unlock()
	})
}

func (f *finalizerLog) count() int {
	f.mu.Lock()
	defer f.mu.Unlock()
	return len(f.done)
}

// settle forces collections until the number of finalized messages has been stable for a while.
func (f *finalizerLog) settle() []val.V {
	stable, last := 0, -1
	for i := 0; i < 40 && stable < 3; i++ {
		runtime.GC()
		time.Sleep(100 * time.Microsecond)
		if n := f.count(); n == last {
			stable++
		} else {
			stable, last = 0, n
		}
	}
	f.mu.Lock()
	defer f.mu.Unlock()
	alive := []uint64{}
	seen := map[uint64]bool{}
	for _, t := range f.all {
		if !f.done[t] && !seen[t] {
			seen[t] = true
			alive = append(alive, t)
		}
	}
	sort.Slice(alive, func(i, j int) bool { return alive[i] < alive[j] })
	out := make([]val.V, len(alive))
	for i, t := range alive {
		out[i] = val.N(t)
	}
	return out
}

//go:noinline
func runFiniteOps(r *sse.FiniteReplayer, ops []val.V, f *finalizerLog) {
	for _, op := range ops {
		func() {
			defer func() { _ = recover() }()
			if op.At(0).Num() == 0 {
				msg := mkMsg(op.At(1), op.At(2).Num())
				f.track(msg, op.At(2).Num())
				_, _ = r.Put(msg, op.At(3).Strs())
				return
			}
			w := &scriptWriter{script: scriptOf(op.At(3))}
			_ = r.Replay(sse.Subscription{Client: w, LastEventID: lastID(op.At(1)), Topics: op.At(2).Strs()})
		}()
	}
}

func execFiniteRetain(in val.V) val.V {
	r, err := sse.NewFiniteReplayer(in.At(0).Int(), in.At(1).Truth())
	if err != nil {
		return val.L(val.N(1))
	}
	f := &finalizerLog{done: map[uint64]bool{}}
	runFiniteOps(r, in.At(2).Items(), f)
	alive := f.settle()
	runtime.KeepAlive(r)
	return val.L(val.N(0), val.List(alive))
}

//go:noinline
func runValidOps(r *sse.ValidReplayer, now *time.Time, ops []val.V, f *finalizerLog) {
	for _, op := range ops {
		*now = baseTime.Add(time.Duration(op.At(1).Signed()))
		func() {
			defer func() { _ = recover() }()
			switch op.At(0).Num() {
			case 0:
				msg := mkMsg(op.At(2), op.At(3).Num())
				f.track(msg, op.At(3).Num())
				_, _ = r.Put(msg, op.At(4).Strs())
			case 1:
				w := &scriptWriter{script: scriptOf(op.At(4))}
				_ = r.Replay(sse.Subscription{Client: w, LastEventID: lastID(op.At(2)), Topics: op.At(3).Strs()})
			case 2:
				r.GC()
			default:
				r.GCInterval = time.Duration(op.At(2).Signed())
			}
		}()
	}
	// the property speaks about what is retained once a collection has run
	r.GC()
}

func execValidRetain(in val.V) val.V {
	r, err := sse.NewValidReplayer(time.Duration(in.At(0).Signed()), in.At(1).Truth())
	if err != nil {
		return val.L(val.N(1))
	}
	if in.At(2).Present() {
		r.GCInterval = time.Duration(in.At(2).At(0).Signed())
	}
	now := baseTime
	r.Now = func() time.Time { return now }
	f := &finalizerLog{done: map[uint64]bool{}}
	runValidOps(r, &now, in.At(3).Items(), f)
	alive := f.settle()
	runtime.KeepAlive(r)
	return val.L(val.N(0), val.List(alive))
}
