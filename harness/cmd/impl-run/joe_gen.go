package main

// Generators of the Joe families.  A scenario is built from one of a few templates (each the
// boundary class of one of the properties: topic shapes, failure x cancellation, shutdown
// races, cancellation instants, replayer faults and sequential fault histories, message shapes,
// resuming with Last-Event-ID, resuming after expiry and the application's own GC()) filled in
// randomly, plus a fully random mix.  In every class some messages carry no data (sprinkleBlank), some Publish
// calls publish a message object that was published before (sprinkleSame), the scripted errors come in all
// characters (werr / perr: plain, Timeout(), wrapping sentinels, the subscriber's own context error ...; a Put
// error alone or together with the message), and the scenarios of the joe family that do not script the replayer
// wrapper also run against a Joe with no Replayer at all (noReplayer).
// Also in every class: some subscribers are HTTP sessions that come in through sse.Server.ServeHTTP (OnSession scripted),
// some publications go through Server.Publish (sprinkleServer), some writers forward to a real *sse.Session
// (sprinkleSession), some publisher threads keep ONE topics slice and rewrite it in place between calls (sprinkleReuse),
// some subscribers present a Last-Event-ID (sprinkleIDs); in one scenario of three the topic numbers are spelled as
// names of another shape - long, differing in one byte, NUL, UTF-8, mixed sizes (sprinkleSpelling, jSpellings in joe_run.go).
// Also: what the Subscription's Client field holds (sprinkleClients, tplClients: the subscriber's own pointer, values of
// uncomparable dynamic types, ONE writer object subscribed several times), publications that name a topic more than once
// (sprinkleDupTopics, tplDupTopics).  A run stops making scenarios once jStuckMax of them stranded calls (emit).
// All randomness comes from c.R.

import (
	"strconv"
	"strings"

	"verifharness/rng"
	"verifharness/val"
)

type jgen struct {
	c *Ctx
	r *rng.R
}

func jEv(code, id uint64) jCond      { return jCond{{code: code, id: id, count: 1}} }
func jEvN(code, id, n uint64) jCond  { return jCond{{code: code, id: id, count: n}} }
func jRel(code, id, n uint64) jStage { return jStage{code: code, id: id, count: n, rel: true} }
func jAbs(code, id, n uint64) jStage { return jStage{code: code, id: id, count: n} }
func jFinalShut() jShutSpec          { return jShutSpec{start: jCond{{code: 0}}} }
func jID(s string) val.V             { return val.L(val.S(s)) }
func jPark(point, id, nth uint64, us uint64, st ...jStage) *jParkSpec {
	return &jParkSpec{point: point, id: id, nth: nth, stages: jCond(st), timeoutUs: us}
}

func (g *jgen) base() *jScenario {
	s := &jScenario{seed: g.r.U64() % (1 << 32)}
	s.procs = rng.Pick(g.r, []uint64{1, 2, 4, 16})
	s.policy = rng.Pick(g.r, []uint64{0, 0, 1, 1, 1, 2, 2, 3, 3})
	return s
}

// topics: n distinct topics out of 0..universe-1
func (g *jgen) topics(n, universe int) []uint64 {
	if n > universe {
		n = universe
	}
	out := []uint64{}
	for len(out) < n {
		t := uint64(g.r.Intn(universe))
		dup := false
		for _, x := range out {
			dup = dup || x == t
		}
		if !dup {
			out = append(out, t)
		}
	}
	return out
}

func jZeros(n int) []uint64 { return make([]uint64, n) }

var jErrKindName = []string{"plain", "Temporary()", "Timeout()", "wraps-os.ErrDeadlineExceeded", "wraps-context.DeadlineExceeded",
	"wraps-context.Canceled", "*net.OpError", "own-ctx.Err()-itself", "own-ctx.Err()-wrapped-%w", "own-ctx.Err()-in-scripted-value",
	"wraps-sse.ErrNoTopic", "wraps-sse.ErrProviderClosed", "wraps-sse.ErrUnexpectedEOF", "wraps-io.EOF",
	"As(any)-answers-true", "Is(error)-answers-true", "16", "17", "18", "19"}

// errOf draws a scripted error verdict: a small number, half of the time plain, else of one of the first `kinds`
// characters (see jErr).
func (g *jgen) errOf(kinds int) uint64 {
	kind := 0
	if g.r.Bool() {
		// the characters below `kinds`, and those that need no subscriber: the library's own sentinels (10-13), the
		// permissive As / Is methods (14, 15)
		if kind = 1 + g.r.Intn(kinds-1+(jErrKindLast-jErrKindFirst+1)); kind >= kinds {
			kind = jErrKindFirst + kind - kinds
		}
	}
	return uint64(100 + 10*kind + g.r.Intn(5))
}

// werr: the error of a call that belongs to a subscriber (its writer's Send / Flush, the Replay for it).
func (g *jgen) werr() uint64 { return g.errOf(jErrKinds) }

// perr: the error of a Put, returned alone or - half of the time - together with the message.
func (g *jgen) perr() uint64 {
	v := g.errOf(jErrKindsAny)
	if g.r.Bool() {
		v += 200
	}
	return v
}

func jToks(s *jScenario) int {
	n := 0
	for _, t := range s.pubs {
		n += len(t.msgs)
	}
	return n
}

// ---- topic shape classification (input distribution) ----------------------------------------

func jIndex(xs []uint64, t uint64) int {
	for i, x := range xs {
		if x == t {
			return i
		}
	}
	return -1
}

// jShape names the relation of a subscriber's and a message's topic lists.
func jShape(sub, msg []uint64) []string {
	common := 0
	for _, t := range sub {
		if jIndex(msg, t) >= 0 {
			common++
		}
	}
	out := []string{}
	switch {
	case common == 0:
		out = append(out, "disjoint")
	case common == len(sub) && common == len(msg):
		out = append(out, "equal")
	case common == 1:
		out = append(out, "overlap1")
	default:
		out = append(out, "overlapN")
	}
	if common >= 2 {
		out = append(out, "multi-match")
	}
	if common > 0 && (jIndex(sub, 0) >= 0 && jIndex(msg, 0) >= 0) {
		out = append(out, "default-common")
	}
	if common > 0 && len(sub) >= 2 && len(msg) >= 2 {
		// every common topic sits earlier in the longer list than in the shorter one
		a, b := sub, msg
		if len(a) > len(b) {
			a, b = b, a
		}
		all := true
		for i, t := range a {
			if k := jIndex(b, t); k >= 0 && k >= i {
				all = false
			}
		}
		if all {
			out = append(out, "common-only-at-earlier-positions")
		}
		diff := false
		for i, t := range sub {
			if k := jIndex(msg, t); k >= 0 && k != i {
				diff = true
			}
		}
		if diff {
			out = append(out, "common-at-different-positions")
		}
	}
	return out
}

func (g *jgen) countScenario(fam, class string, s *jScenario) {
	c := g.c
	c.Count(fam + ":class:" + class)
	c.Count("procs:" + strconv.FormatUint(s.procs, 10))
	c.Count("policy:" + strconv.FormatUint(s.policy, 10))
	c.Count("subs:" + strconv.Itoa(len(s.subs)))
	c.Count("pub-threads:" + strconv.Itoa(len(s.pubs)))
	c.Count("shutdown-callers:" + strconv.Itoa(len(s.shuts)))
	if len(s.parks) > 0 {
		c.Count("parks:yes")
	}
	if s.spell < uint64(len(jSpellings)) {
		c.Count("topic-names:" + jSpellings[s.spell].name)
	}
	seen := map[string]bool{}
	if s.noOnSession {
		seen["server-without-OnSession"] = true
	}
	refusing := false
	for _, v := range s.putScript {
		refusing = refusing || v >= 100 && v < 300
	}
	for _, x := range s.subs {
		for _, t := range s.pubs {
			for _, m := range t.msgs {
				for _, sh := range jShape(x.effTopics(s.noOnSession), m.effTopics()) {
					seen[sh] = true
				}
			}
		}
		if x.via&jViaServer != 0 {
			seen["subscriber-is-a-Server-session"] = true
			if !s.noOnSession {
				n := strconv.Itoa(len(x.topics))
				if len(x.topics) == 0 && x.via&jViaNil != 0 {
					n = "nil"
				}
				seen["OnSession-answers-topics:"+n] = true
			}
		} else if len(s.subs) > 1 {
			seen["subscriber-through-Joe.Subscribe-next-to-others"] = true
		}
		if x.via&jViaSession != 0 {
			seen["writer-forwards-to-a-real-Session"] = true
			if refusing || s.kind >= 1 && s.kind <= 3 {
				seen["writer-forwards-to-a-real-Session+Put-may-refuse"] = true
			}
		}
		fail := false
		for k, v := range x.script {
			if v >= 100 {
				fail = true
				seen["writer-error:"+jErrKindName[jErrKind(v)]] = true
				if k%2 == 0 {
					seen["writer-fails-at-even-call"] = true
				} else {
					seen["writer-fails-at-odd-call"] = true
				}
			}
		}
		if fail && x.selfCancel {
			seen["writer-cancels-own-ctx"] = true
		}
		if fail && s.kind == 4 && len(s.subs) > 1 {
			seen["no-replayer+failing-subscriber+others"] = true
		}
		if fail && x.hasCancel {
			seen["failure+external-cancel"] = true
		}
		if x.hasCancel && len(x.cancel) == 0 {
			seen["cancel-before-start"] = true
		}
		if x.idopt.Present() {
			seen["resume-id-presented"] = true
		}
		if x.via&jViaServer == 0 {
			switch {
			case x.client >= jClientShare:
				kind := "the-same-pointer"
				if x.client >= jClientShareV {
					kind = "equal-struct-values"
				}
				seen["client:one-writer-object-subscribed-several-times/"+kind] = true
				if fail {
					seen["client:shared-writer+one-subscription-fails"] = true
				}
			case x.client != 0:
				seen["client:uncomparable-dynamic-type/"+[]string{"", "func", "struct-with-slice", "struct-with-map"}[x.client]] = true
				if fail && len(s.subs) > 1 {
					seen["client:uncomparable-dynamic-type+a-subscriber-fails"] = true
				}
			}
		}
	}
	for _, h := range s.shuts {
		if h.hasCancel {
			seen["shutdown-ctx-cancelled"] = true
		}
	}
	for _, v := range s.putScript {
		if v == 98 {
			seen["put-panics"] = true
		} else if v >= 100 && s.kind != 4 {
			seen["put-errors"] = true
			seen["put-error:"+jErrKindName[jErrKind(v)]] = true
			if v >= 300 {
				seen["put-returns-message-AND-error"] = true
			} else {
				seen["put-returns-nil-and-error"] = true
			}
		}
	}
	for k, v := range s.repScript {
		withID := "without-last-event-id"
		if s.kind != 4 && (v == 98 || v >= 100) {
			// the k-th Replay call is for the k-th subscription the loop takes; where the subscribers start one after
			// the other that is subscriber k
			if k < len(s.subs) && s.subs[k].idopt.Present() {
				withID = "with-last-event-id"
			}
			if v == 98 {
				seen["replay-panics/subscriber-"+withID] = true
			} else {
				seen["replay-errors/subscriber-"+withID] = true
			}
		}
		if v == 98 {
			seen["replay-panics"] = true
		} else if v >= 100 && s.kind != 4 {
			seen["replay-errors"] = true
			seen["replay-error:"+jErrKindName[jErrKind(v)]] = true
		}
	}
	if s.kind == 4 {
		seen["no-replayer(Joe.Replayer==nil)"] = true
	}
	for _, t := range s.pubs {
		for _, m := range t.msgs {
			if m.flags&jPubServer != 0 {
				seen["Server.Publish:topics:"+strconv.Itoa(len(m.topics))] = true
			}
			if jHasDup(m.topics) {
				seen["publication-names-a-topic-twice"] = true
				if s.kind >= 1 && s.kind <= 3 {
					seen["publication-names-a-topic-twice+real-replayer"] = true
					for _, x := range s.subs {
						if et := x.effTopics(s.noOnSession); jIntersects(et, []uint64{0}) && !jIntersects(et, m.effTopics()) {
							seen["publication-names-a-topic-twice+real-replayer+default-topic-subscriber-not-addressed"] = true
						}
					}
				}
			}
			if m.flags&jPubReuse != 0 && (s.kind == 0 || s.kind == 4) {
				seen["publisher-rewrites-its-one-topics-slice-in-place"] = true
			}
			if m.same != 0 {
				seen["same-message-object-published-again"] = true
				if s.kind >= 1 && s.kind <= 3 && s.auto != 0 {
					seen["same-message-object-published-again+id-assigning-replayer"] = true
				}
			}
			if m.shape != 0 {
				seen["message-without-data"] = true
				if !m.idopt.Present() {
					seen["message-without-any-field"] = true
					if s.kind != 0 && s.auto != 0 {
						seen["message-without-any-field+id-assigning-replayer"] = true
					}
				}
			}
		}
	}
	for k := range seen {
		c.Count("has:" + k)
	}
}

// sprinkleBlank: in one scenario of four some published messages carry no data (nothing at all unless the
// scenario gave them an ID).  What Joe owes a message does not depend on its content.
func (g *jgen) sprinkleBlank(s *jScenario) {
	if jToks(s) == 0 || !g.r.Chance(1, 4) {
		return
	}
	n := 0
	for t := range s.pubs {
		for k := range s.pubs[t].msgs {
			if g.r.Chance(1, 3) {
				s.pubs[t].msgs[k].shape = 1
				n++
			}
		}
	}
	if n == 0 {
		t := g.r.Intn(len(s.pubs))
		for len(s.pubs[t].msgs) == 0 {
			t = (t + 1) % len(s.pubs)
		}
		s.pubs[t].msgs[g.r.Intn(len(s.pubs[t].msgs))].shape = 1
	}
}

// sprinkleSame: in one scenario of four some Publish calls publish the SAME *sse.Message object as an earlier call
// of their thread (a prebuilt heartbeat / "refresh" message).  What Joe owes a Publish call does not depend on
// whether the object was published before.  Only where every call is still its own event: the object carries no
// ID of its own, or nothing stores events by ID (no replayer / the scripted wrapper alone).
func (g *jgen) sprinkleSame(s *jScenario) {
	if !g.r.Chance(1, 4) {
		return
	}
	for t := range s.pubs {
		msgs := s.pubs[t].msgs
		for k := 1; k < len(msgs); k++ {
			if msgs[k].same != 0 || !g.r.Chance(1, 2) {
				continue
			}
			src := g.r.Intn(k)
			if msgs[src].same != 0 {
				src = int(msgs[src].same - 1)
			}
			if (msgs[src].idopt.Present() || msgs[k].idopt.Present()) && s.kind != 0 && s.kind != 4 {
				continue
			}
			msgs[k].same, msgs[k].idopt, msgs[k].shape = uint64(src+1), msgs[src].idopt, msgs[src].shape
		}
	}
}

// someID: a Last-Event-ID a client may present (a numeral, text, set but empty).
func (g *jgen) someID() val.V {
	return jID(rng.Pick(g.r, []string{"0", "1", "3", "7", "m1", "m2", "zz", ""}))
}

// presentIDs: subscribers present a Last-Event-ID - mode 0 nobody, 1 everybody, 2 each one with probability 1/2, 3 those
// that pick says.  Only where nothing is stored by ID (the scripted wrapper alone / no replayer): there a presented ID
// changes nothing of what Joe owes the subscription - whatever Replay then answers (ok, an error, a panic).
func (g *jgen) presentIDs(s *jScenario, mode int, pick func(i int) bool) {
	if s.kind != 0 && s.kind != 4 {
		return
	}
	for i := range s.subs {
		if s.subs[i].idopt.Present() {
			continue
		}
		if mode == 1 || mode == 2 && g.r.Bool() || mode == 3 && pick != nil && pick(i) {
			s.subs[i].idopt = g.someID()
		}
	}
}

// sprinkleIDs: in one scenario of four of every class some subscribers present a Last-Event-ID (see presentIDs).
func (g *jgen) sprinkleIDs(fam string, s *jScenario) {
	if fam == "joe" && g.r.Chance(1, 4) {
		g.presentIDs(s, 2, nil)
	}
}

// sprinkleServer: in one scenario of five of every class some subscribers are HTTP sessions of an sse.Server in front of
// the scenario's Joe (OnSession answers the subscriber's topics), and some publications go through Server.Publish.
// What Joe owes a subscription or a publication does not depend on who built it.
func (g *jgen) sprinkleServer(fam string, s *jScenario) {
	if fam != "joe" || !g.r.Chance(1, 5) {
		return
	}
	for i := range s.subs {
		if s.subs[i].via == 0 && g.r.Bool() {
			s.subs[i].via = jViaServer
			if g.r.Bool() {
				s.subs[i].via |= jViaSession
			}
			if g.r.Bool() {
				s.subs[i].via |= jViaNil
			}
		}
	}
	for t := range s.pubs {
		for k := range s.pubs[t].msgs {
			if g.r.Bool() {
				s.pubs[t].msgs[k].flags |= jPubServer
			}
		}
	}
}

// sprinkleSession: in one scenario of four some writers forward what they are handed to a real *sse.Session.
func (g *jgen) sprinkleSession(fam string, s *jScenario) {
	if fam != "joe" || !g.r.Chance(1, 4) {
		return
	}
	for i := range s.subs {
		if g.r.Chance(2, 3) {
			s.subs[i].via |= jViaSession
		}
	}
}

// sprinkleReuse: in one scenario of five (where no real replayer keeps the topics it is given) some publisher threads
// keep one topics slice: every call passes the same slice object, rewritten in place after the previous call's round.
func (g *jgen) sprinkleReuse(fam string, s *jScenario) {
	if fam != "joe" || s.kind != 0 && s.kind != 4 || !g.r.Chance(1, 5) {
		return
	}
	for t := range s.pubs {
		if g.r.Chance(2, 3) {
			for k := range s.pubs[t].msgs {
				s.pubs[t].msgs[k].flags |= jPubReuse
			}
		}
	}
}

func jNoFault(script []uint64) bool {
	for _, v := range script {
		if v == 98 || v >= 100 {
			return false
		}
	}
	return true
}

// jUsesRepEvents: some park or wait of the scenario is keyed to the wrapper's Put / Replay records.
func jUsesRepEvents(s *jScenario) bool {
	in := func(c jCond) bool {
		for _, st := range c {
			if st.code == 40 || st.code == 41 {
				return true
			}
		}
		return false
	}
	for _, p := range s.parks {
		if p.point == 40 || p.point == 41 || in(p.stages) {
			return true
		}
	}
	for _, x := range s.subs {
		if in(x.start) || in(x.cancel) {
			return true
		}
	}
	for _, t := range s.pubs {
		if in(t.start) {
			return true
		}
		for _, m := range t.msgs {
			if in(m.pre) {
				return true
			}
		}
	}
	for _, h := range s.shuts {
		if in(h.start) || in(h.cancel) {
			return true
		}
	}
	return false
}

// noReplayer: every class of the joe family also runs against a Joe with NO Replayer configured (the zero value,
// the most common configuration) wherever the scenario does not script the wrapper: one in three of those.
func (g *jgen) noReplayer(fam string, s *jScenario) {
	if fam == "joe" && s.kind == 0 && jNoFault(s.putScript) && jNoFault(s.repScript) && !jUsesRepEvents(s) && g.r.Chance(1, 3) {
		s.kind, s.putScript, s.repScript = 4, nil, nil
	}
}

// sprinkleSpelling: in one scenario of three of every class of both families the topic numbers are spelled as names
// of another shape (jSpellings: long names that differ in one byte, NUL, UTF-8, mixed sizes ...).  What Joe and the
// replayers owe a subscription does not depend on how its topics are spelled.
func (g *jgen) sprinkleSpelling(s *jScenario) {
	if s.spell == 0 && g.r.Chance(1, 3) {
		s.spell = uint64(1 + g.r.Intn(len(jSpellings)-1))
	}
}

// dupTopics: the list with one of its names repeated once or twice - next to itself or further away.  The same SET.
func (g *jgen) dupTopics(topics []uint64) []uint64 {
	out := append([]uint64{}, topics...)
	if len(out) == 0 {
		return out
	}
	for k, n := 0, 1+g.r.Intn(2); k < n; k++ {
		e := out[g.r.Intn(len(out))]
		at := g.r.Intn(len(out) + 1)
		out = append(out[:at], append([]uint64{e}, out[at:]...)...)
	}
	return out
}

func jHasDup(topics []uint64) bool {
	for i := range topics {
		for j := i + 1; j < len(topics); j++ {
			if topics[i] == topics[j] {
				return true
			}
		}
	}
	return false
}

// sprinkleDupTopics: in one scenario of four of every class of both families some publications name a topic more
// than once in their list (a list concatenated from several sources: ["a","a"], ["b","a","b"]).  A publication is for
// the subscribers whose topics intersect the SET of its topics, whatever the list looks like and whoever stores it.
func (g *jgen) sprinkleDupTopics(s *jScenario) {
	if !g.r.Chance(1, 4) {
		return
	}
	for t := range s.pubs {
		for k := range s.pubs[t].msgs {
			if m := &s.pubs[t].msgs[k]; len(m.topics) > 0 && g.r.Chance(1, 2) {
				m.topics = g.dupTopics(m.topics)
			}
		}
	}
}

// jMayShare: the direct subscribers i and j can be given ONE writer object - no publication of the scenario is for
// both (the shared writer attributes a fan-out call by the message's topics), and neither comes in through the Server.
func jMayShare(s *jScenario, i, j int) bool {
	a, b := &s.subs[i], &s.subs[j]
	if a.via&jViaServer != 0 || b.via&jViaServer != 0 || jIntersects(a.topics, b.topics) {
		return false
	}
	for _, t := range s.pubs {
		for k := range t.msgs {
			if mt := t.msgs[k].effTopics(); jIntersects(a.topics, mt) && jIntersects(b.topics, mt) {
				return false
			}
		}
	}
	return true
}

// sprinkleClients: what the Subscription's Client field holds.  In one scenario of five of every class of both
// families some direct subscribers hand Joe a value of an UNCOMPARABLE dynamic type (a func type with methods, a
// struct with a slice / map field passed by value); in one of five, subscribers that no publication addresses
// together share ONE writer object (a connection subscribed several times: the same pointer, or equal struct values).
// What Joe owes a subscription does not depend on what its Client value is, equals, or can be compared with.
func (g *jgen) sprinkleClients(s *jScenario) {
	switch g.r.Intn(5) {
	case 0:
		all := g.r.Bool()
		kind := uint64(1 + g.r.Intn(3))
		for i := range s.subs {
			if x := &s.subs[i]; x.client == 0 && x.via&jViaServer == 0 && (all || g.r.Bool()) {
				x.client = kind
				if g.r.Chance(1, 4) {
					x.client = uint64(1 + g.r.Intn(3))
				}
			}
		}
	case 1:
		ngroups := uint64(0)
		for i := range s.subs {
			if c := s.subs[i].client; c >= jClientShare {
				ngroups = max(ngroups, c%10+1) // the groups the class made itself keep their numbers
			}
		}
		for i := range s.subs {
			if s.subs[i].client != 0 || s.subs[i].via&jViaServer != 0 {
				continue
			}
			members := []int{i}
			for j := i + 1; j < len(s.subs) && len(members) < 3; j++ {
				ok := s.subs[j].client == 0
				for _, m := range members {
					ok = ok && jMayShare(s, m, j)
				}
				if ok {
					members = append(members, j)
				}
			}
			if len(members) < 2 || ngroups >= 9 {
				continue
			}
			c := jClientShare + ngroups
			if g.r.Bool() {
				c = jClientShareV + ngroups
			}
			for _, m := range members {
				s.subs[m].client = c
			}
			ngroups++
		}
	}
}

func (g *jgen) emit(fam, class string, s *jScenario) {
	if joeParent.stuck >= jStuckMax {
		// this run has stranded calls in jStuckMax scenarios already (each costs the 10 s deadline): what it has
		// shown is kept rather than lost to the family's time limit.  Never reached on the unchanged code.
		g.c.Count(fam + ":not-run-after-" + strconv.Itoa(jStuckMax) + "-stuck-scenarios")
		return
	}
	g.sprinkleSpelling(s)
	g.sprinkleBlank(s)
	g.sprinkleSame(s)
	g.sprinkleIDs(fam, s)
	g.sprinkleServer(fam, s)
	g.sprinkleSession(fam, s)
	g.noReplayer(fam, s)
	g.sprinkleReuse(fam, s)
	g.sprinkleDupTopics(s)
	g.sprinkleClients(s)
	g.countScenario(fam, class, s)
	g.c.Emit(val.L(s.enc()))
}

// ---- (a) topic shapes ---------------------------------------------------------------------------

type jPair struct{ sub, msg []uint64 }

var jPairs = []jPair{
	{[]uint64{1}, []uint64{2}}, {[]uint64{1, 2}, []uint64{3, 4}}, {[]uint64{0}, []uint64{1}},
	{[]uint64{1}, []uint64{1}}, {[]uint64{1, 2}, []uint64{1, 2}}, {[]uint64{0}, []uint64{0}}, {[]uint64{1, 2, 3}, []uint64{1, 2, 3}},
	{[]uint64{1, 2}, []uint64{2, 3}}, {[]uint64{2, 1}, []uint64{2, 3}}, {[]uint64{4, 0}, []uint64{0, 5, 3}},
	{[]uint64{0, 1}, []uint64{0}}, {[]uint64{1, 0}, []uint64{2, 0}},
	{[]uint64{1, 2, 3}, []uint64{2, 3, 4}}, {[]uint64{1, 2}, []uint64{2, 1}}, {[]uint64{1, 2, 3}, []uint64{3, 2, 1}},
	{[]uint64{1, 2, 3}, []uint64{2}}, {[]uint64{2}, []uint64{1, 2, 3}}, {[]uint64{4, 5, 1}, []uint64{3, 4}},
	{[]uint64{1, 2, 3}, []uint64{3, 1}}, {[]uint64{}, []uint64{1}},
}

// positional: lists of 2-3 topics with exactly one common topic at chosen positions
func (g *jgen) positional() jPair {
	ls, lm := 2+g.r.Intn(2), 2+g.r.Intn(2)
	common := uint64(g.r.Intn(3)) // may be the default topic
	sub, msg := make([]uint64, ls), make([]uint64, lm)
	next := uint64(3)
	for i := range sub {
		sub[i] = next
		next++
	}
	for i := range msg {
		msg[i] = next
		next++
	}
	sub[g.r.Intn(ls)] = common
	msg[g.r.Intn(lm)] = common
	return jPair{sub, msg}
}

func (g *jgen) tplTopics(maxSubs int) *jScenario {
	s := g.base()
	var pr jPair
	if g.r.Chance(1, 3) {
		pr = g.positional()
	} else {
		pr = rng.Pick(g.r, jPairs)
	}
	nsubs := 1 + g.r.Intn(maxSubs)
	for i := 0; i < nsubs; i++ {
		x := jSubSpec{}
		switch {
		case i == 0:
			x.topics = pr.sub
		case g.r.Chance(1, 3):
			q := g.positional()
			x.topics = q.sub
		default:
			x.topics = g.topics(1+g.r.Intn(3), 6)
		}
		if g.r.Chance(1, 6) {
			x.hasCancel, x.cancel = true, jEvN(38, uint64(i), uint64(1+g.r.Intn(2)))
		}
		s.subs = append(s.subs, x)
	}
	nthreads := 1 + g.r.Intn(2)
	var start jCond
	if g.r.Chance(3, 4) {
		start = jEvN(34, jAny, uint64(nsubs))
	}
	first := true
	for t := 0; t < nthreads; t++ {
		pt := jPubSpec{start: start}
		for k, n := 0, 1+g.r.Intn(3); k < n; k++ {
			m := jMsgSpec{}
			switch {
			case first:
				m.topics = pr.msg
				first = false
			case g.r.Chance(1, 3):
				m.topics = g.positional().msg
			case g.r.Chance(1, 3):
				// a permutation / sublist of some subscriber's list
				src := s.subs[g.r.Intn(nsubs)].topics
				for i := len(src) - 1; i >= 0; i-- {
					if g.r.Chance(2, 3) {
						m.topics = append(m.topics, src[i])
					}
				}
				if len(m.topics) == 0 {
					m.topics = g.topics(1, 6)
				}
			default:
				m.topics = g.topics(1+g.r.Intn(3), 6)
			}
			pt.msgs = append(pt.msgs, m)
		}
		s.pubs = append(s.pubs, pt)
	}
	s.shuts = []jShutSpec{jFinalShut()}
	return s
}

// tplJoined: subscriptions whose topic lists would read the same if their names were put together with the
// spelling's separator ({1, 2} and {3}; {2, 4} and {5}; {1, 2, 4}, {3, 4}, {1, 5} and {6}; {0, 0}-like {7}; {0, 1} and {8})
// all registered before one publisher goes through the single names, the joined names and pairs.
func (g *jgen) tplJoined(shape int) *jScenario {
	s := g.base()
	var subs, msgs [][]uint64
	switch shape % 3 {
	case 0:
		subs = [][]uint64{{1, 2}, {3}}
		msgs = [][]uint64{{1}, {3}, {2}, {1, 2}, {3, 4}}
	case 1:
		subs = [][]uint64{{3}, {1, 2}, {2, 4}, {5}}
		msgs = [][]uint64{{2}, {5}, {4}, {3}, {1}}
	default:
		subs = [][]uint64{{6}, {1, 2, 4}, {3, 4}, {1, 5}, {7}, {0}, {8}, {0, 1}, {9}}
		msgs = [][]uint64{{1}, {6}, {4}, {0}, {7}, {8}, {5}, {3}, {9}}
	}
	if shape >= 3 {
		for i := len(subs) - 1; i > 0; i-- {
			j := g.r.Intn(i + 1)
			subs[i], subs[j] = subs[j], subs[i]
		}
		for i := len(msgs) - 1; i > 0; i-- {
			j := g.r.Intn(i + 1)
			msgs[i], msgs[j] = msgs[j], msgs[i]
		}
	}
	for _, t := range subs {
		s.subs = append(s.subs, jSubSpec{topics: t})
	}
	pt := jPubSpec{start: jEvN(34, jAny, uint64(len(subs)))}
	for _, t := range msgs {
		pt.msgs = append(pt.msgs, jMsgSpec{topics: t})
	}
	s.pubs = append(s.pubs, pt)
	s.shuts = []jShutSpec{jFinalShut()}
	return s
}

// ---- (b) failure x cancellation ------------------------------------------------------------------

// late: the directed class "the failed subscriber's unsubscription still reaches the loop": the failing call ends
// the subscriber's own context, its Subscribe is held at sub.ctx until the loop has reported the failure, removed it
// and is idle again - then both cases of its last select are ready, and when it hands the unsubscription in the loop
// meets a subscriber it has removed already (loop.remove.skip).  Afterwards further publishes go to the one or two
// subscribers that remain.
func (g *jgen) tplFail(maxSubs int, late bool) *jScenario {
	s := g.base()
	topic := uint64(g.r.Intn(3))
	k := g.r.Intn(6) // index of the failing call: even = a Send, odd = the Flush after a successful Send
	code := g.werr()
	f := jSubSpec{topics: []uint64{topic}, script: append(jZeros(k), code), selfCancel: g.r.Chance(2, 3)}
	if g.r.Chance(1, 3) {
		f.topics = append(f.topics, topic+1)
	}
	failMsg := uint64(k / 2)
	failCallCode, failCallNth := uint64(38), uint64(k/2+1)
	if k%2 == 1 {
		failCallCode = 39
	}
	cancelAt := g.r.Intn(6)
	if late {
		f.selfCancel, cancelAt = true, 0
	}
	switch cancelAt {
	case 1:
		f.hasCancel, f.cancel = true, jEvN(failCallCode, 0, failCallNth)
	case 2:
		f.hasCancel, f.cancel = true, jEv(28, 0)
	case 3:
		f.hasCancel, f.cancel = true, jEv(25, failMsg)
	case 4:
		f.hasCancel, f.cancel = true, jEvN(38, 0, 1)
	case 5:
		f.hasCancel, f.cancel = true, jEv(12, failMsg)
	}
	s.subs = append(s.subs, f)
	nothers := g.r.Intn(maxSubs)
	if late {
		nothers = 1 + g.r.Intn(2)
	}
	for i := 1; i <= nothers; i++ {
		x := jSubSpec{topics: []uint64{topic}}
		if g.r.Chance(1, 3) {
			x.topics = []uint64{topic + 2, topic}
		}
		if !late && g.r.Chance(1, 5) {
			x.script = append(jZeros(g.r.Intn(6)), g.werr())
			x.selfCancel = g.r.Bool()
		}
		s.subs = append(s.subs, x)
	}
	nsubs := uint64(len(s.subs))
	total := k/2 + 2 + g.r.Intn(3)
	if late {
		total++
	}
	var start jCond
	if g.r.Chance(4, 5) {
		start = jEvN(34, jAny, nsubs)
	}
	nthreads := 1
	if g.r.Chance(1, 3) {
		nthreads = 2
	}
	for t := 0; t < nthreads; t++ {
		s.pubs = append(s.pubs, jPubSpec{start: start})
	}
	for j := 0; j < total; j++ {
		t := 0
		if nthreads == 2 && j > k/2 && g.r.Bool() {
			t = 1
		}
		m := jMsgSpec{topics: []uint64{topic}}
		if g.r.Chance(1, 4) {
			m.topics = []uint64{topic + 1, topic}
		}
		switch {
		case j == k/2+1 && late, j == k/2+1 && g.r.Chance(1, 6):
			m.pre = jEv(30, 0) // a further publish once the failed subscriber's late unsubscription was handled
		case j == k/2+1 && g.r.Chance(1, 2):
			m.pre = jEv(29, 0) // a further publish once the failed subscriber was removed
		}
		s.pubs[t].msgs = append(s.pubs[t].msgs, m)
	}
	if nthreads == 2 && len(s.pubs[1].msgs) == 0 {
		s.pubs = s.pubs[:1]
	}
	menu := []*jParkSpec{
		jPark(5, 0, 0, 2000, jAbs(29, 0, 1), jRel(24, jAny, 1)), // error in done AND loop idle at the last select
		jPark(5, 0, 0, 2000, jAbs(28, 0, 1)),
		jPark(28, 0, 0, 2000, jAbs(5, 0, 1)), // the loop holds the error until the subscriber saw its ctx
		jPark(29, 0, 0, 1500, jAbs(5, 0, 1)),
		jPark(failCallCode, 0, failCallNth, 1500, jAbs(5, 0, 1)),
		jPark(6, 0, 0, 1000, jAbs(30, 0, 1)),
	}
	parkAt := g.r.Intn(10)
	if late {
		parkAt = 2
	}
	switch parkAt {
	case 0, 1:
	case 2, 3, 4, 5:
		s.parks = append(s.parks, menu[0])
	case 6, 7, 8:
		s.parks = append(s.parks, rng.Pick(g.r, menu[1:]))
	case 9:
		s.parks = append(s.parks, menu[0], rng.Pick(g.r, menu[2:]))
	}
	if !late && g.r.Chance(1, 4) {
		s.shuts = append(s.shuts, jShutSpec{start: jEv(rng.Pick(g.r, []uint64{28, 29, 5}), 0)})
	}
	s.shuts = append(s.shuts, jFinalShut())
	return s
}

// ---- (c) shutdown races ---------------------------------------------------------------------------

func (g *jgen) plainSubs(s *jScenario, n int, topic uint64) {
	for i := 0; i < n; i++ {
		x := jSubSpec{topics: []uint64{topic}}
		if g.r.Chance(1, 4) {
			x.topics = []uint64{topic + 1, topic}
		}
		s.subs = append(s.subs, x)
	}
}

func (g *jgen) plainPubs(s *jScenario, threads, lo, hi int, topic uint64, start jCond) {
	for t := 0; t < threads; t++ {
		pt := jPubSpec{start: start}
		for k, n := 0, lo+g.r.Intn(hi-lo+1); k < n; k++ {
			m := jMsgSpec{topics: []uint64{topic}}
			if g.r.Chance(1, 5) {
				m.topics = []uint64{topic, topic + 1}
			}
			pt.msgs = append(pt.msgs, m)
		}
		s.pubs = append(s.pubs, pt)
	}
}

func (g *jgen) tplShutdown(maxSubs int) (*jScenario, string) {
	s := g.base()
	topic := uint64(g.r.Intn(3))
	variant := g.r.Intn(12)
	name := ""
	switch variant {
	case 10, 11:
		// "Shutdown returns its context's error if that ends first": the loop is inside a subscriber's Send (or
		// Flush) and STAYS there until that Shutdown call has returned - a writer that only comes back once the
		// caller of Shutdown has given up and torn the connection down - while other Subscribe and Publish calls are
		// already waiting to be taken by the loop; the context of the Shutdown call has ended before the call, or ends
		// right after it entered / right before it closes j.done.  Shutdown must return that context's error without
		// the loop's help; then the writer returns and everything else ends as usual.  (The park's own time-out lies
		// beyond the scenario deadline: a Shutdown that waits for the loop is a stuck scenario, not a slow one.)
		name = "ctx-ends-first/loop-inside-a-writer-call+calls-waiting"
		g.plainSubs(s, 1+g.r.Intn(2), topic)
		early := len(s.subs)
		g.plainPubs(s, 1, 1, 1, topic, jEvN(34, jAny, uint64(early)))
		pointc := rng.Pick(g.r, []uint64{38, 38, 39})
		s.parks = append(s.parks, jPark(pointc, jAny, 1, 15000000, jAbs(22, 0, 1)))
		inside := jEvN(pointc, jAny, 1)
		nws, nwp := g.r.Intn(3), g.r.Intn(3)
		if nws+nwp == 0 {
			if g.r.Bool() {
				nws = 1
			} else {
				nwp = 1
			}
		}
		for i := 0; i < nws; i++ {
			x := jSubSpec{topics: []uint64{topic}, start: inside}
			if g.r.Chance(1, 5) {
				x.hasCancel, x.cancel = true, jEv(22, 0) // its own context ends once that Shutdown call is over
			}
			s.subs = append(s.subs, x)
		}
		for t := 0; t < nwp; t++ {
			g.plainPubs(s, 1, 1, 1, topic, inside)
		}
		hs := jShutSpec{hasCancel: true, start: jCond{jAbs(pointc, jAny, 1), jAbs(1, jAny, uint64(early+nws)), jAbs(11, jAny, uint64(1+nwp))}}
		switch g.r.Intn(3) {
		case 0: // ended before the call
		case 1:
			hs.cancel = jEv(16, 0)
		case 2:
			hs.cancel = jEv(17, 0)
		}
		s.shuts = append(s.shuts, hs)
		if g.r.Chance(1, 4) {
			s.shuts = append(s.shuts, jShutSpec{start: jEv(22, 0)}) // a second caller, once the first one gave up
		}
	case 8, 9:
		// Shutdown closes j.done while the loop is inside a call into the replayer - the Replay for a subscriber it
		// has accepted and not yet registered, or the Put of a message it has taken - whatever that call then
		// answers (ok, an error, a panic): the loop is held inside the scripted wrapper until shut.closed
		name = "during-replayer-call"
		g.plainSubs(s, 1+g.r.Intn(2), topic)
		early := uint64(len(s.subs))
		if g.r.Chance(3, 5) {
			name += "/replay"
			i := early
			late := jSubSpec{topics: []uint64{topic}, start: jEvN(34, jAny, early)}
			if g.r.Chance(1, 4) {
				late.hasCancel, late.cancel = true, jEv(rng.Pick(g.r, []uint64{41, 18}), rng.Pick(g.r, []uint64{i, jAny}))
			}
			if g.r.Bool() {
				late.idopt = g.someID()
			}
			s.subs = append(s.subs, late)
			// the k-th Replay call is the k-th subscription the loop takes: the late one is the last
			s.repScript = append(jZeros(int(early)), rng.Pick(g.r, []uint64{0, g.werr(), g.werr(), 98}))
			if g.r.Bool() {
				g.plainPubs(s, 1, 1, 2, topic, nil)
			}
			s.parks = append(s.parks, jPark(41, i, 0, 2500, jAbs(18, jAny, 1)))
			s.shuts = append(s.shuts, jShutSpec{start: jEv(rng.Pick(g.r, []uint64{41, 41, 31, 3}), i)})
		} else {
			name += "/put"
			// one publisher thread: the k-th Put call is the k-th message
			g.plainPubs(s, 1, 1, 3, topic, jEvN(34, jAny, early))
			p := uint64(g.r.Intn(jToks(s)))
			s.putScript = append(jZeros(int(p)), rng.Pick(g.r, []uint64{0, g.perr(), g.perr(), 98}))
			s.parks = append(s.parks, jPark(40, p, 0, 2500, jAbs(18, jAny, 1)))
			s.shuts = append(s.shuts, jShutSpec{start: jEv(rng.Pick(g.r, []uint64{25, 25, 12}), p)})
			if g.r.Chance(1, 3) {
				// somebody subscribes while the loop is held there
				s.subs = append(s.subs, jSubSpec{topics: []uint64{topic}, start: jEv(25, p)})
			}
		}
	case 0:
		name = "publishers-parked-at-enter"
		g.plainSubs(s, 1+g.r.Intn(2), topic)
		g.plainPubs(s, 2+g.r.Intn(2), 1, 3, topic, jEvN(34, jAny, uint64(len(s.subs))))
		ntok := uint64(jToks(s))
		if g.r.Bool() {
			s.parks = append(s.parks, jPark(11, jAny, 0, 2000, jAbs(17, jAny, 1)))
		} else {
			s.parks = append(s.parks, jPark(11, uint64(g.r.Intn(int(ntok))), 0, 2000, jAbs(17, jAny, 1)),
				jPark(11, uint64(g.r.Intn(int(ntok))), 0, 2000, jAbs(18, jAny, 1)))
		}
		var st jCond
		switch g.r.Intn(3) {
		case 0:
			st = jEvN(11, jAny, uint64(len(s.pubs)))
		case 1:
			st = jEv(12, uint64(g.r.Intn(int(ntok))))
		case 2:
			st = jEvN(34, jAny, uint64(len(s.subs)))
		}
		s.shuts = append(s.shuts, jShutSpec{start: st})
	case 1:
		name = "continuous-publishing"
		g.plainSubs(s, 1+g.r.Intn(3), topic)
		var st jCond
		if g.r.Bool() {
			st = jEvN(34, jAny, uint64(len(s.subs)))
		}
		g.plainPubs(s, 3, 3, 5, topic, st)
		ntok := jToks(s)
		if g.r.Bool() {
			s.shuts = append(s.shuts, jShutSpec{start: jEv(12, uint64(g.r.Intn(ntok)))})
		} else {
			s.shuts = append(s.shuts, jShutSpec{start: jEvN(25, jAny, uint64(1+g.r.Intn(ntok)))})
		}
		if s.policy == 0 {
			s.policy = 2
		}
	case 2:
		name = "during-fan-out"
		g.plainSubs(s, 2+g.r.Intn(maxSubs-1), topic)
		g.plainPubs(s, 1, 2, 3, topic, jEvN(34, jAny, uint64(len(s.subs))))
		nth := uint64(1 + g.r.Intn(2*len(s.subs)))
		pointc := rng.Pick(g.r, []uint64{38, 38, 39})
		s.parks = append(s.parks, jPark(pointc, jAny, nth, 2500, jAbs(18, jAny, 1)))
		if g.r.Bool() {
			// a subscriber's context ends while the loop is inside the fan-out
			v := g.r.Intn(len(s.subs))
			s.subs[v].hasCancel, s.subs[v].cancel = true, jEvN(pointc, jAny, nth)
		}
		if g.r.Bool() {
			s.shuts = append(s.shuts, jShutSpec{start: jEvN(pointc, jAny, nth)})
		} else {
			s.shuts = append(s.shuts, jShutSpec{start: jEv(25, (nth-1)/uint64(len(s.subs)))})
		}
	case 3:
		name = "concurrent-shutdowns"
		g.plainSubs(s, 1+g.r.Intn(2), topic)
		g.plainPubs(s, 1+g.r.Intn(2), 1, 3, topic, nil)
		nsh := 2 + g.r.Intn(2)
		var st jCond
		if g.r.Bool() {
			st = jEv(12, uint64(g.r.Intn(jToks(s))))
		}
		for h := 0; h < nsh; h++ {
			hs := jShutSpec{start: st}
			if g.r.Chance(1, 5) {
				hs.hasCancel = true
				if g.r.Bool() {
					hs.cancel = jEv(16, uint64(h))
				}
			}
			s.shuts = append(s.shuts, hs)
		}
		pointc := rng.Pick(g.r, []uint64{16, 16, 17})
		s.parks = append(s.parks, jPark(pointc, jAny, 0, 2500, jAbs(pointc, jAny, uint64(nsh))))
	case 4:
		name = "shutdown-ctx-cancelled"
		g.plainSubs(s, 1+g.r.Intn(3), topic)
		g.plainPubs(s, 1, 1, 3, topic, nil)
		hs := jShutSpec{start: jEv(15, uint64(g.r.Intn(jToks(s)))), hasCancel: true}
		switch g.r.Intn(3) {
		case 0: // cancelled before the call
		case 1:
			hs.cancel = jEv(18, 0)
		case 2:
			hs.cancel = jEv(16, 0)
		}
		s.shuts = append(s.shuts, hs)
		// keep the loop from finishing so that the cancellation is what ends the wait
		switch g.r.Intn(3) {
		case 0:
			s.parks = append(s.parks, jPark(36, jAny, 0, 2000, jAbs(20, 0, 1)))
		case 1:
			s.parks = append(s.parks, jPark(29, jAny, 1, 2000, jAbs(20, 0, 1)))
		}
	case 5:
		name = "calls-after-shutdown"
		g.plainSubs(s, 1+g.r.Intn(2), topic)
		g.plainPubs(s, 1, 1, 2, topic, nil)
		s.shuts = append(s.shuts, jShutSpec{start: jEv(15, 0)})
		after := func() jCond {
			return jEv(rng.Pick(g.r, []uint64{17, 18, 18, 22, 37, 36}), jAny)
		}
		for i, n := 0, 1+g.r.Intn(2); i < n; i++ {
			x := jSubSpec{topics: []uint64{topic}, start: after()}
			if g.r.Chance(1, 3) {
				x.hasCancel = true
			}
			s.subs = append(s.subs, x)
		}
		g.plainPubs(s, 1, 1, 2, topic, after())
		if g.r.Bool() {
			s.shuts = append(s.shuts, jShutSpec{start: after()})
		}
	case 6:
		name = "subscribe-accepted-not-registered"
		g.plainSubs(s, 1+g.r.Intn(2), topic)
		i := uint64(len(s.subs))
		late := jSubSpec{topics: []uint64{topic}}
		if g.r.Bool() {
			late.start = jEvN(34, jAny, i)
		}
		if g.r.Chance(1, 3) {
			late.hasCancel, late.cancel = true, jEv(3, i)
		}
		s.subs = append(s.subs, late)
		g.plainPubs(s, 1, 1, 3, topic, nil)
		pointc := rng.Pick(g.r, []uint64{31, 41, 3})
		s.parks = append(s.parks, jPark(pointc, i, 0, 2000, jAbs(rng.Pick(g.r, []uint64{17, 18}), jAny, 1)))
		s.shuts = append(s.shuts, jShutSpec{start: jEv(rng.Pick(g.r, []uint64{3, 31, 1}), i)})
	case 7:
		name = "publish-in-flight"
		g.plainSubs(s, 1+g.r.Intn(maxSubs), topic)
		var st jCond
		if g.r.Chance(2, 3) {
			st = jEvN(34, jAny, uint64(len(s.subs)))
		}
		g.plainPubs(s, 1+g.r.Intn(3), 1, 3, topic, st)
		p := uint64(g.r.Intn(jToks(s)))
		// the loop has taken message p and is held right there until Shutdown closed j.done
		pointc := rng.Pick(g.r, []uint64{25, 25, 40, 26, 27})
		s.parks = append(s.parks, jPark(pointc, p, 0, 2500, jAbs(18, jAny, 1)))
		s.shuts = append(s.shuts, jShutSpec{start: jEv(rng.Pick(g.r, []uint64{12, 25}), p)})
	}
	s.shuts = append(s.shuts, jFinalShut())
	return s, name
}

// ---- (d) cancellation instants ----------------------------------------------------------------------

func (g *jgen) tplCancel(maxSubs int) *jScenario {
	s := g.base()
	topic := uint64(g.r.Intn(3))
	nsubs := 2 + g.r.Intn(maxSubs-1)
	nth := 1
	if g.r.Bool() {
		nth = 2
	}
	g.plainPubs(s, nth, 2, 4, topic, nil)
	ntok := jToks(s)
	if g.r.Bool() {
		for t := range s.pubs {
			s.pubs[t].start = jEvN(34, jAny, uint64(nsubs))
		}
	}
	for i := 0; i < nsubs; i++ {
		x := jSubSpec{topics: []uint64{topic}}
		if g.r.Chance(1, 4) {
			x.topics = []uint64{topic, topic + 1}
		}
		ui := uint64(i)
		switch g.r.Intn(8) {
		case 0:
			x.hasCancel = true // before Subscribe is called
		case 1:
			x.hasCancel, x.cancel = true, jEv(34, ui)
		case 2:
			x.hasCancel, x.cancel = true, jEvN(38, ui, uint64(1+g.r.Intn(3)))
		case 3:
			x.hasCancel, x.cancel = true, jEv(25, uint64(g.r.Intn(ntok)))
		case 4:
			x.hasCancel, x.cancel = true, jEv(12, uint64(g.r.Intn(ntok)))
		case 5:
			x.hasCancel, x.cancel = true, jEv(3, ui)
		case 6:
			x.hasCancel, x.cancel = true, jEvN(39, ui, uint64(1+g.r.Intn(2)))
		}
		s.subs = append(s.subs, x)
	}
	if nsubs > 2 && g.r.Bool() {
		// one subscriber joins while the others are being served
		s.subs[nsubs-1].start = jEv(12, uint64(g.r.Intn(ntok)))
		for t := range s.pubs {
			if len(s.pubs[t].start) > 0 {
				s.pubs[t].start = jEvN(34, jAny, uint64(nsubs-1))
			}
		}
	}
	switch g.r.Intn(4) {
	case 0:
		s.parks = append(s.parks, jPark(5, jAny, 0, 1000, jRel(25, jAny, 1)))
	case 1:
		s.parks = append(s.parks, jPark(25, jAny, 0, 1000, jRel(5, jAny, 1)))
	case 2:
		s.parks = append(s.parks, jPark(38, jAny, 0, 800, jRel(10, jAny, 1)))
	}
	s.shuts = []jShutSpec{jFinalShut()}
	return s
}

// ---- (e) replayer faults (scripted wrapper, no inner replayer) -------------------------------------

func (g *jgen) tplRepFault(maxSubs int) (*jScenario, string) {
	s := g.base()
	topic := uint64(g.r.Intn(3))
	variant := g.r.Intn(5)
	name := ""
	nsubs := 1 + g.r.Intn(maxSubs)
	g.plainSubs(s, nsubs, topic)
	fault := func(panics, put bool) uint64 {
		switch {
		case panics:
			return 98
		case put:
			return g.perr()
		}
		return g.werr()
	}
	switch variant {
	case 0, 1:
		name = "put-error"
		if variant == 1 {
			name = "put-panic"
		}
		g.plainPubs(s, 1+g.r.Intn(2), 2, 4, topic, jEvN(34, jAny, uint64(nsubs)))
		ntok := jToks(s)
		s.putScript = append(jZeros(g.r.Intn(ntok)), fault(variant == 1, true))
		if g.r.Chance(1, 3) {
			s.putScript = append(s.putScript, 0, fault(false, true))
		}
	case 2, 3:
		name = "replay-error"
		if variant == 3 {
			name = "replay-panic"
		}
		s.repScript = append(jZeros(g.r.Intn(nsubs)), fault(variant == 3, false))
		if g.r.Bool() {
			for i := 1; i < nsubs; i++ {
				s.subs[i].start = jEvN(31, jAny, uint64(i)) // Subscribe calls reach the loop one after the other
			}
		}
		if g.r.Bool() {
			// somebody subscribes after the fault
			s.subs = append(s.subs, jSubSpec{topics: []uint64{topic}, start: jEvN(32, jAny, uint64(len(s.repScript)))})
		}
		g.plainPubs(s, 1, 2, 4, topic, jEvN(31, jAny, uint64(nsubs)))
	case 4:
		name = "mixed"
		g.plainPubs(s, 1+g.r.Intn(2), 2, 4, topic, nil)
		for k, n := 0, jToks(s); k < n; k++ {
			v := uint64(0)
			if g.r.Chance(1, 4) {
				v = fault(g.r.Chance(1, 3), true)
			}
			s.putScript = append(s.putScript, v)
		}
		for k := 0; k < nsubs; k++ {
			v := uint64(0)
			if g.r.Chance(1, 3) {
				v = fault(g.r.Chance(1, 3), false)
			}
			s.repScript = append(s.repScript, v)
		}
	}
	if g.r.Chance(1, 4) {
		s.subs[0].script = append(jZeros(g.r.Intn(4)), g.werr())
		s.subs[0].selfCancel = g.r.Bool()
	}
	// Last-Event-ID presented by nobody / everybody / some: x every verdict of the Replay for that subscription
	g.presentIDs(s, g.r.Intn(3), nil)
	s.shuts = []jShutSpec{jFinalShut()}
	return s, name
}

// ---- (e') replayer fault HISTORIES: strictly sequential Subscribe / Publish steps ---------------------
//
// Two faults of the replayer one after the other - every ordered pair of {Replay error, Replay panic, Put error,
// Put panic} (n walks through the 16 pairs) - then new subscribers and publishes.  Every step starts when the loop
// is through with the previous one, so the k-th Replay / Put call of the wrapper is the k-th step of its kind and
// what the loop remembers from one call is there when the next one is handled.

type jSeqStep struct {
	sub     bool
	verdict uint64
}

func (g *jgen) tplFaultSeq(n, maxSubs int) (*jScenario, string) {
	s := g.base()
	topic := uint64(g.r.Intn(3))
	names := []string{"replay-error", "replay-panic", "put-error", "put-panic"}
	f1, f2 := n%4, (n/4)%4
	fault := func(f int) jSeqStep {
		v := uint64(98)
		switch {
		case f == 0:
			v = g.werr()
		case f == 2:
			v = g.perr()
		}
		return jSeqStep{sub: f < 2, verdict: v}
	}
	steps := []jSeqStep{}
	if g.r.Chance(1, 3) {
		steps = append(steps, jSeqStep{sub: g.r.Bool()})
	}
	steps = append(steps, fault(f1))
	if g.r.Chance(1, 4) {
		steps = append(steps, jSeqStep{sub: g.r.Bool()})
	}
	steps = append(steps, fault(f2))
	// afterwards: somebody new subscribes, something is published, then a few more of both
	steps = append(steps, jSeqStep{sub: true}, jSeqStep{})
	for k, m := 0, g.r.Intn(3); k < m; k++ {
		st := jSeqStep{sub: g.r.Bool()}
		if g.r.Chance(1, 5) {
			st.verdict = g.werr() // matters only while the replayer is still in use
			if !st.sub {
				st.verdict = g.perr()
			}
		}
		steps = append(steps, st)
	}
	if steps[len(steps)-1].sub {
		steps = append(steps, jSeqStep{})
	}
	// bystanders registered from the start
	nby := g.r.Intn(2)
	if maxSubs > 4 {
		nby = g.r.Intn(3)
	}
	g.plainSubs(s, nby, topic)
	s.repScript = jZeros(nby)
	if nby > 0 && g.r.Chance(1, 4) {
		s.subs[0].script = append(jZeros(g.r.Intn(4)), g.werr())
		s.subs[0].selfCancel = g.r.Bool()
	}
	var prev jCond
	if nby > 0 {
		prev = jEvN(34, jAny, uint64(nby))
	}
	pt := jPubSpec{}
	for _, st := range steps {
		if st.sub {
			i := uint64(len(s.subs))
			x := jSubSpec{topics: []uint64{topic}, start: prev}
			if g.r.Chance(1, 5) {
				x.topics = []uint64{topic + 1, topic}
			}
			s.subs = append(s.subs, x)
			s.repScript = append(s.repScript, st.verdict)
			prev = jEv(31, i) // the loop took the subscription: it is through with it before it takes anything else
		} else {
			p := uint64(len(pt.msgs))
			pt.msgs = append(pt.msgs, jMsgSpec{topics: []uint64{topic}, pre: prev})
			s.putScript = append(s.putScript, st.verdict)
			prev = jEv(15, p)
		}
	}
	s.pubs = append(s.pubs, pt)
	// who presents a Last-Event-ID: nobody, the subscribers whose Replay is scripted to fail or panic, everybody
	// (n walks through the three for each of the 16 pairs)
	switch (n / 16) % 3 {
	case 1:
		g.presentIDs(s, 3, func(i int) bool { return i < len(s.repScript) && s.repScript[i] != 0 })
	case 2:
		g.presentIDs(s, 1, nil)
	}
	s.shuts = []jShutSpec{jFinalShut()}
	return s, names[f1] + "+" + names[f2]
}

// tplPutErrRun: k publications in a row that the replayer refuses (scripted Put errors of every character), then a
// subscriber, an accepted publication, another subscriber (with a Replay verdict), one more refused and one more accepted
// publication - the replayer is still asked every time.
func (g *jgen) tplPutErrRun(k, maxSubs int) *jScenario {
	s := g.base()
	topic := uint64(g.r.Intn(3))
	steps := []jSeqStep{}
	for i := 0; i < k; i++ {
		steps = append(steps, jSeqStep{verdict: g.perr()})
	}
	steps = append(steps, jSeqStep{sub: true}, jSeqStep{}, jSeqStep{sub: true}, jSeqStep{verdict: g.perr()}, jSeqStep{})
	nby := 1 + g.r.Intn(2)
	g.plainSubs(s, nby, topic)
	s.repScript = jZeros(nby)
	prev := jEvN(34, jAny, uint64(nby))
	pt := jPubSpec{}
	for _, st := range steps {
		if st.sub {
			i := uint64(len(s.subs))
			s.subs = append(s.subs, jSubSpec{topics: []uint64{topic}, start: prev})
			s.repScript = append(s.repScript, st.verdict)
			prev = jEv(31, i)
		} else {
			p := uint64(len(pt.msgs))
			pt.msgs = append(pt.msgs, jMsgSpec{topics: []uint64{topic}, pre: prev})
			s.putScript = append(s.putScript, st.verdict)
			prev = jEv(15, p)
		}
	}
	s.pubs = append(s.pubs, pt)
	s.shuts = []jShutSpec{jFinalShut()}
	return s
}

// ---- (e'') message shapes: messages without data through every kind of replayer --------------------------
//
// The wrapper alone, or a real FiniteReplayer / ValidReplayer behind it, assigning IDs or not: the message
// that is fanned out is the caller's own or the copy Put returned (for &sse.Message{} and an ID-assigning
// replayer: a message that consists of the assigned ID only).  Late subscribers get the stored copies replayed.

func (g *jgen) tplShapes(maxSubs int) (*jScenario, string) {
	s := g.base()
	topic := uint64(g.r.Intn(3))
	rk := g.r.Intn(5)
	name := []string{"no-replayer", "finite/auto", "valid/auto", "finite/manual", "valid/manual"}[rk]
	auto := rk == 1 || rk == 2
	switch rk {
	case 1, 3:
		s.kind, s.cap = 1, uint64(2+g.r.Intn(4))
	case 2, 4:
		s.kind = 2
	}
	if auto {
		s.auto = 1
	}
	nsubs := 1 + g.r.Intn(maxSubs)
	g.plainSubs(s, nsubs, topic)
	var start jCond
	if g.r.Chance(3, 4) {
		start = jEvN(34, jAny, uint64(nsubs))
	}
	nblank := 0
	for t, nt := 0, 1+g.r.Intn(2); t < nt; t++ {
		pt := jPubSpec{start: start}
		first := jToks(s)
		for k, m := 0, 2+g.r.Intn(3); k < m; k++ {
			ms := jMsgSpec{topics: []uint64{topic}}
			if g.r.Chance(1, 5) {
				ms.topics = []uint64{topic, topic + 1}
			}
			if g.r.Bool() {
				ms.shape = 1
				nblank++
			}
			// manual IDs: nearly every message has one (one without is refused by Put and still delivered);
			// automatic IDs / no replayer: nearly none has
			if (rk >= 3) != g.r.Chance(1, 8) {
				ms.idopt = jID("m" + strconv.Itoa(first+k))
			}
			pt.msgs = append(pt.msgs, ms)
		}
		s.pubs = append(s.pubs, pt)
	}
	if nblank == 0 {
		s.pubs[0].msgs[g.r.Intn(len(s.pubs[0].msgs))].shape = 1
	}
	ntok := jToks(s)
	if g.r.Bool() {
		// somebody subscribes later and has the stored copies replayed
		x := jSubSpec{topics: []uint64{topic}, start: jEv(15, uint64(g.r.Intn(ntok)))}
		switch {
		case rk == 0 || g.r.Chance(1, 4):
		case auto:
			x.idopt = jID(strconv.Itoa(g.r.Intn(ntok)))
		default:
			x.idopt = jID("m" + strconv.Itoa(g.r.Intn(ntok)))
		}
		s.subs = append(s.subs, x)
	}
	if g.r.Chance(1, 5) {
		v := g.r.Intn(len(s.subs))
		s.subs[v].script = append(jZeros(g.r.Intn(5)), g.werr())
		s.subs[v].selfCancel = g.r.Bool()
	}
	if g.r.Chance(1, 6) {
		v := g.r.Intn(len(s.subs))
		s.subs[v].hasCancel, s.subs[v].cancel = true, jEvN(38, uint64(v), uint64(1+g.r.Intn(2)))
	}
	s.shuts = []jShutSpec{jFinalShut()}
	return s, name
}

// ---- (g) sessions of an sse.Server next to direct subscribers -------------------------------------------
//
// Subscribers come in through Server.ServeHTTP: OnSession answers each its own topic list of length 0 (nil or empty:
// the default topic), 1, 2 or 3 - or the Server has no OnSession at all - next to subscribers that call Joe.Subscribe
// themselves; publications go through Server.Publish without topics (the default topic), with explicit topics (the
// default topic among them or not) and through Joe.Publish.  The oracle is the one of every class: a message goes to
// exactly the subscribers whose topics intersect its topics.

func (g *jgen) tplServer(n, maxSubs int) *jScenario {
	s := g.base()
	s.noOnSession = n%5 == 4
	nsubs := 2 + g.r.Intn(maxSubs-1)
	for i := 0; i < nsubs; i++ {
		x := jSubSpec{via: jViaServer}
		l := g.r.Intn(4) // the length of the list OnSession answers
		if i == 0 {
			l = n % 4
		}
		if i == 1 {
			l = (n / 4) % 4
		}
		switch {
		case g.r.Chance(1, 4):
			// a subscriber of its own, on the default topic or another
			x.via = 0
			x.topics = g.topics(1+g.r.Intn(2), 3)
		case s.noOnSession || l == 0:
			if g.r.Bool() {
				x.via |= jViaNil
			}
		default:
			x.topics = g.topics(l, 4)
		}
		if g.r.Bool() {
			x.via |= jViaSession
		}
		if i > 0 && g.r.Bool() {
			x.start = jEv(34, uint64(i-1)) // one after the other
		}
		if g.r.Chance(1, 8) {
			x.script = append(jZeros(g.r.Intn(5)), g.werr())
			x.selfCancel = g.r.Bool()
		}
		if g.r.Chance(1, 8) {
			x.hasCancel, x.cancel = true, jEvN(38, uint64(i), uint64(1+g.r.Intn(2)))
		}
		if g.r.Chance(1, 6) {
			x.idopt = g.someID()
		}
		s.subs = append(s.subs, x)
	}
	var start jCond
	if g.r.Chance(4, 5) {
		start = jEvN(34, jAny, uint64(nsubs))
	}
	for t, nt := 0, 1+g.r.Intn(2); t < nt; t++ {
		pt := jPubSpec{start: start}
		reuse := g.r.Chance(1, 4)
		for k, m := 0, 2+g.r.Intn(3); k < m; k++ {
			ms := jMsgSpec{}
			if g.r.Chance(2, 3) {
				ms.flags = jPubServer
				switch g.r.Intn(6) {
				case 0, 1: // no topics: the default topic
				case 2:
					ms.topics = []uint64{0} // the default topic, named
				default:
					ms.topics = g.topics(1+g.r.Intn(2), 4)
				}
			} else {
				ms.topics = g.topics(1+g.r.Intn(2), 4)
				if g.r.Chance(1, 3) {
					ms.topics = []uint64{0}
				}
			}
			if reuse {
				ms.flags |= jPubReuse
			}
			pt.msgs = append(pt.msgs, ms)
		}
		s.pubs = append(s.pubs, pt)
	}
	if g.r.Chance(1, 4) {
		// a session that joins later
		x := jSubSpec{via: jViaServer, start: jEv(15, uint64(g.r.Intn(jToks(s))))}
		if !s.noOnSession {
			x.topics = g.topics(g.r.Intn(3), 4)
		}
		s.subs = append(s.subs, x)
	}
	s.shuts = []jShutSpec{jFinalShut()}
	return s
}

// ---- (h) a publisher that keeps ONE topics slice ---------------------------------------------------------
//
// Every Publish call of a thread passes the same slice object; between two calls - once the delivery round of the
// previous one is over - the publisher rewrites its elements in place (same length: every element replaced; shorter:
// resliced; longer: a new buffer).  Nobody subscribes in between (or, sometimes, somebody does).  The subscribers'
// topic sets make consecutive publications go to different recipients.

func (g *jgen) tplReuse(maxSubs int) *jScenario {
	s := g.base()
	universe := 2 + g.r.Intn(3)
	nsubs := 2 + g.r.Intn(maxSubs-1)
	for i := 0; i < nsubs; i++ {
		x := jSubSpec{topics: []uint64{uint64(i % universe)}}
		if g.r.Chance(1, 4) {
			x.topics = g.topics(2, universe)
		}
		if g.r.Chance(1, 10) {
			x.script = append(jZeros(g.r.Intn(5)), g.werr())
			x.selfCancel = g.r.Bool()
		}
		s.subs = append(s.subs, x)
	}
	for t, nt := 0, 1+g.r.Intn(2); t < nt; t++ {
		pt := jPubSpec{start: jEvN(34, jAny, uint64(nsubs))}
		l := 1 + g.r.Intn(2)
		var prev []uint64
		for k, m := 0, 3+g.r.Intn(4); k < m; k++ {
			ll := l
			if g.r.Chance(1, 6) {
				ll = 1 + g.r.Intn(3)
			}
			ms := jMsgSpec{topics: g.topics(ll, universe), flags: jPubReuse}
			for try := 0; try < 4 && len(prev) == len(ms.topics) && prev[0] == ms.topics[0]; try++ {
				ms.topics = g.topics(ll, universe) // rather a different list than the one before
			}
			if g.r.Chance(1, 4) {
				ms.flags |= jPubServer
			}
			prev = ms.topics
			pt.msgs = append(pt.msgs, ms)
		}
		s.pubs = append(s.pubs, pt)
	}
	if g.r.Chance(1, 5) {
		s.subs = append(s.subs, jSubSpec{topics: g.topics(1, universe), start: jEv(15, uint64(g.r.Intn(jToks(s))))})
	}
	if g.r.Chance(1, 6) {
		s.shuts = append(s.shuts, jShutSpec{start: jEv(12, uint64(g.r.Intn(jToks(s))))})
	}
	s.shuts = append(s.shuts, jFinalShut())
	return s
}

// ---- (j) publications whose topic list names a topic more than once ---------------------------------------
//
// Every kind of replayer (none, the scripted wrapper, FiniteReplayer, ValidReplayer; automatic and manual IDs); a
// subscriber on the default topic, one on topic 1, one on topics 1 and 2, sometimes one on the default topic and 2;
// publications ["a","a"], ["b","a","b"], ["a","a","a"], ["a","b","b"] ... to topics 1, 2 (and some to the default
// topic); now and then somebody resumes afterwards and has the stored copies replayed.

func (g *jgen) tplDupTopics(maxSubs int) (*jScenario, string) {
	s := g.base()
	rk := g.r.Intn(6)
	name := []string{"no-replayer", "finite/auto", "valid/auto", "finite/manual", "valid/manual", "scripted-wrapper"}[rk]
	auto := rk == 1 || rk == 2
	switch rk {
	case 0:
		s.kind = 4
	case 1, 3:
		s.kind, s.cap = 1, uint64(2+g.r.Intn(4))
	case 2, 4:
		s.kind = 2
	}
	if auto {
		s.auto = 1
	}
	pool := [][]uint64{{0}, {1}, {1, 2}, {0, 2}, {2}, {0}}
	nsubs := 2 + g.r.Intn(maxSubs-1)
	for i := 0; i < nsubs; i++ {
		s.subs = append(s.subs, jSubSpec{topics: pool[i%len(pool)]})
	}
	lists := [][]uint64{{1}, {2}, {1, 2}, {2, 1}, {1}, {2}, {0}, {0, 1}, {3}}
	for t, nt := 0, 1+g.r.Intn(2); t < nt; t++ {
		pt := jPubSpec{start: jEvN(34, jAny, uint64(nsubs))}
		first := jToks(s)
		for k, m := 0, 2+g.r.Intn(3); k < m; k++ {
			ms := jMsgSpec{topics: g.dupTopics(rng.Pick(g.r, lists))}
			if (rk == 3 || rk == 4) != g.r.Chance(1, 10) {
				ms.idopt = jID("m" + strconv.Itoa(first+k))
			}
			pt.msgs = append(pt.msgs, ms)
		}
		s.pubs = append(s.pubs, pt)
	}
	ntok := jToks(s)
	if g.r.Chance(1, 3) {
		x := jSubSpec{topics: rng.Pick(g.r, pool), start: jEv(15, uint64(g.r.Intn(ntok)))}
		switch {
		case rk == 0 || rk == 5 || g.r.Chance(1, 4):
		case auto:
			x.idopt = jID(strconv.Itoa(g.r.Intn(ntok)))
		default:
			x.idopt = jID("m" + strconv.Itoa(g.r.Intn(ntok)))
		}
		s.subs = append(s.subs, x)
	}
	s.shuts = []jShutSpec{jFinalShut()}
	return s, name
}

// ---- (i) one writer object subscribed several times; writers of uncomparable type ------------------------
//
// 2-3 subscriptions on different topics share ONE writer object (the same pointer / equal struct values), 0-2 other
// subscribers stand next to them (own writers - pointers or uncomparable values - on one of those topics).  A round
// of publications reaches every subscription; the writer answers an error for ONE of them (the k-th call of that
// subscription, or never); further rounds follow.  Every publication is for one member of the group at most.
// uncomparable = true: nobody shares; every Client value is of an uncomparable dynamic type.

func (g *jgen) tplClients(maxSubs int, uncomparable bool) (*jScenario, string) {
	s := g.base()
	n := 2 + g.r.Intn(2)
	c := uint64(jClientShare)
	name := "shared/the-same-pointer"
	if g.r.Bool() {
		c, name = jClientShareV, "shared/equal-struct-values"
	}
	if uncomparable {
		c, name = uint64(1+g.r.Intn(3)), "uncomparable"
	}
	base := uint64(g.r.Intn(2)) // with 0 one member is on the default topic
	for i := 0; i < n; i++ {
		x := jSubSpec{topics: []uint64{base + uint64(i)}, client: c}
		if g.r.Chance(1, 4) {
			x.topics = append(x.topics, 7+uint64(i)) // a second topic nobody else has
		}
		if uncomparable && g.r.Chance(1, 3) {
			x.topics = []uint64{base}
		}
		s.subs = append(s.subs, x)
	}
	for i, others := 0, g.r.Intn(3); i < others && len(s.subs) < maxSubs+1; i++ {
		x := jSubSpec{topics: []uint64{base + uint64(g.r.Intn(n))}}
		if uncomparable || g.r.Chance(1, 3) {
			x.client = uint64(1 + g.r.Intn(3))
		}
		s.subs = append(s.subs, x)
	}
	if !g.r.Chance(1, 5) {
		f := g.r.Intn(n)
		s.subs[f].script = append(jZeros(g.r.Intn(4)), g.werr())
		s.subs[f].selfCancel = g.r.Chance(1, 3)
	}
	nsubs := uint64(len(s.subs))
	pt := jPubSpec{start: jEvN(34, jAny, nsubs)}
	for round, rounds := 0, 2+g.r.Intn(2); round < rounds; round++ {
		for i := 0; i < n; i++ {
			m := jMsgSpec{topics: []uint64{base + uint64(i)}}
			if g.r.Chance(1, 5) {
				m.topics = []uint64{11, base + uint64(i)} // and a topic nobody follows
			}
			pt.msgs = append(pt.msgs, m)
		}
	}
	s.pubs = append(s.pubs, pt)
	if g.r.Chance(1, 4) {
		// a member joins late (its Replay runs while the others are registered)
		s.subs[n-1].start = jEv(15, uint64(g.r.Intn(n)))
		s.pubs[0].start = jEvN(34, jAny, nsubs-1)
	}
	if g.r.Chance(1, 5) {
		v := g.r.Intn(n)
		s.subs[v].hasCancel, s.subs[v].cancel = true, jEvN(38, uint64(v), 1)
	}
	s.shuts = []jShutSpec{jFinalShut()}
	return s, name
}

// ---- random mix -------------------------------------------------------------------------------------

func (g *jgen) randCondSub(i uint64, ntok, nsubs int) jCond {
	switch g.r.Intn(8) {
	case 0:
		return jEv(12, uint64(g.r.Intn(ntok)))
	case 1:
		return jEv(15, uint64(g.r.Intn(ntok)))
	case 2:
		return jEv(34, uint64(g.r.Intn(nsubs)))
	case 3:
		return jEv(18, jAny)
	}
	return nil
}

func (g *jgen) tplRandom(maxSubs int) *jScenario {
	s := g.base()
	universe := 2 + g.r.Intn(3)
	nsubs := 1 + g.r.Intn(maxSubs)
	for t, n := 0, 1+g.r.Intn(3); t < n; t++ {
		pt := jPubSpec{}
		for k, m := 0, 1+g.r.Intn(5); k < m; k++ {
			pt.msgs = append(pt.msgs, jMsgSpec{topics: g.topics(1+g.r.Intn(3), universe)})
		}
		if g.r.Chance(1, 3) {
			pt.start = jEvN(34, jAny, uint64(1+g.r.Intn(nsubs)))
		}
		s.pubs = append(s.pubs, pt)
	}
	ntok := jToks(s)
	for i := 0; i < nsubs; i++ {
		ui := uint64(i)
		x := jSubSpec{topics: g.topics(1+g.r.Intn(3), universe), start: g.randCondSub(ui, ntok, nsubs)}
		if g.r.Chance(2, 5) {
			x.script = append(jZeros(g.r.Intn(6)), g.werr())
			x.selfCancel = g.r.Bool()
		}
		switch g.r.Intn(8) {
		case 0:
			x.hasCancel = true
		case 1:
			x.hasCancel, x.cancel = true, jEv(34, ui)
		case 2:
			x.hasCancel, x.cancel = true, jEvN(38, ui, uint64(1+g.r.Intn(3)))
		case 3:
			x.hasCancel, x.cancel = true, jEv(25, uint64(g.r.Intn(ntok)))
		case 4:
			x.hasCancel, x.cancel = true, jEv(28, ui)
		}
		s.subs = append(s.subs, x)
	}
	for h, n := 0, g.r.Intn(3); h < n; h++ {
		hs := jShutSpec{}
		switch g.r.Intn(4) {
		case 0:
			hs.start = jEv(12, uint64(g.r.Intn(ntok)))
		case 1:
			hs.start = jEv(15, uint64(g.r.Intn(ntok)))
		case 2:
			hs.start = jEvN(38, jAny, uint64(1+g.r.Intn(4)))
		}
		switch g.r.Intn(5) {
		case 0:
			hs.hasCancel = true
		case 1:
			hs.hasCancel, hs.cancel = true, jEv(18, uint64(h))
		}
		s.shuts = append(s.shuts, hs)
	}
	s.shuts = append(s.shuts, jFinalShut())
	menu := []*jParkSpec{
		jPark(11, jAny, uint64(g.r.Intn(3)), 1500, jAbs(17, jAny, 1)),
		jPark(5, jAny, 0, 1000, jRel(24, jAny, 1)),
		jPark(38, jAny, uint64(1+g.r.Intn(4)), 1500, jAbs(18, jAny, 1)),
		jPark(28, jAny, 0, 1000, jAbs(5, jAny, 1)),
		jPark(16, jAny, 0, 1500, jAbs(16, jAny, 2)),
		jPark(31, jAny, 0, 1000, jRel(11, jAny, 1)),
		jPark(35, jAny, 0, 800, jRel(11, jAny, 1)),
		jPark(27, jAny, uint64(1+g.r.Intn(3)), 800, jRel(10, jAny, 1)),
		jPark(25, jAny, uint64(1+g.r.Intn(3)), 1500, jAbs(18, jAny, 1)),
	}
	for k, n := 0, g.r.Intn(3); k < n; k++ {
		s.parks = append(s.parks, rng.Pick(g.r, menu))
	}
	if g.r.Chance(1, 5) {
		for k := 0; k < ntok; k++ {
			v := uint64(0)
			if g.r.Chance(1, 5) {
				v = rng.Pick(g.r, []uint64{98, g.perr(), g.perr()})
			}
			s.putScript = append(s.putScript, v)
		}
	}
	if g.r.Chance(1, 5) {
		for k := 0; k < nsubs; k++ {
			v := uint64(0)
			if g.r.Chance(1, 4) {
				v = rng.Pick(g.r, []uint64{98, g.werr(), g.werr()})
			}
			s.repScript = append(s.repScript, v)
		}
		g.presentIDs(s, 2, nil)
	}
	return s
}

func genJoe(c *Ctx) {
	g := &jgen{c: c, r: c.R}
	mult, maxSubs := 2, 4 // quick: 1219 scenarios, about 10 s
	if c.Thorough {
		mult, maxSubs = 20, 8 // thorough: 9760 scenarios, about 100 s
	}
	for n := 0; n < 60*mult; n++ {
		g.emit("joe", "topics", g.tplTopics(maxSubs))
	}
	// every spelling of the topic names x the topic-shape scenarios (and, below, sprinkled over every class)
	for rep := 0; rep < mult; rep++ {
		for sp := 1; sp < len(jSpellings); sp++ {
			s := g.tplTopics(maxSubs)
			s.spell = uint64(sp)
			g.emit("joe", "topic-names/"+jSpellings[sp].name, s)
		}
	}
	// names that are joins of other names: subscriptions on {a, b}, on {a<sep>b} (and variants) side by side, publications
	// on the single names, the joined name and both; every separator, three shapes
	for sp := 1; sp < len(jSpellings); sp++ {
		if _, ok := jJoinSeps[jSpellings[sp].name]; !ok {
			continue
		}
		for shape := 0; shape < 3*mult/2; shape++ {
			s := g.tplJoined(shape)
			s.spell = uint64(sp)
			g.emit("joe", "topic-names-joined/"+jSpellings[sp].name, s)
		}
	}
	for n := 0; n < 80*mult; n++ {
		g.emit("joe", "failure-x-cancel", g.tplFail(maxSubs-1, false))
	}
	for n := 0; n < 30*mult; n++ {
		s := g.tplFail(maxSubs-1, true)
		if n%3 != 0 {
			s.kind = 4 // two in three against a Joe without a replayer
		}
		g.emit("joe", "failure-then-late-unsubscription", s)
	}
	for n := 0; n < 100*mult; n++ {
		s, name := g.tplShutdown(maxSubs)
		g.emit("joe", "shutdown/"+name, s)
	}
	for n := 0; n < 40*mult; n++ {
		g.emit("joe", "cancel", g.tplCancel(maxSubs))
	}
	for n := 0; n < 40*mult; n++ {
		s, name := g.tplRepFault(maxSubs)
		g.emit("joe", "replayer-fault/"+name, s)
	}
	// every error character at every replayer site and at a writer: 2-3 subscribers, one publisher of 3-4 messages,
	// the fault at the second call
	for rep := 0; rep < mult/2; rep++ {
		for _, kind := range jErrKindsSweep {
			for site := 0; site < 5; site++ {
				s := g.base()
				topic := uint64(g.r.Intn(3))
				nsubs := 2 + g.r.Intn(2)
				g.plainSubs(s, nsubs, topic)
				v := 100 + 10*kind + uint64(g.r.Intn(5))
				switch site {
				case 0:
					g.plainPubs(s, 1, 3, 4, topic, jEvN(34, jAny, uint64(nsubs)))
					s.putScript = []uint64{0, v}
				case 1:
					g.plainPubs(s, 1, 3, 4, topic, jEvN(34, jAny, uint64(nsubs)))
					s.putScript = []uint64{0, v + 200} // the error comes together with the message
				case 2, 4:
					s.repScript = []uint64{0, v}
					for i := 1; i < nsubs; i++ {
						s.subs[i].start = jEvN(31, jAny, uint64(i))
					}
					if site == 4 {
						s.subs[1].idopt = g.someID() // the subscriber whose Replay fails presents a Last-Event-ID
					}
					g.plainPubs(s, 1, 3, 4, topic, jEvN(31, jAny, uint64(nsubs)))
				default:
					g.plainPubs(s, 1, 3, 4, topic, jEvN(34, jAny, uint64(nsubs)))
					s.subs[0].script = []uint64{0, 0, v}
				}
				s.shuts = []jShutSpec{jFinalShut()}
				g.emit("joe", "error-character-sweep/"+jErrKindName[kind], s)
			}
		}
	}
	for n := 0; n < 60*mult; n++ {
		g.emit("joe", "random", g.tplRandom(maxSubs))
	}
	for n := 0; n < 48*mult; n++ {
		s, name := g.tplFaultSeq(n, maxSubs)
		g.emit("joe", "replayer-fault-history/"+name, s)
	}
	// long runs of refused publications (9 .. 40 in a row), then accepted ones and late subscribers: a Put ERROR never
	// takes the replayer out of use, however often it comes
	for n := 0; n < 3*mult; n++ {
		g.emit("joe", "replayer-fault-history/many-put-errors-in-a-row", g.tplPutErrRun([]int{9, 12, 17, 33, 40, 10}[n%6], maxSubs))
	}
	for n := 0; n < 30*mult; n++ {
		s, name := g.tplShapes(maxSubs)
		g.emit("joe", "message-shapes/"+name, s)
	}
	for n := 0; n < 40*mult; n++ {
		g.emit("joe", "server-sessions", g.tplServer(n, maxSubs))
	}
	for n := 0; n < 30*mult; n++ {
		g.emit("joe", "publisher-keeps-one-topics-slice", g.tplReuse(maxSubs))
	}
	for n := 0; n < 30*mult; n++ {
		s, name := g.tplDupTopics(maxSubs)
		g.emit("joe", "topic-named-twice/"+name, s)
	}
	for n := 0; n < 30*mult; n++ {
		s, name := g.tplClients(maxSubs, n%3 == 2)
		g.emit("joe", "client-values/"+name, s)
	}
}

// ---- (f) resuming with Last-Event-ID against the real replayers -----------------------------------

// jRing is the size of a ValidReplayer's ring after n Puts without any expiry (4, doubled whenever full).
func jRing(n int) int {
	r := 4
	for r < n {
		r *= 2
	}
	return r
}

// expiry chooses, for replayer kind 3, how many stored events expire (m), how many survive (k), whether the
// application's own GC() follows the second clock jump at once, and how many more events are stored before the
// resuming Subscribe (extra).  With m+k Puts the ring has jRing(m+k) slots; what a collection does next depends on
// k against a fraction of that (shrink at len/4; len/2 = the survivors fill the next smaller ring exactly), so
// these are the boundary classes.  grid >= 0: the directed grid ring {8,16} x survivors {len/2, len/4, other}.
func (g *jgen) expiry(grid int) (m, k, extra int, gc bool) {
	inRing := func(ring, k int) int { // m with jRing(m+k) == ring, 1 <= m <= 8
		lo, hi := ring/2+1-k, ring-k
		if lo < 1 {
			lo = 1
		}
		if hi > 8 {
			hi = 8
		}
		if hi < lo {
			return 1 + g.r.Intn(8)
		}
		return lo + g.r.Intn(hi-lo+1)
	}
	class := ""
	switch {
	case grid >= 0:
		ring := []int{8, 16}[grid%2]
		gc = true
		switch (grid / 2) % 3 {
		case 0:
			k = ring / 2
		case 1:
			k = ring / 4
		default:
			k = 1 + g.r.Intn(8)
		}
		m = inRing(ring, k)
		if g.r.Chance(1, 4) {
			extra = 1 + g.r.Intn(2)
		}
	case g.r.Bool():
		// a small history: the head moves, no shrink, later Puts wrap a ring that is not full
		m, k = 1+g.r.Intn(2), 2+g.r.Intn(2)
		gc = g.r.Chance(1, 4)
		extra = 1 + g.r.Intn(5)
	default:
		ring := []int{8, 8, 16}[g.r.Intn(3)]
		k = rng.Pick(g.r, []int{ring / 2, ring / 4, 1 + g.r.Intn(8)})
		m = inRing(ring, k)
		gc = g.r.Bool()
		extra = rng.Pick(g.r, []int{0, 1, 1, 2, 5})
	}
	if !gc && extra == 0 {
		extra = 1 // without GC() the next Put is what collects the expired events
	}
	switch ring := jRing(m + k); {
	case 2*k == ring:
		class = "len/2"
	case 4*k == ring:
		class = "len/4"
	case 4*k < ring:
		class = "<len/4"
	case 2*k < ring:
		class = "len/4..len/2"
	default:
		class = ">len/2"
	}
	how := "next-put"
	if gc {
		how = "explicit-GC"
	}
	g.c.Count("replay:expiring:survivors:" + class + "/ring" + strconv.Itoa(jRing(m+k)) + "/" + how)
	g.c.Count("replay:expiring:puts-after-expiry:" + strconv.Itoa(extra))
	return m, k, extra, gc
}

// jOddForms: never-issued spellings of a decimal numeral %s (the replayers issue "0", "1", "2", ... only).
var jOddForms = []struct{ name, pre, post string }{
	{"0N", "0", ""}, {"00N", "00", ""}, {"000000N", "000000", ""}, {"+N", "+", ""}, {"-N", "-", ""},
	{"blank-N", " ", ""}, {"N-blank", "", " "}, {"tab-N", "\t", ""}, {"N-tab", "", "\t"}, {"blank-N-blank", " ", " "},
	{"0xN", "0x", ""}, {"0XN", "0X", ""}, {"0bN", "0b", ""}, {"0oN", "0o", ""},
	{"N.0", "", ".0"}, {"N.", "", "."}, {"Ne0", "", "e0"}, {"N_", "", "_"}, {"_N", "_", ""}, {"N,", "", ","},
	{"fullwidth-digits", "", ""}, {"arabic-indic-digits", "", ""}, {"digits-separated-by-_", "", ""},
}

// oddNumeral: a never-issued spelling of the decimal numeral num.
func (g *jgen) oddNumeral(num string, form int) string {
	f := rng.Pick(g.r, jOddForms)
	if g.r.Chance(1, 4) {
		f = jOddForms[g.r.Intn(3)] // leading zeros: the spellings strconv.ParseUint accepts
	}
	if form >= 0 && form < len(jOddForms) {
		f = jOddForms[form]
	}
	out := f.pre + num + f.post
	switch f.name {
	case "fullwidth-digits", "arabic-indic-digits":
		base := rune(0xFF10)
		if f.name == "arabic-indic-digits" {
			base = 0x0660
		}
		rs := []rune{}
		for _, d := range num {
			rs = append(rs, base+(d-'0'))
		}
		out = string(rs)
	case "digits-separated-by-_":
		out = strings.Join(strings.Split(num, ""), "_")
		if len(num) < 2 {
			out = num + "_" + num
		}
	}
	g.c.Count("replay:never-issued-spelling-of-a-number:" + f.name)
	if num == "0" {
		g.c.Count("replay:never-issued-spelling-of-a-number:of-zero")
	}
	return out
}

// tplResume: grid < 0 the random template; grid >= 0 the n-th scenario of the directed grid "events expire, the
// application calls GC(), somebody resumes" (replayer kind 3; see expiry).
func (g *jgen) tplResume(maxSubs, grid int) (*jScenario, string, string) {
	return g.tplResumeOpt(maxSubs, grid, jResumeOpt{})
}

// jResumeOpt pins dimensions of tplResume for the directed sweeps (zero values: drawn at random).
type jResumeOpt struct {
	kind    uint64 // replayer kind 1..3
	auto    int    // 1 automatic IDs, 2 the publishers' own
	present string // what the resuming subscriber presents; "at": the ID of buffered event number `at`
	at      int
	odd     int  // present "non-canonical": 1 + index into jOddForms
	oddZero bool //   ... of the number zero (else of a buffered / evicted / not yet issued one)
	m, k    int  // kind 3: m events expire, k survive, nothing else is stored, nobody collects (unless gc) before the resume
	gc      bool
	topics  int // > 0: the stored history is spread over that many topics and the newest stored event is NOT for the resuming subscriber
}

func (g *jgen) tplResumeOpt(maxSubs, grid int, opt jResumeOpt) (*jScenario, string, string) {
	s := g.base()
	s.kind = uint64(1 + g.r.Intn(3)) // 1 FiniteReplayer(cap), 2 ValidReplayer, 3 ValidReplayer whose first m accepted events expire
	if grid >= 0 {
		s.kind = 3
	}
	if opt.kind != 0 {
		s.kind = opt.kind
	}
	if opt.m > 0 {
		s.kind = 3
	}
	capEff := 4 // ValidReplayer: the initial ring
	if s.kind == 1 {
		s.cap = uint64(2 + g.r.Intn(4))
		capEff = int(s.cap)
	}
	auto := g.r.Bool()
	if grid >= 0 {
		auto = (grid/6)%2 == 1
	}
	if opt.auto != 0 {
		auto = opt.auto == 1
	}
	if auto {
		s.auto = 1
	}
	nbClass := rng.Pick(g.r, []string{"0", "<cap", "=cap", "=cap", "2cap", "3cap", "cap+1", ">cap"})
	forced := ""
	if g.r.Chance(1, 6) {
		// the ring exactly full (write position wrapped to the start), resumed from one of its ends
		nbClass = rng.Pick(g.r, []string{"=cap", "2cap", "3cap"})
		forced = rng.Pick(g.r, []string{"newest", "newest", "oldest"})
	}
	if opt.topics > 0 && nbClass == "0" {
		nbClass = "cap+1"
	}
	nb := 0
	switch nbClass {
	case "<cap":
		nb = 1 + g.r.Intn(capEff-1)
	case "=cap":
		nb = capEff
	case "2cap":
		nb = 2 * capEff
	case "3cap":
		nb = 3 * capEff
		if s.kind == 2 {
			nb = 4 * capEff // the ValidReplayer's ring doubles: 4, 8, 16
		}
	case "cap+1":
		nb = capEff + 1
	case ">cap":
		nb = capEff + 2 + g.r.Intn(capEff)
	}
	expM, expK, quietResume := 0, 0, false
	if s.kind == 3 && opt.m > 0 {
		// m expire, k survive, nothing else is stored and - unless gc - nobody has collected when the subscriber resumes:
		// whatever collecting the replayer has left to do, it is due (the clock is 500 s past the last Put, the
		// collection interval is TTL/4 = 250 s) and changes nothing of what it owes
		expM, expK = opt.m, opt.k
		nb, nbClass, forced, quietResume = opt.m+opt.k, "m+k+0", "", true
		if opt.gc {
			s.gc = 1
		}
		ring, how := jRing(opt.m+opt.k), "nobody-yet"
		if opt.gc {
			how = "explicit-GC"
		}
		class := ">len/4"
		switch {
		case 4*opt.k == ring:
			class = "len/4"
		case 4*opt.k < ring:
			class = "<len/4"
		case 4*(opt.k-1) == ring:
			class = "len/4+1"
		}
		g.c.Count("replay:expiring:survivors:" + class + "/ring" + strconv.Itoa(ring) + "/" + how)
		g.c.Count("replay:expiring:puts-after-expiry:0")
	} else if s.kind == 3 {
		m, k, extra, gc := g.expiry(grid)
		expM, expK = m, k
		nb, nbClass, forced = m+k+extra, "m+k+"+strconv.Itoa(extra), ""
		if gc {
			s.gc = 1
		}
		switch {
		case grid >= 0:
			forced = []string{"newest", "oldest", "evicted", "newest"}[(grid/12)%4]
			quietResume = extra == 0
		case gc && extra == 0 && g.r.Bool():
			// resumed right after the collection, before anything else is stored
			forced = rng.Pick(g.r, []string{"newest", "newest", "oldest", "evicted"})
			quietResume = true
		}
	}
	const topic = 1
	// the "before" phase: one thread, sequential; ids = the IDs of the messages the replayer stored
	ids := []string{}
	before := jPubSpec{}
	// with explicit IDs, sometimes one stored message carries an ID that is set but empty (the "id:" reset line)
	emptyAt := -1
	if !auto && nb > 1 && g.r.Chance(1, 4) {
		emptyAt = g.r.Intn(nb)
		g.c.Count("replay:one-stored-id-is-empty")
	}
	lastStored := -1
	for len(ids) < nb {
		p := len(before.msgs)
		m := jMsgSpec{topics: []uint64{topic}}
		switch g.r.Intn(8) {
		case 0:
			m.topics = []uint64{2}
		case 1:
			m.topics = []uint64{2, topic}
		}
		if opt.topics > 0 && g.r.Bool() {
			// a history over several topics (the default topic among them now and then)
			m.topics = []uint64{uint64(1 + g.r.Intn(opt.topics))}
			if g.r.Chance(1, 4) {
				m.topics = append(m.topics, uint64(g.r.Intn(opt.topics+1)))
				if m.topics[1] == m.topics[0] {
					m.topics = m.topics[:1]
				}
			}
		}
		if g.r.Chance(1, 12) {
			// a message the real Put refuses: nothing is stored
			if auto {
				m.idopt = jID("m" + strconv.Itoa(p))
			}
			before.msgs = append(before.msgs, m)
			continue
		}
		if auto {
			if prev := len(before.msgs) - 1; prev >= 0 && !before.msgs[prev].idopt.Present() && g.r.Chance(1, 6) {
				// the publisher's prebuilt message (a heartbeat) goes out once more: one more event, with the next ID
				src := prev
				if before.msgs[prev].same != 0 {
					src = int(before.msgs[prev].same - 1)
				}
				if g.r.Bool() {
					src = g.r.Intn(prev + 1)
					for before.msgs[src].same != 0 {
						src = int(before.msgs[src].same - 1)
					}
				}
				if !before.msgs[src].idopt.Present() {
					m.same = uint64(src + 1)
				}
			}
			ids = append(ids, strconv.Itoa(len(ids)))
		} else {
			id := "m" + strconv.Itoa(p)
			if len(ids) == emptyAt {
				id = ""
			}
			m.idopt = jID(id)
			ids = append(ids, id)
		}
		lastStored = len(before.msgs)
		before.msgs = append(before.msgs, m)
	}
	// the topics the resuming subscriber will NOT have (see below: it has topic 1, sometimes 2 as well)
	foreign := []uint64{3}
	if opt.topics > 0 && lastStored >= 0 {
		// the newest stored event - sometimes the newest two - is for somebody else
		if g.r.Chance(1, 3) {
			foreign = []uint64{4, 3}
		}
		before.msgs[lastStored].topics = foreign
		if lastStored > 0 && g.r.Chance(1, 3) {
			before.msgs[lastStored-1].topics = []uint64{3}
		}
		g.c.Count("replay:history-over-several-topics,newest-stored-event-for-somebody-else")
	}
	if len(before.msgs) > 0 {
		s.pubs = append(s.pubs, before)
	}
	nbefore := uint64(len(before.msgs))
	buffered := ids
	if s.kind == 1 && len(ids) > capEff {
		buffered = ids[len(ids)-capEff:]
	}
	if s.kind == 3 {
		// two clock jumps: +600 s right after the m-th accepted Put, +500 s right after the (m+k)-th (TTL 1000 s): from
		// then on exactly the first m events are expired; the next Put collects them (the ring's head moves, no shrink while
		// k > len/4), and the following Puts may wrap a ring that is not full.  cap encodes m*100+k.  With s.gc the
		// application's own GC() follows the second jump at once (see expiry): nothing else need be stored before the
		// resuming Subscribe.
		s.cap = uint64(expM*100 + expK)
		buffered = ids[expM:]
	}
	// bystanders registered from the start, then the resuming subscriber
	for i, n := 0, g.r.Intn(maxSubs-1); i < n; i++ {
		x := jSubSpec{topics: []uint64{topic}}
		if g.r.Chance(1, 4) {
			x.topics = []uint64{2, topic}
		}
		s.subs = append(s.subs, x)
	}
	R := uint64(len(s.subs))
	res := jSubSpec{topics: []uint64{topic}}
	if g.r.Chance(1, 5) {
		res.topics = []uint64{topic, 2}
	}
	if g.r.Chance(1, 4) {
		// a long list (5-9 names) in any order - descending, shuffled, the followed topic first, last or in the middle;
		// the other names are topics nobody publishes on.  A topic list is a set: its length and order change nothing
		n := 4 + g.r.Intn(5)
		long := []uint64{topic}
		for i := 0; i < n; i++ {
			long = append(long, uint64(5+i))
		}
		switch g.r.Intn(3) {
		case 0: // descending
			for i, j := 0, len(long)-1; i < j; i, j = i+1, j-1 {
				long[i], long[j] = long[j], long[i]
			}
		case 1: // shuffled
			for i := len(long) - 1; i > 0; i-- {
				j := g.r.Intn(i + 1)
				long[i], long[j] = long[j], long[i]
			}
		default: // ascending but for the followed topic, which goes to the middle
			mid := len(long) / 2
			long[0], long[mid] = long[mid], long[0]
		}
		res.topics = long
		g.c.Count("replay:resuming-subscriber-follows-a-long-unordered-topic-list")
	}
	if nbefore > 0 {
		res.start = jEv(15, nbefore-1)
	}
	present := rng.Pick(g.r, []string{"oldest", "oldest", "middle", "middle", "newest", "newest", "newest", "evicted", "evicted",
		"evicted", "text", "above", "2^63", "2^64-1", "non-canonical", "non-canonical", "unset"})
	if forced != "" {
		present = forced
	}
	if opt.present != "" {
		present = opt.present
	}
	if present == "at" && opt.at >= len(buffered) {
		present = "newest"
	}
	if len(buffered) == 0 && (present == "oldest" || present == "middle" || present == "newest") {
		present = "above"
	}
	if present == "evicted" && len(buffered) == len(ids) {
		present = "oldest"
		if len(buffered) == 0 {
			present = "text"
		}
	}
	switch present {
	case "oldest":
		res.idopt = jID(buffered[0])
	case "middle":
		res.idopt = jID(buffered[len(buffered)/2])
	case "newest":
		res.idopt = jID(buffered[len(buffered)-1])
	case "evicted":
		res.idopt = jID(ids[g.r.Intn(len(ids)-len(buffered))])
	case "text":
		res.idopt = jID("zz")
	case "above":
		res.idopt = jID(strconv.Itoa(len(ids) + g.r.Intn(4)))
		if !auto {
			res.idopt = jID("m" + strconv.Itoa(len(before.msgs)+50))
		}
	case "2^63":
		res.idopt = jID("9223372036854775808")
	case "2^64-1":
		res.idopt = jID("18446744073709551615")
	case "non-canonical":
		// a never-issued spelling of a number: of zero, of a buffered / evicted / not yet issued ID
		num := strconv.Itoa(g.r.Intn(len(ids) + 2))
		if len(buffered) > 0 && auto && g.r.Bool() {
			num = buffered[g.r.Intn(len(buffered))]
		}
		if g.r.Chance(1, 3) || opt.oddZero {
			num = "0"
		}
		res.idopt = jID(g.oddNumeral(num, opt.odd-1))
	case "at":
		res.idopt = jID(buffered[opt.at])
	}
	// how many events lie after the presented one (an upper bound: some may not match the topics)
	replayLen := 0
	switch present {
	case "oldest":
		replayLen = len(buffered) - 1
	case "middle":
		replayLen = len(buffered) - 1 - len(buffered)/2
	case "at":
		replayLen = len(buffered) - 1 - opt.at
	case "evicted":
		if auto {
			replayLen = len(buffered)
		}
	}
	switch {
	case replayLen > 0 && g.r.Chance(1, 4):
		// ONE Send of the replay fails - any position, the first to the last - and every call after it (the Flush that
		// ends a replay, live Sends) would succeed: the replay ends there, the subscription is refused with that error
		res.script = append(jZeros(g.r.Intn(replayLen)), g.werr())
		res.selfCancel = g.r.Chance(1, 3)
		g.c.Count("replay:one-send-of-the-replay-fails")
	case g.r.Chance(1, 6):
		res.script = append(jZeros(g.r.Intn(4)), g.werr())
		res.selfCancel = g.r.Bool()
	}
	if g.r.Chance(1, 5) {
		res.hasCancel, res.cancel = true, jEvN(38, R, uint64(1+g.r.Intn(3)))
	}
	s.subs = append(s.subs, res)
	// publishers running concurrently with / after the resuming Subscribe
	nconc := g.r.Intn(3)
	if len(s.pubs) == 0 && nconc == 0 {
		nconc = 1
	}
	timing := ""
	for t := 0; t < nconc; t++ {
		first := uint64(jToks(s))
		pt := jPubSpec{}
		for k, n := 0, 1+g.r.Intn(3); k < n; k++ {
			m := jMsgSpec{topics: []uint64{topic}}
			if g.r.Chance(1, 6) {
				m.topics = []uint64{2}
			}
			p := int(first) + k
			if !auto && !g.r.Chance(1, 12) {
				m.idopt = jID("m" + strconv.Itoa(p))
			}
			if auto && g.r.Chance(1, 12) {
				m.idopt = jID("m" + strconv.Itoa(p))
			}
			pt.msgs = append(pt.msgs, m)
		}
		afterBefore := jCond(nil)
		if nbefore > 0 {
			afterBefore = jEv(15, nbefore-1)
		}
		tcase := g.r.Intn(5)
		if quietResume {
			tcase = rng.Pick(g.r, []int{1, 4}) // nothing is stored between the collection and the Replay
		}
		switch tcase {
		case 0:
			timing += "+racing"
			pt.start = afterBefore
		case 1:
			timing += "+at-sub-sent"
			pt.start = jEv(3, R)
		case 2:
			timing += "+parked-until-loop-sub"
			pt.start = afterBefore
			s.parks = append(s.parks, jPark(11, first, 0, 2500, jAbs(31, R, 1)))
		case 3:
			timing += "+during-replay"
			pt.start = afterBefore
			s.parks = append(s.parks, jPark(11, first, 0, 2500, jAbs(41, R, 1)))
		case 4:
			timing += "+after-registered"
			pt.start = jEv(34, R)
		}
		s.pubs = append(s.pubs, pt)
	}
	if timing == "" {
		timing = "none"
	}
	// sometimes a second subscriber resumes later from what the first phase left
	if g.r.Chance(1, 5) && len(ids) > 0 {
		pool := ids
		if opt.m > 0 && !auto {
			pool = buffered // nothing may have been collected yet: see the note on expired IDs in genJoeReplay
		}
		x := jSubSpec{topics: []uint64{topic}, idopt: jID(pool[g.r.Intn(len(pool))]), start: jEv(9, R)}
		if ntok := jToks(s); ntok > 0 {
			x.start = jEv(15, uint64(ntok-1))
		}
		s.subs = append(s.subs, x)
	}
	if g.r.Chance(1, 6) {
		s.shuts = append(s.shuts, jShutSpec{start: jEv(rng.Pick(g.r, []uint64{31, 41, 34}), R)})
	}
	s.shuts = append(s.shuts, jFinalShut())
	g.c.Count("replay:prior-publishes-vs-capacity:" + nbClass)
	g.c.Count("replay:presented:" + present)
	for _, t := range strings.Split(timing, "+") {
		if t != "" {
			g.c.Count("replay:concurrent-publisher:" + t)
		}
	}
	mode := "manual"
	if auto {
		mode = "auto"
	}
	if s.gc != 0 {
		mode += "+GC()"
	}
	g.c.Count("replay:replayer:" + []string{"", "finite", "valid", "valid-expiring"}[s.kind] + "/" + mode)
	if !auto && present == "newest" && len(ids) > 0 && (s.kind == 1 && len(ids)%capEff == 0 || s.kind == 2 && (len(ids) == 4 || len(ids) == 8 || len(ids) == 16)) {
		g.c.Count("replay:manual-newest-in-last-ring-slot")
	}
	return s, nbClass, present
}

func (g *jgen) tplReplayRandom(maxSubs int) *jScenario {
	s := g.base()
	s.kind = uint64(1 + g.r.Intn(2))
	if s.kind == 1 {
		s.cap = uint64(2 + g.r.Intn(4))
	}
	auto := g.r.Bool()
	if auto {
		s.auto = 1
	}
	for t, n := 0, 1+g.r.Intn(3); t < n; t++ {
		pt := jPubSpec{}
		first := jToks(s)
		for k, m := 0, 1+g.r.Intn(5); k < m; k++ {
			ms := jMsgSpec{topics: g.topics(1+g.r.Intn(2), 3)}
			if auto == g.r.Chance(1, 10) {
				ms.idopt = jID("m" + strconv.Itoa(first+k))
			}
			pt.msgs = append(pt.msgs, ms)
		}
		s.pubs = append(s.pubs, pt)
	}
	ntok := jToks(s)
	nsubs := 1 + g.r.Intn(maxSubs)
	for i := 0; i < nsubs; i++ {
		x := jSubSpec{topics: g.topics(1+g.r.Intn(2), 3)}
		if g.r.Chance(2, 3) {
			if auto {
				x.idopt = jID(rng.Pick(g.r, []string{"0", "1", "2", "3", "5", "8", "12", "zz", "01", "9223372036854775808", "18446744073709551615", ""}))
				if g.r.Chance(1, 4) {
					x.idopt = jID(g.oddNumeral(strconv.Itoa(g.r.Intn(ntok+1)), -1))
				}
			} else {
				x.idopt = jID("m" + strconv.Itoa(g.r.Intn(ntok+2)))
			}
		}
		switch g.r.Intn(4) {
		case 0:
			x.start = jEv(15, uint64(g.r.Intn(ntok)))
		case 1:
			x.start = jEv(12, uint64(g.r.Intn(ntok)))
		}
		if g.r.Chance(1, 5) {
			x.script = append(jZeros(g.r.Intn(5)), g.werr())
			x.selfCancel = g.r.Bool()
		}
		if g.r.Chance(1, 5) {
			x.hasCancel, x.cancel = true, jEvN(38, uint64(i), uint64(1+g.r.Intn(3)))
		}
		s.subs = append(s.subs, x)
	}
	if g.r.Chance(1, 4) {
		s.parks = append(s.parks, jPark(11, jAny, uint64(1+g.r.Intn(3)), 1500, jRel(31, jAny, 1)))
	}
	if g.r.Chance(1, 4) {
		s.parks = append(s.parks, jPark(31, jAny, 0, 1000, jRel(11, jAny, 1)))
	}
	if g.r.Chance(1, 4) {
		s.shuts = append(s.shuts, jShutSpec{start: jEv(12, uint64(g.r.Intn(ntok)))})
	}
	s.shuts = append(s.shuts, jFinalShut())
	return s
}

func genJoeReplay(c *Ctx) {
	g := &jgen{c: c, r: c.R}
	mult, maxSubs := 2, 4 // quick: 952 scenarios, about 9 s
	if c.Thorough {
		mult, maxSubs = 20, 8 // thorough: 6400 scenarios, about 85 s
	}
	for n := 0; n < 200*mult; n++ {
		s, _, _ := g.tplResume(maxSubs, -1)
		g.emit("joe_replay", "resume", s)
	}
	for n := 0; n < 60*mult; n++ {
		s, _, _ := g.tplResume(maxSubs, n)
		g.emit("joe_replay", "resume-after-expiry-and-GC", s)
	}
	for n := 0; n < 60*mult; n++ {
		g.emit("joe_replay", "random", g.tplReplayRandom(maxSubs))
	}
	// never-issued spellings of numbers (of zero, of issued and of not yet issued IDs) presented to the ID-assigning
	// replayers: every form x {zero, another number} x {FiniteReplayer, ValidReplayer}
	for rep := 0; rep < mult; rep++ {
		for f := range jOddForms {
			for z := 0; z < 2; z++ {
				opt := jResumeOpt{kind: uint64(1 + (f+z+rep)%2), auto: 1, present: "non-canonical", odd: f + 1, oddZero: z == 0}
				if g.r.Chance(1, 8) {
					opt.auto = 2 // the publishers' own IDs: a numeral is a text like any other
				}
				s, _, _ := g.tplResumeOpt(maxSubs, -1, opt)
				g.emit("joe_replay", "resume/never-issued-spelling-of-a-number", s)
			}
		}
	}
	// histories over several topics whose newest stored event is not for the resuming subscriber, resumed from a
	// point that leaves events for it
	for n := 0; n < 30*mult; n++ {
		opt := jResumeOpt{topics: 2 + n%3, present: []string{"oldest", "middle", "evicted", "oldest", "at"}[n%5], at: 1}
		s, _, _ := g.tplResumeOpt(maxSubs, -1, opt)
		g.emit("joe_replay", "resume/several-topics,newest-stored-for-somebody-else", s)
	}
	// m events expired, k survive, nothing stored since and nobody has collected yet: (m, k) around the sizes at which a
	// collection re-packs the ring (k against a quarter of the 8 / 16 slots), resumed from EVERY survivor and from an
	// expired ID
	for rep := 0; rep < mult/2; rep++ {
		for m := 1; m <= 8; m++ {
			for k := 1; k <= 5; k++ {
				for at := -1; at < k; at++ {
					opt := jResumeOpt{m: m, k: k, auto: 1 + (m+k+at+rep+2)%2, present: "at", at: at}
					if at < 0 {
						// an expired ID: with automatic IDs only - there the answer (every survivor) does not depend on whether
						// the expired events have been collected yet; an expired ID of the publisher's own is still found while
						// nobody has collected, and is unknown afterwards: when that happens is the replayer's business
						// (C09), the monitor's buffer is the unexpired events
						opt.present, opt.auto = "evicted", 1
					}
					s, _, _ := g.tplResumeOpt(maxSubs, -1, opt)
					g.emit("joe_replay", "resume-after-expiry,nothing-collected-yet", s)
				}
			}
		}
	}
}
