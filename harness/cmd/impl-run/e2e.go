package main

import (
	"context"
	"errors"
	"fmt"
	"io"
	"log"
	"net"
	"net/http"
	"os"
	"sync"
	"sync/atomic"
	"syscall"
	"time"

	sse "github.com/tmaxmax/go-sse"

	"verifharness/rng"
	"verifharness/val"
)

// Family "e2e" (C05): the library's Client against the library's Server (Joe + replayer) over
// in-memory connections that the scenario cuts at scripted byte offsets (raw: anywhere in the
// response incl. the header; body: after c bytes of the event stream) or ends by returning from
// the handler.  See coq/theories/RunE2E.v for the formats.
//
// scenario : (n<kind> (step ...) n<OnSession returns its own topics>)   kind = (n<replayer kind: 0 finite/512 manual IDs, 1 valid manual, 2 finite/512 auto, 3 valid auto, 4 finite/6 manual, 5 finite/6 auto> (step ...))
//   kind + 100*e: what a cut looks like to the client: 0 the harness's own errors, 1 an error matching context.DeadlineExceeded with
//   Timeout() (http.Client.Timeout), 2 io.ErrUnexpectedEOF, 3 ECONNRESET in a *net.OpError, 4 context.Canceled itself, 5 net.ErrClosed,
//   6 a wrapped context.DeadlineExceeded - all while the request's own context lives
//   kind + 10*b: the client's Connection is given its buffer by Buffer(buf of capacity 200000, 0) [b=1], Buffer(nil, 200000) [b=2],
//   Buffer(buf of capacity 4096, 200000) [b=3]; payload kinds >= 1000 (events of 66-68 KB, beyond the default limit) only then
//   step = (n0 n<k> n<payload kind>)  publish k messages
//        | (n1 n<c>)   cut the current/next response after c more BODY bytes read by the client
//        | (n2 n<c>)   sever the current/next transport connection after c more RAW bytes read by the client
//        | (n3 n<settle>) publish one message, wait until the client has it, then end the handler (clean end of the body);
//                      settle=1: then wait until Joe has registered the client's resubscription
//        | (n4)        wait until the client has caught up
//        | (n5 n<s>)   (ValidReplayer with automatic IDs only) once caught up, advance the replayer's clock by s seconds (TTL 1000 s)
//        | (n6)        cut the connection silently (client: timeout; server: nothing, writes swallowed) and wait for the resubscription
//        | (n7)        writes on silently cut connections start to fail
//        | (n9 n<ms>)  the peer stops reading (the server's next write waits), the handler is told to end, the peer reads again after ms milliseconds
//        | (n10)       a publication the replayer refuses, on another topic
//        | (n8 n<c>)   the peer's FIN: after c more raw bytes the response ends cleanly right after the next line feed
// line written: input = (scenario (published ...) (attempt ...) flags), observed = n1
//   published = (x<id> x<type> (x<data string> ...))            in publish order
//   attempt   = (hdropt n<outcome: 0 body read, 1 no response> x<body bytes read> n<ending: 0 EOF, 1 error> ((x<id> x<type> x<data>) ...))
//   flags     = (n<client caught up in time> n<server shut down cleanly and never used a ResponseWriter after its handler returned>)

func init() {
	families["e2e"] = family{gen: genE2E, exec: execE2E, post: func(in, obs val.V) (val.V, val.V) {
		return val.L(in.At(0), in.At(1), obs.At(0), obs.At(1), obs.At(2), val.Bool(in.At(2).Truth() || in.At(5).Truth())), val.N(1)
	}}
}

// ---- in-memory network ------------------------------------------------------------------

type pipeListener struct {
	ch     chan net.Conn
	closed chan struct{}
	once   sync.Once
}

func (l *pipeListener) Accept() (net.Conn, error) {
	select {
	case c := <-l.ch:
		return c, nil
	case <-l.closed:
		return nil, errors.New("listener closed")
	}
}
func (l *pipeListener) Close() error   { l.once.Do(func() { close(l.closed) }); return nil }
func (l *pipeListener) Addr() net.Addr { return pipeAddr{} }

type pipeAddr struct{}

func (pipeAddr) Network() string { return "pipe" }
func (pipeAddr) String() string  { return "pipe" }

// cutConn severs the connection after the armed number of bytes has been read by the client.
type cutConn struct {
	net.Conn
	budget *atomic.Int64 // <0: unlimited
	fin    *atomic.Int64 // >=0: after that many more bytes, pass bytes on up to and including the next LF, then end the stream like a FIN (io.EOF)
	dead   atomic.Bool
	finNow bool
	char   int
}

func (c *cutConn) Read(p []byte) (int, error) {
	if c.dead.Load() {
		return 0, errors.New("read: connection timed out")
	}
	if c.finNow {
		return 0, io.EOF
	}
	if f := c.fin.Load(); f >= 0 {
		// byte at a time, so that the stream ends exactly after a line feed
		n, err := c.Conn.Read(p[:1])
		if n == 1 {
			if f > 0 {
				c.fin.Store(f - 1)
			} else if p[0] == '\n' {
				c.fin.Store(-1)
				c.finNow = true
				c.Conn.Close()
			}
		}
		return n, err
	}
	b := c.budget.Load()
	if b == 0 {
		c.budget.Store(-1)
		c.Conn.Close()
		return 0, cutErr(c.char, errors.New("connection severed by the scenario"))
	}
	if b > 0 && int64(len(p)) > b {
		p = p[:b]
	}
	n, err := c.Conn.Read(p)
	if b > 0 && n > 0 {
		if c.budget.Add(-int64(n)) <= 0 {
			c.budget.Store(0)
		}
	}
	return n, err
}

// srvConn is the server's end of a connection.  mode 0: normal.  mode 1 ("silently cut": the peer vanished without a
// FIN/RST): reads see nothing - not even the close - and writes are swallowed.  mode 2: writes fail, as they do once
// the kernel gives up retransmitting.
type srvConn struct {
	net.Conn
	mode       atomic.Int32
	gone       chan struct{}
	goneMu     sync.Once
	stall      atomic.Pointer[chan struct{}] // non-nil: writes wait until the channel is closed (a peer that stopped reading)
	stallAfter int64                         // ... once that many bytes have been written (the response head goes through)
	written    atomic.Int64
	stalled    atomic.Bool // a write is waiting
}

func (c *srvConn) Read(p []byte) (int, error) {
	n, err := c.Conn.Read(p)
	if err != nil && c.mode.Load() != 0 {
		<-c.gone // hide the close of the peer
		return 0, errors.New("use of closed connection")
	}
	return n, err
}
func (c *srvConn) Write(p []byte) (int, error) {
	if ch := c.stall.Load(); ch != nil && c.written.Add(int64(len(p))) > c.stallAfter {
		c.stalled.Store(true)
		select {
		case <-*ch:
		case <-c.gone:
		}
	}
	switch c.mode.Load() {
	case 1:
		return len(p), nil
	case 2:
		return 0, errors.New("write: connection timed out")
	}
	return c.Conn.Write(p)
}
func (c *srvConn) Close() error { c.goneMu.Do(func() { close(c.gone) }); return c.Conn.Close() }

// guardWriter stands between the library and net/http's ResponseWriter: once the handler has returned, the
// ResponseWriter must not be touched any more (net/http recycles its buffers; a use then crashes the process or
// lands in another response).  Such uses are recorded and swallowed instead of being let through.
type guardWriter struct {
	w         http.ResponseWriter
	returned  atomic.Bool
	usedAfter *atomic.Bool
}

func (g *guardWriter) late() bool {
	if g.returned.Load() {
		g.usedAfter.Store(true)
		return true
	}
	return false
}
func (g *guardWriter) Header() http.Header {
	if g.late() {
		return http.Header{}
	}
	return g.w.Header()
}
func (g *guardWriter) Write(p []byte) (int, error) {
	if g.late() {
		return 0, errors.New("write after the handler returned")
	}
	return g.w.Write(p)
}
func (g *guardWriter) WriteHeader(code int) {
	if !g.late() {
		g.w.WriteHeader(code)
	}
}
func (g *guardWriter) Flush() {
	if !g.late() {
		g.w.(http.Flusher).Flush()
	}
}

type e2eAttempt struct {
	hdr     string
	hasHdr  bool
	noResp  bool
	body    []byte
	endErr  bool
	events  []val.V
	started bool
}

type e2eRun struct {
	mu        sync.Mutex
	attempts  []*e2eAttempt
	received  int // events received in total
	bodyCut   atomic.Int64
	rawCut    atomic.Int64
	finCut    atomic.Int64
	cancelCur atomic.Pointer[context.CancelFunc]
	curSrv    atomic.Pointer[srvConn]
	curCli    atomic.Pointer[cutConn]
	srvConns  []*srvConn
	clock     atomic.Int64                  // seconds added to the replayer's clock
	curEvents atomic.Int64                  // events received on the current attempt
	stallArm  atomic.Pointer[chan struct{}] // the next connection's peer stops reading after the response head
	lis       *pipeListener
	inner     http.RoundTripper
	errChar   int
}

type cutBody struct {
	r   *e2eRun
	a   *e2eAttempt
	rc  io.ReadCloser
	err error
}

var errBodyCut = errors.New("response body cut by the scenario")

// timeoutLike matches context.DeadlineExceeded and says Timeout(), like the error net/http produces when
// http.Client.Timeout strikes while a body is being read - with the request's own context still alive.
type timeoutLike struct{}

func (timeoutLike) Error() string   { return "scenario: Client.Timeout exceeded while reading body" }
func (timeoutLike) Timeout() bool   { return true }
func (timeoutLike) Temporary() bool { return true }
func (timeoutLike) Is(target error) bool {
	return target == context.DeadlineExceeded
}

// cutErr is the error a cut shows to the client, by the scenario's error character (hundreds digit of the kind).
func cutErr(char int, dflt error) error {
	switch char {
	case 1:
		return timeoutLike{}
	case 2:
		return io.ErrUnexpectedEOF
	case 3:
		return &net.OpError{Op: "read", Net: "tcp", Err: syscall.ECONNRESET}
	case 4:
		return context.Canceled // the sentinel itself, while the request's context lives
	case 5:
		return net.ErrClosed
	case 6:
		return fmt.Errorf("read body: %w", context.DeadlineExceeded)
	}
	return dflt
}

func (b *cutBody) Read(p []byte) (int, error) {
	if b.err != nil {
		return 0, b.err
	}
	budget := b.r.bodyCut.Load()
	if budget == 0 {
		b.r.bodyCut.Store(-1)
		b.rc.Close()
		b.err = cutErr(b.r.errChar, errBodyCut)
		b.r.mu.Lock()
		b.a.endErr = true
		b.r.mu.Unlock()
		return 0, b.err
	}
	if budget > 0 && int64(len(p)) > budget {
		p = p[:budget]
	}
	n, err := b.rc.Read(p)
	if budget > 0 && n > 0 {
		if b.r.bodyCut.Add(-int64(n)) <= 0 {
			b.r.bodyCut.Store(0)
		}
	}
	b.r.mu.Lock()
	b.a.body = append(b.a.body, p[:n]...)
	if err != nil && err != io.EOF {
		b.a.endErr = true
	}
	b.r.mu.Unlock()
	if err != nil {
		b.err = err
	}
	return n, err
}
func (b *cutBody) Close() error { return b.rc.Close() }

func (r *e2eRun) RoundTrip(req *http.Request) (*http.Response, error) {
	a := &e2eAttempt{}
	if v, ok := req.Header["Last-Event-Id"]; ok && len(v) > 0 {
		a.hdr, a.hasHdr = v[0], true
	}
	r.mu.Lock()
	tooMany := len(r.attempts) >= 150
	if !tooMany {
		r.attempts = append(r.attempts, a)
	}
	r.mu.Unlock()
	if tooMany {
		// no scenario needs that many connections: the client is going round in circles; the run will be reported as
		// not caught up, and what is on record is enough to see why
		time.Sleep(50 * time.Millisecond)
		return nil, errors.New("too many attempts")
	}
	r.curEvents.Store(0)
	resp, err := r.inner.RoundTrip(req)
	if err != nil {
		r.mu.Lock()
		a.noResp = true
		r.mu.Unlock()
		return nil, err
	}
	resp.Body = &cutBody{r: r, a: a, rc: resp.Body}
	return resp, nil
}

type e2ePub struct {
	id, typ string
	data    []string
}

var e2ePayloads = [][]string{
	{"x"}, {"line one\nline two"}, {"a\r\nb", "c"}, {"id: 999"}, {"data: y\n\nid: 7"}, {""}, {":not a comment"}, {"retry: 1"},
	{"  leading space"}, {"é\xffz"}, {"\n"}, {"trailing\r"}, {"ends with blank lines\n\n"}, {"two strings, the last empty", ""}, {"\n\n\n"},
}

func e2ePayload(kind, seq int) (typ string, data []string) {
	if kind%3 == 1 {
		typ = "t" + fmt.Sprint(seq%3)
	}
	if seq%7 == 5 {
		// the reserved names: an event type is a name like any other
		typ = []string{"message", "Message", "open", "error"}[seq/7%4]
	}
	base := e2ePayloads[kind%len(e2ePayloads)]
	data = append([]string{}, base...)
	if kind >= 100 { // a long event, so that cuts fall inside events and bodies span several reads
		n := 3000 + kind
		if kind >= 1000 { // beyond bufio's default token limit (64 KiB)
			n = 66000 + 37*(kind-1000)
		}
		long := make([]byte, n)
		every := 97
		if kind >= 1000 {
			every = 9973 // few, long lines: the specification interpreter appends line by line to the data buffer
		}
		for i := range long {
			long[i] = byte('a' + (i+seq)%26)
			if i%every == every-1 {
				long[i] = '\n'
			}
		}
		data = append(data, string(long))
	}
	// the sequence mark: last, or first where the payload's own end is the interesting part
	if k := kind % len(e2ePayloads); k >= 10 && kind < 100 {
		data = append([]string{fmt.Sprintf("#%d", seq)}, data...)
	} else {
		data = append(data, fmt.Sprintf("#%d", seq))
	}
	return
}

// e2eRepeats counts scenarios whose outcome flags fell on a first run and held on the second (see execE2E).
var e2eRepeats int

// A scenario whose outcome flags fall (the client did not catch up in time, or the server did not survive) is run a
// second time, and only a failure that repeats is written out: the scenario is real network plumbing with real
// goroutines and time limits, and one run in some ten thousand strands in a way 150 replays of the same scenario do
// not reproduce (DESIGN 12.4).  A change that breaks the property for a scenario breaks it on every run of it.
func execE2E(in val.V) val.V {
	out := execE2EOnce(in)
	if fl := out.At(2); !(fl.At(0).Truth() && fl.At(1).Truth()) {
		again := execE2EOnce(in)
		if fl2 := again.At(2); fl2.At(0).Truth() && fl2.At(1).Truth() {
			e2eRepeats++
			fmt.Fprintf(os.Stderr, "e2e: a scenario failed once and passed when repeated (%d so far)\n", e2eRepeats)
			return again
		}
	}
	return out
}

func execE2EOnce(in val.V) val.V {
	kind := int(in.At(0).Num())
	// the tens digit of the kind: how the client's Connection is given its buffer (events up to 200 000 bytes must then
	// fit, on every attempt): 0 not at all (64 KiB limit), 1 Buffer(buf with the capacity, 0), 2 Buffer(nil, max),
	// 3 Buffer(small buf, max)
	errChar := kind / 100 // what a cut looks like to the client (see cutErr)
	bufCfg := kind / 10 % 10
	kind %= 10
	steps := in.At(1).Items()
	// in.At(2): OnSession returns its own topics (a freshly generated scenario has it there; a replayed line has the
	// published list there and the flag in position 5)
	if in.Len() > 3 {
		in = val.L(in.At(0), in.At(1), in.At(5))
	}
	run := &e2eRun{lis: &pipeListener{ch: make(chan net.Conn), closed: make(chan struct{})}}
	run.bodyCut.Store(-1)
	run.rawCut.Store(-1)
	run.finCut.Store(-1)
	run.errChar = errChar

	var replayer sse.Replayer
	auto := kind == 2 || kind == 3 || kind == 5
	small := kind >= 4 // a ring of 6 slots that wraps many times; the scenario then never lets the client fall more than 5 behind
	switch kind {
	case 0, 2:
		replayer, _ = sse.NewFiniteReplayer(512, auto)
	case 4, 5:
		replayer, _ = sse.NewFiniteReplayer(6, auto)
	default:
		vr, _ := sse.NewValidReplayer(1000*time.Second, auto)
		start := time.Now()
		vr.Now = func() time.Time { return start.Add(time.Duration(run.clock.Load()) * time.Second) }
		replayer = vr
	}
	var registrations atomic.Int64
	sse.VerifSetHook(func(point string, _, _ any) {
		if point == "loop.reg" {
			registrations.Add(1)
		}
	})
	defer sse.VerifSetHook(nil)
	joe := &sse.Joe{Replayer: replayer}
	srv := &sse.Server{Provider: joe}
	if in.At(2).Truth() {
		// the application chooses the topics itself (here: the default topic, spelled out)
		srv.OnSession = func(http.ResponseWriter, *http.Request) ([]string, bool) { return []string{sse.DefaultTopic}, true }
	}
	var usedAfterReturn atomic.Bool
	handler := http.HandlerFunc(func(w http.ResponseWriter, r *http.Request) {
		ctx, cancel := context.WithCancel(r.Context())
		defer cancel()
		run.cancelCur.Store(&cancel)
		g := &guardWriter{w: w, usedAfter: &usedAfterReturn}
		srv.ServeHTTP(g, r.WithContext(ctx))
		g.returned.Store(true)
	})
	hs := &http.Server{Handler: handler, ErrorLog: log.New(io.Discard, "", 0)}
	go hs.Serve(run.lis)

	tr := &http.Transport{
		DialContext: func(ctx context.Context, _, _ string) (net.Conn, error) {
			c1, c2 := net.Pipe()
			sc := &srvConn{Conn: c2, gone: make(chan struct{})}
			if ch := run.stallArm.Swap(nil); ch != nil {
				sc.stallAfter = 400
				sc.stall.Store(ch)
			}
			select {
			case run.lis.ch <- sc:
			case <-run.lis.closed:
				return nil, errors.New("listener closed")
			case <-ctx.Done():
				return nil, ctx.Err()
			}
			cc := &cutConn{Conn: c1, budget: &run.rawCut, fin: &run.finCut, char: run.errChar}
			run.mu.Lock()
			run.srvConns = append(run.srvConns, sc)
			run.mu.Unlock()
			run.curSrv.Store(sc)
			run.curCli.Store(cc)
			return cc, nil
		},
		DisableKeepAlives: true,
	}
	run.inner = tr
	client := &sse.Client{
		HTTPClient: &http.Client{Transport: run},
		Backoff:    sse.Backoff{InitialInterval: 200 * time.Microsecond, Multiplier: 1, Jitter: -1, MaxRetries: 0},
	}
	ctx, cancelClient := context.WithCancel(context.Background())
	req, _ := http.NewRequestWithContext(ctx, http.MethodGet, "http://pipe/", http.NoBody)
	conn := client.NewConnection(req)
	switch bufCfg {
	case 1:
		conn.Buffer(make([]byte, 0, 200000), 0)
	case 2:
		conn.Buffer(nil, 200000)
	case 3:
		conn.Buffer(make([]byte, 0, 4096), 200000)
	}
	var recvMu sync.Mutex
	recvCond := sync.NewCond(&recvMu)
	conn.SubscribeToAll(func(e sse.Event) {
		run.mu.Lock()
		a := run.attempts[len(run.attempts)-1]
		a.events = append(a.events, val.L(val.S(e.LastEventID), val.S(e.Type), val.S(e.Data)))
		run.mu.Unlock()
		run.curEvents.Add(1)
		recvMu.Lock()
		run.received++
		recvCond.Broadcast()
		recvMu.Unlock()
	})
	connDone := make(chan error, 1)
	go func() { connDone <- conn.Connect() }()

	published := []e2ePub{}
	// with automatic IDs half of the scenarios publish like a relay: ONE Message, refilled by UnmarshalText for every
	// event (the replayer stores a copy with the ID; the stored copies must keep their contents)
	relayMode := auto && in.At(2).Truth()
	relay := &sse.Message{}
	publish := func(payloadKind int) {
		seq := len(published)
		if payloadKind >= 1000 && bufCfg == 0 {
			payloadKind = 100 + payloadKind%50 // events beyond the default limit only for clients that raised it
		}
		typ, data := e2ePayload(payloadKind, seq)
		m := &sse.Message{}
		m.AppendData(data...)
		if typ != "" {
			m.Type = sse.Type(typ)
		}
		id := fmt.Sprint(seq)
		if !auto {
			id = "m" + id
			m.ID = sse.ID(id)
		}
		published = append(published, e2ePub{id: id, typ: typ, data: data})
		if relayMode {
			if b, err := m.MarshalText(); err == nil && relay.UnmarshalText(b) == nil {
				m = relay
			}
		}
		if len(published)%2 == 0 {
			_ = srv.Publish(m) // no topic given: the default topic
		} else {
			_ = joe.Publish(m, []string{sse.DefaultTopic})
		}
	}
	waitRecv := func(target int, d time.Duration) bool {
		deadline := time.Now().Add(d)
		recvMu.Lock()
		defer recvMu.Unlock()
		for run.received < target {
			if time.Now().After(deadline) {
				return false
			}
			recvMu.Unlock()
			time.Sleep(200 * time.Microsecond)
			recvMu.Lock()
		}
		return true
	}

	// warm up: publish until the client has received its first event (it has no ID to resume from before that)
	firstIdx := -1
	for i := 0; i < 400 && firstIdx < 0; i++ {
		publish(0)
		if waitRecv(1, 5*time.Millisecond) {
			break
		}
	}
	caughtUp := true
	if !waitRecv(1, 5*time.Second) {
		caughtUp = false
	}
	// which published message was the first one received, and how many are owed from there on
	owed := func() int {
		run.mu.Lock()
		defer run.mu.Unlock()
		var firstID string
		for _, a := range run.attempts {
			if len(a.events) > 0 {
				firstID = a.events[0].At(0).Str()
				break
			}
		}
		for i, p := range published {
			if p.id == firstID {
				firstIdx = i
				return len(published) - i
			}
		}
		return 1 << 30
	}
	if caughtUp {
		caughtUp = waitRecv(owed(), 5*time.Second)
	}
	for _, st := range steps {
		if !caughtUp {
			break
		}
		switch st.At(0).Num() {
		case 0:
			for i := 0; i < st.At(1).Int(); i++ {
				publish(st.At(2).Int())
			}
			if small {
				caughtUp = waitRecv(owed(), 5*time.Second)
			}
		case 1:
			run.bodyCut.Store(int64(st.At(1).Int()))
		case 2:
			run.rawCut.Store(int64(st.At(1).Int()))
		case 3:
			publish(1)
			if !waitRecv(owed(), 5*time.Second) {
				caughtUp = false
				break
			}
			// end the handler of the connection that delivered it (it has started its stream)
			regs := registrations.Load()
			if c := run.cancelCur.Load(); c != nil {
				(*c)()
			}
			if st.At(1).Truth() {
				// let the client's resubscription be registered by Joe before anything else is published
				for d := time.Now().Add(2 * time.Second); registrations.Load() == regs && time.Now().Before(d); {
					time.Sleep(100 * time.Microsecond)
				}
			}
		case 8:
			// the peer's FIN: after c more raw bytes the stream ends cleanly (io.EOF) right after the next line feed -
			// inside an event whenever the event has several lines
			run.finCut.Store(int64(st.At(1).Int()))
		case 5:
			// the replayer's clock advances (events the client already has may expire); only with automatic IDs, where a
			// resume point that is gone means "everything still stored", and only once the client has caught up
			if kind == 3 {
				if caughtUp = waitRecv(owed(), 5*time.Second); caughtUp {
					run.clock.Add(int64(st.At(1).Int()))
				}
			}
		case 6:
			// the connection is cut SILENTLY: the client sees a timeout, the server sees nothing and its writes vanish
			regs := registrations.Load()
			if sc, cc := run.curSrv.Load(), run.curCli.Load(); sc != nil && cc != nil && sc.mode.Load() == 0 {
				sc.mode.Store(1)
				cc.dead.Store(true)
				cc.Conn.SetReadDeadline(time.Now())
				for d := time.Now().Add(2 * time.Second); registrations.Load() == regs && time.Now().Before(d); {
					time.Sleep(100 * time.Microsecond)
				}
			}
		case 9:
			// the client is cut and comes back while three long events are owed to it; the peer of the NEW connection stops
			// reading after the response head, so the provider's replay waits in a write; meanwhile that handler is told to
			// end (its context is cancelled); after <ms> milliseconds the peer reads again.  The handler may return only when
			// the provider has let go of the session.
			if caughtUp = waitRecv(owed(), 5*time.Second); !caughtUp {
				break
			}
			ch := make(chan struct{})
			run.stallArm.Store(&ch)
			run.bodyCut.Store(0)
			for i := 0; i < 3; i++ {
				publish(100 + i)
			}
			var sc *srvConn
			for d := time.Now().Add(2 * time.Second); time.Now().Before(d); time.Sleep(100 * time.Microsecond) {
				if c := run.curSrv.Load(); c != nil && c.stall.Load() == &ch && c.stalled.Load() {
					sc = c
					break
				}
			}
			if sc != nil {
				if c := run.cancelCur.Load(); c != nil {
					(*c)()
				}
				time.Sleep(time.Duration(st.At(1).Int()) * time.Millisecond)
			}
			run.stallArm.Store(nil)
			if sc != nil {
				sc.stall.Store(nil)
			}
			close(ch)
		case 10:
			// a publication the replayer refuses (a message with an ID where IDs are generated, one without where they are
			// not), on a topic the client does not listen to: nothing is stored, nothing is owed to the client
			m := &sse.Message{}
			m.AppendData("refused")
			if auto {
				m.ID = sse.ID("taken")
			}
			_ = joe.Publish(m, []string{"elsewhere"})
		case 7:
			// the server's writes on silently cut connections start to fail
			run.mu.Lock()
			for _, sc := range run.srvConns {
				if sc.mode.Load() == 1 {
					sc.mode.Store(2)
				}
			}
			run.mu.Unlock()
		default:
			caughtUp = waitRecv(owed(), 5*time.Second)
		}
	}
	// no more faults; the client must catch up with everything published
	run.bodyCut.Store(-1)
	run.rawCut.Store(-1)
	run.finCut.Store(-1)
	if caughtUp {
		caughtUp = waitRecv(owed(), 10*time.Second)
	}
	run.mu.Lock()
	for _, sc := range run.srvConns {
		if sc.mode.Load() == 1 {
			sc.mode.Store(2)
		}
	}
	run.mu.Unlock()
	cancelClient()
	select {
	case <-connDone:
	case <-time.After(5 * time.Second):
	}
	sctx, scancel := context.WithTimeout(context.Background(), 5*time.Second)
	shutErr := srv.Shutdown(sctx)
	scancel()
	hs.Close()
	run.lis.Close()
	run.mu.Lock()
	for _, sc := range run.srvConns {
		sc.Close()
	}
	run.mu.Unlock()

	run.mu.Lock()
	defer run.mu.Unlock()
	pubs := make([]val.V, len(published))
	for i, p := range published {
		pubs[i] = val.L(val.S(p.id), val.S(p.typ), val.Strs(p.data))
	}
	atts := make([]val.V, len(run.attempts))
	for i, a := range run.attempts {
		atts[i] = val.L(val.Opt(val.S(a.hdr), a.hasHdr), val.Bool(a.noResp), val.B(a.body), val.Bool(a.endErr), val.List(a.events))
	}
	// the server survived: it shuts down cleanly, and no ResponseWriter was used after its handler had returned
	return val.L(val.List(pubs), val.List(atts), val.L(val.Bool(caughtUp), val.Bool(shutErr == nil && !usedAfterReturn.Load())))
}

func genE2EScenario(r *rng.R, thorough bool) val.V {
	kind := r.Intn(6)
	bufCfg := 0
	if r.Intn(4) == 0 {
		bufCfg = 1 + r.Intn(3)
	}
	kind += 10 * bufCfg
	if r.Intn(3) == 0 {
		kind += 100 * (1 + r.Intn(6))
	}
	nsteps := 3 + r.Intn(5)
	if thorough {
		nsteps = 4 + r.Intn(12)
	}
	steps := []val.V{}
	pub := func() {
		pk := r.Intn(len(e2ePayloads))
		if r.Intn(4) == 0 {
			pk = 100 + r.Intn(50)
		}
		k := 1 + r.Intn(4)
		if bufCfg > 0 && r.Intn(4) == 0 {
			pk, k = 1000+r.Intn(50), 1 // one at a time: the model spends seconds on a megabyte
		}
		steps = append(steps, val.L(val.N(0), val.Int(k), val.Int(pk)))
	}
	for i := 0; i < nsteps; i++ {
		switch x := r.Intn(100); {
		case x < 20:
			pub()
		case x < 50:
			c := r.Intn(60)
			if r.Intn(3) == 0 {
				c = r.Intn(5000)
			}
			steps = append(steps, val.L(val.N(1), val.Int(c)))
			pub() // something for the cut to fall into
		case x < 56:
			steps = append(steps, val.L(val.N(8), val.Int(r.Intn(260))))
			pub()
		case x < 75:
			c := r.Intn(200) // the response head is about 120 bytes: inside it, at its end, inside the first chunk
			if r.Intn(3) == 0 {
				c = r.Intn(6000)
			}
			steps = append(steps, val.L(val.N(2), val.Int(c)))
			pub()
		case x < 82:
			steps = append(steps, val.L(val.N(3), val.Bool(r.Bool())))
		case x < 88:
			steps = append(steps, val.L(val.N(5), val.Int(rng.Pick(r, []int{300, 600, 600, 1100}))))
			pub()
		case x < 94:
			// a silent cut, a resubscription next to the stale session, then the stale connection's writes fail
			steps = append(steps, val.L(val.N(6)))
			if r.Bool() {
				pub()
			}
			steps = append(steps, val.L(val.N(7)))
			pub()
		default:
			steps = append(steps, val.L(val.N(4)))
		}
		if r.Intn(3) == 0 {
			steps = append(steps, val.L(val.N(4)))
		}
		if r.Intn(10) == 0 {
			steps = append(steps, val.L(val.N(10)))
		}
	}
	return val.L(val.Int(kind), val.List(steps), val.Bool(r.Bool()))
}

func genE2E(c *Ctx) {
	n := 200
	if c.Thorough {
		n = 2500 // about 600 MB of traces; the driver reads at most 1.5 GB back
	}
	scen := make([]val.V, 0, n+16)
	// directed: a cut inside the first event after a reconnect; a cut exactly between events; cut in the head
	for kind := 0; kind < 6; kind++ {
		scen = append(scen,
			val.L(val.Int(kind), val.L(val.L(val.N(1), val.N(7)), val.L(val.N(0), val.N(3), val.N(1)), val.L(val.N(4)), val.L(val.N(1), val.N(0)), val.L(val.N(0), val.N(2), val.N(3)))),
			val.L(val.Int(kind), val.L(val.L(val.N(2), val.N(30)), val.L(val.N(0), val.N(2), val.N(4)), val.L(val.N(3)), val.L(val.N(0), val.N(2), val.N(120)), val.L(val.N(1), val.N(1500)), val.L(val.N(0), val.N(1), val.N(0)))),
		)
	}
	// directed: a client that raised its buffer limit (each way of saying so) receives events beyond the default limit on
	// the first attempt and on later ones, after a cut inside such an event and after a clean end of the body
	for bufCfg := 1; bufCfg <= 3; bufCfg++ {
		for ki, kind := range []int{0, 3, 5} {
			if !c.Thorough && ki != bufCfg-1 {
				continue
			}
			scen = append(scen, val.L(val.Int(kind+10*bufCfg), val.L(
				val.L(val.N(0), val.N(1), val.N(1001)), val.L(val.N(4)),
				val.L(val.N(1), val.N(30000)), val.L(val.N(0), val.N(2), val.N(1002)), val.L(val.N(4)),
				val.L(val.N(3), val.N(1)), val.L(val.N(0), val.N(1), val.N(1003)), val.L(val.N(4)),
				val.L(val.N(2), val.N(500)), val.L(val.N(0), val.N(1), val.N(1004)))))
		}
	}
	// directed: a ValidReplayer whose ring has grown (six and twelve events alive at once) is drained completely by the
	// collection of the first Put after a quiet period longer than the TTL (it shrinks); then the client is cut and
	// events are published while it is away
	for _, burst := range []int{6, 12} {
		for _, cut := range []val.V{val.L(val.N(1), val.N(0)), val.L(val.N(2), val.N(40)), val.L(val.N(3), val.N(1))} {
			scen = append(scen, val.L(val.N(3), val.L(
				val.L(val.N(0), val.Int(burst), val.N(0)), val.L(val.N(4)), val.L(val.N(5), val.N(1100)),
				val.L(val.N(0), val.N(1), val.N(1)), val.L(val.N(4)),
				cut, val.L(val.N(0), val.N(3), val.N(2)), val.L(val.N(4)),
				val.L(val.N(5), val.N(600)), val.L(val.N(0), val.N(2), val.N(3)), val.L(val.N(1), val.N(10)), val.L(val.N(0), val.N(2), val.N(0)))))
		}
	}
	// directed: refused publications between accepted ones, then cuts of every error character
	for kind := 0; kind < 6; kind++ {
		for _, char := range []int{0, 1 + kind} {
			scen = append(scen, val.L(val.Int(kind+100*char), val.L(
				val.L(val.N(0), val.N(2), val.N(1)), val.L(val.N(10)), val.L(val.N(0), val.N(1), val.N(2)), val.L(val.N(4)),
				val.L(val.N(1), val.N(0)), val.L(val.N(0), val.N(3), val.N(3)), val.L(val.N(4)),
				val.L(val.N(10)), val.L(val.N(2), val.N(150)), val.L(val.N(0), val.N(2), val.N(0)), val.L(val.N(4)),
				val.L(val.N(1), val.N(20)), val.L(val.N(0), val.N(2), val.N(4)))))
		}
	}
	// directed: a peer that stops reading while the handler is being ended (short and long stalls)
	for i, ms := range []int{20, 1300} {
		for _, kind := range []int{0, 3} {
			if !c.Thorough && kind != []int{0, 3}[i] {
				continue
			}
			scen = append(scen, val.L(val.Int(kind), val.L(val.L(val.N(0), val.N(2), val.N(1)), val.L(val.N(9), val.Int(ms)), val.L(val.N(4)),
				val.L(val.N(0), val.N(2), val.N(3)), val.L(val.N(4)))))
		}
	}
	// directed: a caught-up client reconnects (handler end) at every position of a small ring, incl. the wrap
	for kind := 4; kind < 6; kind++ {
		steps := []val.V{}
		for i := 0; i < 14; i++ {
			steps = append(steps, val.L(val.N(3), val.N(1)))
			if i%5 == 4 {
				steps = append(steps, val.L(val.N(1), val.N(0)), val.L(val.N(0), val.N(1), val.N(2)))
			}
		}
		scen = append(scen, val.L(val.Int(kind), val.List(steps)))
	}
	// directed: stale sessions next to fresh ones; expiry of received events in a ValidReplayer with automatic IDs
	for kind := 0; kind < 6; kind++ {
		steps := []val.V{}
		for i := 0; i < 7; i++ {
			steps = append(steps, val.L(val.N(6)), val.L(val.N(7)), val.L(val.N(0), val.N(2), val.Int(i)), val.L(val.N(4)))
		}
		scen = append(scen, val.L(val.Int(kind), val.List(steps)))
	}
	for variant := 0; variant < 6; variant++ {
		steps := []val.V{val.L(val.N(0), val.Int(1+variant%4), val.N(0)), val.L(val.N(4)), val.L(val.N(5), val.N(600)),
			val.L(val.N(0), val.N(3), val.N(1)), val.L(val.N(4)), val.L(val.N(5), val.N(600))}
		for i := 0; i < 6; i++ {
			steps = append(steps, val.L(val.N(0), val.N(1), val.N(2)), val.L(val.N(4)), val.L(val.N(1), val.N(0)), val.L(val.N(0), val.N(2), val.N(3)), val.L(val.N(4)))
		}
		scen = append(scen, val.L(val.N(3), val.List(steps)))
	}
	// directed: FIN-style ends right after a line feed, at many offsets, with multi-line events in flight
	for kind := 0; kind < 4; kind++ {
		for off := 0; off < 6; off++ {
			steps := []val.V{}
			for i := 0; i < 5; i++ {
				steps = append(steps, val.L(val.N(8), val.Int(off*7+i*13)), val.L(val.N(0), val.N(2), val.N(1)), val.L(val.N(0), val.N(1), val.N(4)), val.L(val.N(4)))
			}
			scen = append(scen, val.L(val.Int(kind), val.List(steps), val.Bool(off%2 == 0)))
		}
	}
	for i := 0; i < n; i++ {
		scen = append(scen, genE2EScenario(c.R, c.Thorough))
	}
	for _, s := range scen {
		for _, st := range s.At(1).Items() {
			c.Count(fmt.Sprintf("step:%d", st.At(0).Num()))
		}
		c.Count(fmt.Sprintf("replayer:%d", s.At(0).Num()))
		c.Emit(s)
	}
}
