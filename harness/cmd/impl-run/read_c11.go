package main

import (
	"errors"
	"io"

	sse "github.com/tmaxmax/go-sse"

	"verifharness/val"
)

// Family "read_c11" (C11, the clause about sse.Read): the real sse.Read over a scripted io.Reader that
// delivers given bytes in given chunks and then ends with io.EOF or an injected error (reported with
// the last bytes or by a separate call).  Observed: the events yielded and the error yielded, if any.
// The injected error is a value of any character (scriptedErr in connect.go: plain, Temporary/Timeout,
// wrapping io.EOF / io.ErrUnexpectedEOF / a deadline error, *net.OpError / *url.Error / *net.DNSError as a
// network produces them, values that are or match context.DeadlineExceeded / context.Canceled, values that ARE a
// well-known sentinel - io.ErrUnexpectedEOF as net/http returns it for a short body, the library's own
// ErrUnexpectedEOF, bufio.ErrTooLong, ... - or wrap / match one through an Is method);
// whatever it looks like it is a read error and must be yielded as itself (projected by identity: == for the
// sentinels - sse.ErrUnexpectedEOF and io.ErrUnexpectedEOF are different values).

func init() { families["read_c11"] = family{gen: genReadC11, exec: execReadC11} }

func execReadC11(in val.V) val.V {
	return guard(func() val.V {
		body := &scriptBody{data: append([]byte{}, in.At(0).Bytes()...), ending: in.At(1), chunks: in.At(2).Items(), withLast: in.At(3).Truth()}
		events := []val.V{}
		clear(lastBare)
		var yielded []error
		sse.Read(body, nil)(func(e sse.Event, err error) bool {
			if err != nil {
				yielded = append(yielded, err)
				return true // a further yield after an error would be recorded
			}
			if len(yielded) > 0 {
				yielded = append(yielded, errors.New("event after error"))
			}
			events = append(events, val.L(val.N(1), val.S(e.LastEventID), val.S(e.Type), val.S(e.Data)))
			return true
		})
		switch len(yielded) {
		case 0:
			return val.L(val.List(events), val.L())
		case 1:
			if yielded[0] == io.EOF {
				return val.L(val.List(events), val.L(val.L(val.N(0))))
			}
			return val.L(val.List(events), val.L(connErrOf(yielded[0])))
		default:
			return val.L(val.List(events), val.L(val.L(val.N(9), val.S("more than one error yielded"))))
		}
	})
}

func genReadC11(c *Ctx) {
	r := c.R
	n := 20000
	if c.Thorough {
		n = 400000
	}
	emit := func(body string, e int, withLast bool) {
		ending := val.L(val.N(0))
		switch e {
		case 0: // a clean end
		case 1:
			ending = val.L(val.N(1), val.N(connErrIdx(r, c, 100)))
		case 2: // a read error that wraps io.EOF
			ending = val.L(val.N(1), val.N(3101))
		default: // a read error of character e-3
			ending = val.L(val.N(1), val.N(uint64(1000*(e-3)+102)))
		}
		c.Emit(val.L(val.S(body), ending, connChunks(r, len(body)), val.Bool(withLast)))
	}
	for i := 0; i < n; i++ {
		e := 0
		if r.Chance(2, 5) {
			e = 1
		}
		c.Count([]string{"random:eof", "random:read-error"}[e])
		emit(connBody(r, 3, true), e, r.Chance(1, 4))
	}
	// endings after every byte position of short streams
	for _, s := range []string{"data: a\n\nid: 1\n\n", "id: 5\ndata: x\r\n\r\n: c\n", "\xef\xbb\xbfretry: 1\n\ndata: y\n\n", "data: a\n\n\n", "\n", "id: 3\revent: t\r\r", "data: a\r\n\r\ndata: b\r\n"} {
		for cut := 0; cut <= len(s); cut++ {
			for e := 0; e < 3+connErrKinds; e++ {
				c.Count("cut-sweep")
				emit(s[:cut], e, r.Bool())
			}
		}
	}
}
