package main

import (
	"fmt"
	"math/big"
	"time"

	sse "github.com/tmaxmax/go-sse"

	"verifharness/rng"
	"verifharness/val"
)

// Family "backoff" (C12, unit level): the real backoffController, created through
// verif_export.go (VerifNewBackoff: mergeDefaults + Backoff.new with an injected rand.Source),
// driven with histories of {attempt ends after a given elapsed time and RNG draw, response
// validated, server retry field}.  Observed: the normalised configuration, and after every
// operation next()'s answer, the controller's interval / numRetries and the number of RNG draws.
//
// All multipliers, jitters and RNG draws are dyadic rationals and all intervals have few
// significant bits, so every float64 operation of nextInterval/growInterval is exact and the
// outputs are compared EXACTLY with the rational model.  Wall clock: Next(elapsed) makes
// time.Since(start) = elapsed + (a few hundred ns); every case keeps elapsed+wait at least
// 2^29 ns (0.5 s) away from MaxElapsedTime, or MaxElapsedTime is out of reach.

func init() { families["backoff"] = family{gen: genBackoff, exec: execBackoff} }

// scriptSource is a rand.Source whose next value is set by the script; it counts calls.
type scriptSource struct {
	next  int64
	calls int
}

func (s *scriptSource) Int63() int64 { s.calls++; return s.next }
func (s *scriptSource) Seed(int64)   {}

func ratFloat(v val.V) float64 {
	return float64(v.At(0).Signed()) / float64(v.At(1).Signed())
}

func floatRat(f float64) val.V {
	r := new(big.Rat)
	if r.SetFloat64(f) == nil || !r.Num().IsInt64() || !r.Denom().IsInt64() {
		return val.S(fmt.Sprintf("float %v", f))
	}
	return val.L(val.Z(r.Num().Int64()), val.Z(r.Denom().Int64()))
}

func execBackoff(in val.V) val.V {
	return guard(func() val.V {
		cfg, ops := in.At(0), in.At(1)
		src := &scriptSource{}
		v := sse.VerifNewBackoff(sse.Backoff{
			InitialInterval: time.Duration(cfg.At(0).Signed()),
			Multiplier:      ratFloat(cfg.At(1)),
			Jitter:          ratFloat(cfg.At(2)),
			MaxInterval:     time.Duration(cfg.At(3).Signed()),
			MaxElapsedTime:  time.Duration(cfg.At(4).Signed()),
			MaxRetries:      int(cfg.At(5).Signed()),
		}, src)
		conf := v.Config()
		steps := []val.V{}
		for _, op := range ops.Items() {
			switch op.At(0).Num() {
			case 0:
				// rand.Rand.Float64() = float64(src.Int63()) / (1<<63): with Int63 = un * 2^63/ud the
				// draw is exactly un/ud (ud a power of two <= 2^53)
				un, ud := op.At(2).At(0).Signed(), op.At(2).At(1).Signed()
				src.next = un * (int64(1) << 62 / ud * 2)
				src.calls = 0
				w, ok := v.Next(time.Duration(op.At(1).Signed()))
				iv, nr := v.State()
				steps = append(steps, val.L(val.Opt(val.Z(int64(w)), ok), val.Z(int64(iv)), val.Z(int64(nr)), val.Int(src.calls)))
			case 1:
				v.Reset(0)
				iv, nr := v.State()
				steps = append(steps, val.L(val.Z(int64(iv)), val.Z(int64(nr))))
			default:
				// client_connection.go:172: setRetry(time.Duration(r) * time.Millisecond)
				v.Reset(time.Duration(op.At(1).Signed()) * time.Millisecond)
				iv, nr := v.State()
				steps = append(steps, val.L(val.Z(int64(iv)), val.Z(int64(nr))))
			}
		}
		return val.L(
			val.L(val.Z(int64(conf.InitialInterval)), floatRat(conf.Multiplier), floatRat(conf.Jitter)),
			val.List(steps))
	})
}

func vrat(n, d int64) val.V { return val.L(val.Z(n), val.Z(d)) }

type ratio struct{ n, d int64 }

// upper bound of the base after one growth (for keeping histories inside the exact range)
func (m ratio) grow(x int64) int64 {
	if m.n < m.d { // replaced by the default 3/2
		return x*3/2 + 1
	}
	return x/m.d*m.n + m.n
}

func genBackoff(c *Ctx) {
	r := c.R
	// ---- class A: arbitrary nanosecond values; MaxElapsedTime unset, out of reach, or long exceeded
	nA, nB, nC := 12000, 8000, 1000
	if c.Thorough {
		nA, nB, nC = 300000, 200000, 20000
	}
	initials := []int64{0, -5, 1, 1000, 7_000_000, 123_456_789, 500_000_000, 40_000_000, 3}
	muls := []ratio{{1, 1}, {5, 4}, {3, 2}, {2, 1}, {3, 1}, {7, 4}, {9, 8}, {1, 2}, {0, 1}, {-1, 1}, {3, 4}, {4, 1}}
	jitters := []ratio{{-1, 1}, {-1, 1}, {0, 1}, {1, 4}, {1, 2}, {3, 4}, {127, 128}, {1, 8}, {1, 1}, {3, 2}, {-1, 2}, {-2, 1}, {5, 8}}
	retries := []int64{-1, 0, 0, 1, 2, 3, 5}
	const limitA = int64(1) << 34
	for i := 0; i < nA; i++ {
		ini := rng.Pick(r, initials)
		if r.Chance(1, 4) {
			ini = int64(r.U64() % (1 << 30))
		}
		mul, jit := rng.Pick(r, muls), rng.Pick(r, jitters)
		eff := ini
		if eff <= 0 {
			eff = 500_000_000
		}
		var maxI int64
		switch r.Intn(6) {
		case 0:
			maxI = -1
		case 1:
			maxI = eff // cap = initial
		case 2:
			maxI = eff/2 + 1 // cap below the initial interval
		case 3:
			maxI = eff*2 + int64(r.Intn(1000))
		case 4:
			maxI = eff*7 + 3
		}
		var maxE int64
		mode := r.Intn(4) // 0,1: unset; 2: out of reach; 3: elapsed already beyond it
		switch mode {
		case 1:
			maxE = -1
		case 2:
			maxE = 1 << 60
		case 3:
			maxE = int64(1+r.Intn(5)) * 1_000_000_000
		}
		maxR := rng.Pick(r, retries)
		ub := eff
		nops := 1 + r.Intn(14)
		ops := []val.V{}
		for j := 0; j < nops; j++ {
			k := r.Intn(10)
			if ub > limitA && k < 7 {
				k = 7 + r.Intn(3)
			}
			switch {
			case k < 7:
				var e int64
				switch mode {
				case 2:
					e = int64(r.U64() % (1 << 40))
				case 3:
					e = maxE + 1_000_000_000 + int64(r.U64()%(1<<33))
				default:
					e = int64(r.U64() % (1 << 36))
				}
				s := uint(1 + r.Intn(8))
				un := int64(r.U64() % (1 << s))
				switch r.Intn(6) {
				case 0:
					un = 0
				case 1:
					un = (1 << s) - 1
				}
				ops = append(ops, val.L(val.N(0), val.Z(e), vrat(un, 1<<s)))
				ub = mul.grow(ub)
				c.Count("A:op:fail")
			case k == 7:
				ops = append(ops, val.L(val.N(1)))
				ub = eff
				c.Count("A:op:success")
			default:
				var ms int64
				switch r.Intn(5) {
				case 0:
					ms = 0
				case 1:
					ms = int64(1 + r.Intn(50))
				case 2:
					if maxI > 0 {
						ms = maxI/1_000_000 + int64(1+r.Intn(20)) // above MaxInterval
					} else {
						ms = int64(r.Intn(3000))
					}
				default:
					ms = int64(r.U64() % 16000)
				}
				ops = append(ops, val.L(val.N(2), val.Z(ms)))
				ub = ms * 1_000_000
				if ub == 0 {
					ub = eff
				}
				c.Count("A:op:retry")
			}
		}
		c.Count(fmt.Sprintf("A:jitter=%d/%d", jit.n, jit.d))
		c.Count(fmt.Sprintf("A:maxRetries=%d", maxR))
		c.Emit(val.L(val.L(val.Z(ini), vrat(mul.n, mul.d), vrat(jit.n, jit.d), val.Z(maxI), val.Z(maxE), val.Z(maxR)), val.List(ops)))
	}

	// ---- class B: quantised values, elapsed + wait always 2^29 ns away from MaxElapsedTime:
	// bases are multiples of 2^34, waits multiples of 2^30, elapsed a multiple of 2^30,
	// MaxElapsedTime = 2^29 mod 2^30.
	mulsB := []ratio{{1, 1}, {3, 2}, {2, 1}, {5, 4}, {3, 1}}
	jittersB := []ratio{{-1, 1}, {1, 4}, {1, 2}, {3, 4}, {1, 2}}
	const q40 = int64(1) << 40
	for i := 0; i < nB; i++ {
		ini := int64(1+r.Intn(16)) * q40
		mul, jit := rng.Pick(r, mulsB), rng.Pick(r, jittersB)
		var maxI int64
		if r.Chance(1, 3) {
			maxI = int64(1+r.Intn(32)) * q40
		}
		maxE := ini*int64(rng.Pick(r, []int{1, 2, 3, 5, 8})) + 1<<29
		maxR := rng.Pick(r, []int64{0, 0, 0, 2, 3, 5})
		ops := []val.V{}
		series := 0
		nops := 1 + r.Intn(10)
		for j := 0; j < nops; j++ {
			k := r.Intn(10)
			if series >= 3 && k < 7 {
				k = 7 + r.Intn(3)
			}
			switch {
			case k < 7:
				e := int64(r.U64()%uint64(maxE>>30+2)) << 30
				un := int64(r.Intn(8))
				if r.Chance(1, 3) {
					un = 4 + int64(r.Intn(4)) // upward draws: wait above the base
				}
				ops = append(ops, val.L(val.N(0), val.Z(e), vrat(un, 8)))
				series++
				c.Count("B:op:fail")
			case k == 7:
				ops = append(ops, val.L(val.N(1)))
				series = 0
				c.Count("B:op:success")
			default:
				ms := int64(r.Intn(8)) << 34 // ms * 10^6 is a multiple of 2^40 and stays below 2^63 after three growths
				ops = append(ops, val.L(val.N(2), val.Z(ms)))
				series = 0
				c.Count("B:op:retry")
			}
		}
		c.Count(fmt.Sprintf("B:jitter=%d/%d", jit.n, jit.d))
		c.Emit(val.L(val.L(val.Z(ini), vrat(mul.n, mul.d), vrat(jit.n, jit.d), val.Z(maxI), val.Z(maxE), val.Z(maxR)), val.List(ops)))
	}

	// ---- class C: server retry values up to 10^12 ms (no jitter, short series: few significant bits)
	for i := 0; i < nC; i++ {
		mul := rng.Pick(r, []ratio{{1, 1}, {3, 2}, {2, 1}})
		big := []int64{1_000_000_000_000, 500_000_000_000, 1 << 39, 1_000_000_000, 86_400_000, 3_600_000} // few significant bits: exact in float64
		var maxI int64
		if r.Chance(1, 2) {
			maxI = int64(1+r.Intn(100)) * 3_600_000_000_000 // hours
		}
		ops := []val.V{val.L(val.N(1)), val.L(val.N(2), val.Z(rng.Pick(r, big)))}
		for j, n := 0, 1+r.Intn(3); j < n; j++ {
			ops = append(ops, val.L(val.N(0), val.Z(int64(r.Intn(1000))), vrat(0, 1)))
		}
		if r.Bool() {
			ops = append(ops, val.L(val.N(1)), val.L(val.N(0), val.Z(0), vrat(0, 1)))
		}
		c.Count("C:huge-retry")
		c.Emit(val.L(val.L(val.Z(int64(1+r.Intn(1000))*1_000_000), vrat(mul.n, mul.d), vrat(-1, 1), val.Z(maxI), val.Z(0), val.Z(0)), val.List(ops)))
	}
}
