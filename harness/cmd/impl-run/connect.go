package main

import (
	"bufio"
	"context"
	"errors"
	"fmt"
	"io"
	"net"
	"net/http"
	"net/url"
	"os"
	"strconv"
	"strings"
	"sync"
	"sync/atomic"
	"syscall"
	"time"

	sse "github.com/tmaxmax/go-sse"

	"verifharness/rng"
	"verifharness/val"
)

// Family "connect" (C10 C11, integration half of C12): a real sse.Client / Connection whose
// http.Client has a scripted RoundTripper.  Per attempt the script says: transport error, the
// context is cancelled inside RoundTrip, the validator rejects, or a response whose body delivers
// given bytes in given chunks and then ends with EOF / an injected error / cancellation.
// Observed, in one ordered log: every request at the RoundTripper (Last-Event-ID header values,
// which generation of the request body it carried), every event at a SubscribeToAll callback,
// every OnRetry(err, duration); and Connect's return value projected to a small enum.
//
// Determinism: everything (RoundTrip, Read, validator, callbacks) runs on Connect's goroutine.
// Jitter is -1 (no RNG), intervals are microseconds, MaxElapsedTime is unset / 1 ns / one hour, so
// no outcome depends on the wall clock; a wait of at least "patience" (0.9 s) is never slept:
// OnRetry cancels the context, which the select then observes long before the timer.
//
// Injected errors (transport, validator, reader, GetBody) are VALUES identified by an index; the index
// also fixes the character of the value (scriptedErr): a plain error, one whose type says Temporary() or
// Timeout(), one that wraps io.EOF / io.ErrUnexpectedEOF / os.ErrDeadlineExceeded, a *net.OpError around
// a wrapped io.EOF; what a network really produces (*net.OpError{Op:"dial"} around ECONNREFUSED,
// *net.OpError{Op:"read"} around ECONNRESET, either inside a *url.Error as an http.Client hands it out,
// *net.DNSError alone and inside a dial error); and errors that ARE or MATCH context.DeadlineExceeded /
// context.Canceled although the request context is alive (the sentinels themselves, values wrapping them,
// values whose Is method matches them as net/http's and net's timeout errors do, the latter also inside a
// dial error): a timeout that belongs to one attempt, not to the request.  The properties quantify over all
// errors; what they say depends on WHERE the error arose, never on what it looks like, so the model takes
// the index as opaque and the projection (connErrOf) finds the injected value by identity (errors.As on the
// harness's own types, the name of an injected *net.DNSError, == for the bare sentinels) before it asks
// errors.Is about anything else.
//
// The request context (cfg.At(8)) is of every kind the context package offers: WithCancel, WithCancelCause
// cancelled with a cause of its own, children of such a context (WithCancel, WithValue, WithTimeoutCause whose
// timer is out of reach), a deadline that has already passed when Connect is called (WithDeadlineCause, real),
// and a deadline that expires at a scripted instant (simDeadline: Err() is context.DeadlineExceeded,
// context.Cause is the cause given).  Whatever the kind, "the context's error" is request.Context().Err() -
// the projection of Connect's return value demands that very value (==), not something that merely matches
// it, and never the cause.
//
// The same *Client may have produced other Connections before the one under test (cfg.At(6) throw-away
// NewConnection calls): the configuration a Connection runs with is a function of the Client's fields,
// however often NewConnection normalised them.
//
// A response carries a status code (the last element of a rejected / accepted step; absent or 0 = 200): the
// informational, success, redirection, client- and server-error codes of connStatuses.  Whether a response is accepted
// is the VALIDATOR's verdict, which the script fixes; the status is what a validator may look at and nothing else, so
// once the verdict is scripted the status cannot matter: model and oracle do not read it.  The validator (cfg.At(9))
// is a closure of the harness (accepts unless the script says "rejected") or, for scripts without a rejected response,
// the library's own sse.NoopValidator.
//
// A REJECTED response may be a stream the server keeps open (fourth element of a rejected step: 1 = quiet, 2 = a few bytes
// and then quiet): its body does not end - Read blocks until the body is closed (and then fails, as net/http's bodies do)
// or until the harness gives up.  Observed per such body, at the end of the call's log: how many Read calls it saw before
// Connect returned, and whether Connect was still running when the patience (0.9 s, the same as for waits) had passed
// since the response was handed to it - the harness then releases the body, so a Connect that waits for a rejected
// body becomes the observation "stuck" and the run goes on to its return value.  The code returns from the validator's
// error without reading the body (Close by defer), microseconds after RoundTrip: never stuck.
//
// Attempts may take time (cfg.At(7): RoundTrip / the end of the body sleep a few ms).  One-sided timing
// observation, for every OnRetry that is followed by a request: the monotonic time from the end of the
// OnRetry call (the timer is armed after it) to the start of that RoundTrip is at least the wait handed
// to OnRetry - "the wait actually used".  A timer never fires early, so this cannot fail on timing.

func init() { families["connect"] = family{gen: genConnect, exec: execConnect} }

const connPatience = 900_000_000

type genBody struct {
	gen  int
	r    *strings.Reader
	used bool
}

func newGenBody(gen int) *genBody {
	return &genBody{gen: gen, r: strings.NewReader("gen-" + strconv.Itoa(gen))}
}
func (b *genBody) Read(p []byte) (int, error) {
	if b.used {
		return 0, errors.New("request body read after it was consumed")
	}
	n, err := b.r.Read(p)
	if err == io.EOF {
		b.used = true
	}
	return n, err
}
func (b *genBody) Close() error { b.used = true; return nil }

// seekGenBody: a request body that could be rewound (an *os.File, a spooled upload, a bytes.Reader with a Close).  The
// property wants every retry's body from GetBody - nobody may rewind the consumed one instead; a rewound body reads as
// its generation again, which the request log then shows.
type seekGenBody struct{ *genBody }

func (b seekGenBody) Seek(off int64, whence int) (int64, error) {
	b.used = false
	return b.r.Seek(off, whence)
}

// reqBody: the body of generation gen, seekable in a deterministic half of the cases
func reqBody(gen int, seekable bool) io.ReadCloser {
	if seekable {
		return seekGenBody{newGenBody(gen)}
	}
	return newGenBody(gen)
}

// charErr is an injected error value with a character; idx/1000 selects it (see scriptedErr).
type charErr struct{ idx uint64 }

func (e charErr) kind() uint64    { return e.idx / 1000 }
func (e charErr) Error() string   { return fmt.Sprintf("scripted error %d", e.idx) }
func (e charErr) Temporary() bool { return e.kind() == 1 }
func (e charErr) Timeout() bool {
	switch e.kind() {
	case 2, 15, 18:
		return true
	}
	return false
}
func (e charErr) Unwrap() error {
	switch e.kind() {
	case 3, 6:
		return io.EOF
	case 4:
		return io.ErrUnexpectedEOF
	case 5:
		return os.ErrDeadlineExceeded
	case 7, 9:
		return &os.SyscallError{Syscall: "connect", Err: syscall.ECONNREFUSED}
	case 8, 10:
		return &os.SyscallError{Syscall: "read", Err: syscall.ECONNRESET}
	case 13:
		return context.DeadlineExceeded
	case 14:
		return context.Canceled
	case 32:
		return bufio.ErrTooLong
	case 33:
		return sse.ErrUnexpectedEOF
	case 34:
		return sse.ErrNoGetBody
	}
	return nil
}

// Is: the way net/http's timeoutError and net's timeoutError / canceledError match the context sentinels.
func (e charErr) Is(target error) bool {
	switch e.kind() {
	case 15, 18:
		return target == context.DeadlineExceeded
	case 19:
		return target == context.Canceled
	case 35:
		return target == io.EOF
	case 36:
		return target == io.ErrUnexpectedEOF || target == sse.ErrUnexpectedEOF
	case 37:
		return target == bufio.ErrTooLong
	}
	return false
}

const connErrKinds = 38

// connSentinels: the kinds whose injected value IS a well-known sentinel - the value itself, not something that wraps or
// matches it.  Among them the values whose identity the library itself gives a meaning to: io.ErrUnexpectedEOF (what
// net/http's body reader returns for a body shorter than its Content-Length), the library's own ErrUnexpectedEOF and
// ErrNoGetBody, bufio.ErrTooLong (what an oversized event makes the scanner report), the context sentinels.  Wherever
// such a value is injected (reader, transport, validator, GetBody) it is an injected error like any other.
var connSentinels = map[uint64]error{
	16: context.DeadlineExceeded, 17: context.Canceled,
	20: io.ErrUnexpectedEOF, 21: bufio.ErrTooLong, 22: sse.ErrUnexpectedEOF, 23: sse.ErrNoGetBody,
	24: os.ErrDeadlineExceeded, 25: io.ErrClosedPipe, 26: io.ErrNoProgress, 27: net.ErrClosed,
	28: http.ErrBodyReadAfterClose, 29: io.ErrShortBuffer, 30: syscall.ECONNRESET, 31: http.ErrHandlerTimeout,
}

// bareIdx: is err one of the sentinels themselves (==, never errors.Is: the library's own sentinels may alias or wrap
// others), injected in the current attempt?  Sentinels are pointers or errnos, so the comparison cannot panic.
func bareIdx(err error) (uint64, bool) {
	for _, s := range connSentinels {
		if err == s {
			n := lastBare[s]
			return n, n != 0
		}
	}
	return 0, false
}

const dnsNamePrefix = "verif-injected-"

// the index under which a bare sentinel (connSentinels) was injected in the CURRENT attempt: a sentinel has no room for an
// index, so the projection reports the injection of that very value (every clause about an injected error is about the
// latest one: OnRetry's argument, the error Connect returns, the error Read yields).  Forgotten when the next request
// reaches the RoundTripper: from then on the same value - the library's own ErrUnexpectedEOF for a clean end in mid-line,
// bufio.ErrTooLong for an oversized event - is the library's again, not the harness's.
var lastBare = map[error]uint64{}

// whether the current entries of lastBare were injected by GetBody (the only injection site of a body reset)
var bareAtReset bool

var scriptedAddr = &net.TCPAddr{IP: net.IPv4(127, 0, 0, 1), Port: 9}

// scriptedErr is the injected error value with index n.  n/1000:
//
//	0 plain (codeErr) | 1 Temporary() is true | 2 Timeout() is true | 3 wraps io.EOF | 4 wraps io.ErrUnexpectedEOF |
//	5 wraps os.ErrDeadlineExceeded (whose Timeout() is true) | 6 a *net.OpError whose Err wraps io.EOF (a dropped TCP connection) |
//	7 *net.OpError{Op:"dial"} around connect: ECONNREFUSED | 8 *net.OpError{Op:"read"} around read: ECONNRESET |
//	9, 10 the same two inside a *url.Error (what an http.Client returns, e.g. one used by a RoundTripper or by GetBody) |
//	11 *net.DNSError | 12 *net.OpError{Op:"dial"} around a *net.DNSError |
//	13 wraps context.DeadlineExceeded | 14 wraps context.Canceled | 15 matches context.DeadlineExceeded through Is and says
//	Timeout() (http.Client.Timeout's error) | 16 context.DeadlineExceeded itself | 17 context.Canceled itself |
//	18 *net.OpError{Op:"dial"} around a timeout that matches context.DeadlineExceeded (a dialer's own deadline) |
//	19 *net.OpError{Op:"dial"} around a value that matches context.Canceled (net's "operation was canceled") |
//	20-31 a well-known sentinel ITSELF (connSentinels): io.ErrUnexpectedEOF, bufio.ErrTooLong, sse.ErrUnexpectedEOF,
//	sse.ErrNoGetBody, os.ErrDeadlineExceeded, io.ErrClosedPipe, io.ErrNoProgress, net.ErrClosed, http.ErrBodyReadAfterClose,
//	io.ErrShortBuffer, ECONNRESET, http.ErrHandlerTimeout | 32-34 wraps bufio.ErrTooLong / sse.ErrUnexpectedEOF /
//	sse.ErrNoGetBody | 35-37 matches io.EOF / both ErrUnexpectedEOFs / bufio.ErrTooLong through an Is method
//
// 13-19 are injected while the request context is alive: they are errors of the attempt, not of the context.
func scriptedErr(n uint64) error {
	dns := func() *net.DNSError {
		return &net.DNSError{Err: "no such host", Name: dnsNamePrefix + strconv.FormatUint(n, 10), IsNotFound: true}
	}
	switch n / 1000 {
	case 0:
		return codeErr{n}
	case 6, 8:
		return &net.OpError{Op: "read", Net: "tcp", Source: scriptedAddr, Addr: scriptedAddr, Err: charErr{n}}
	case 7, 18, 19:
		return &net.OpError{Op: "dial", Net: "tcp", Addr: scriptedAddr, Err: charErr{n}}
	case 9:
		return &url.Error{Op: "Post", URL: "http://127.0.0.1:9/", Err: &net.OpError{Op: "dial", Net: "tcp", Addr: scriptedAddr, Err: charErr{n}}}
	case 10:
		return &url.Error{Op: "Get", URL: "http://127.0.0.1:9/", Err: &net.OpError{Op: "read", Net: "tcp", Source: scriptedAddr, Addr: scriptedAddr, Err: charErr{n}}}
	case 11:
		return dns()
	case 12:
		return &net.OpError{Op: "dial", Net: "tcp", Err: dns()}
	default:
		if s, ok := connSentinels[n/1000]; ok {
			lastBare[s] = n
			return s
		}
		return charErr{n}
	}
}

// connErrIdx draws the index of an injected error: a small number above base, of a random character.
func connErrIdx(r *rng.R, c *Ctx, base int) uint64 {
	kind := 0
	if r.Chance(1, 2) {
		kind = 1 + r.Intn(connErrKinds-1)
	}
	c.Count(fmt.Sprintf("error-character:%d", kind))
	return uint64(base + r.Intn(5) + 1000*kind)
}

// simDeadline is a context whose deadline expires when the script says so: cancelling the context it wraps IS the
// expiry.  Err() is then context.DeadlineExceeded and context.Cause is the cause handed to the inner cancel - what
// context.WithTimeoutCause gives when its timer fires.  It is always the request context itself (never a parent).
type simDeadline struct {
	context.Context
	at time.Time
}

func (d simDeadline) Deadline() (time.Time, bool) { return d.at, true }
func (d simDeadline) Err() error {
	if d.Context.Err() != nil {
		return context.DeadlineExceeded
	}
	return nil
}

type scriptedCause struct{ what string }

func (c scriptedCause) Error() string { return "scripted cause: " + c.what }

// Unwrap: a cause may well be built around the sentinel (fmt.Errorf("shutting down: %w", context.Canceled));
// it still is not the context's error.
func (c scriptedCause) Unwrap() error {
	if c.what == "wrapping" {
		return context.Canceled
	}
	return nil
}

const connCtxKinds = 7

type connCtxKey struct{}

// connContext builds the request context of kind k; end ends it the way the kind is ended (cancel, cancel with a
// cause, expiry), release frees its resources after the run.
//
//	0 WithCancel | 1 WithCancelCause, cancelled with a cause | 2 WithCancel child of 1 | 3 WithValue child of 1 |
//	4 WithTimeoutCause (one hour, a cause of its own) child of 1 | 5 a deadline with a cause that expires when the script
//	says (simDeadline) | 6 WithDeadlineCause whose deadline passed before the request was made (only together with
//	"cancelled before Connect"; otherwise one hour away, ended through its parent like 4)
func connContext(k uint64, doneBefore bool) (ctx context.Context, end, release func()) {
	if k == 0 {
		ctx, cancel := context.WithCancel(context.Background())
		return ctx, cancel, cancel
	}
	what := "plain"
	if k%2 == 0 {
		what = "wrapping"
	}
	parent, cancelCause := context.WithCancelCause(context.Background())
	end = func() { cancelCause(scriptedCause{what}) }
	switch k {
	case 1:
		return parent, end, end
	case 2:
		ctx, cancel := context.WithCancel(parent)
		return ctx, end, func() { end(); cancel() }
	case 3:
		return context.WithValue(parent, connCtxKey{}, "v"), end, end
	case 4:
		ctx, cancel := context.WithTimeoutCause(parent, time.Hour, scriptedCause{"timer"})
		return ctx, end, func() { end(); cancel() }
	case 5:
		return simDeadline{parent, time.Now().Add(time.Hour)}, end, end
	default:
		at := time.Now().Add(time.Hour)
		if doneBefore {
			at = time.Now().Add(-time.Second)
		}
		ctx, cancel := context.WithDeadlineCause(parent, at, scriptedCause{what})
		return ctx, end, func() { end(); cancel() }
	}
}

type connRun struct {
	items    []val.V
	steps    []val.V
	idx      int
	overrun  bool
	ctx      context.Context
	cancel   func() // ends the request context the way its kind is ended: cancel, cancel with a cause, expiry
	patience int64  // 0: none
	reject   uint64
	gbCalls  int
	gbAfter  int
	gbErr    uint64
	gbKind   uint64

	rtDelay, bodyDelay time.Duration // how long RoundTrip / the end of a body take
	pending            bool          // OnRetry was called and no request was seen since
	retryAt            time.Time     // when that OnRetry call ended
	retryWait          time.Duration // the wait it was handed
	gaps               []val.V       // per OnRetry followed by a request: did at least the wait pass?

	open   []*openBody    // the open bodies of rejected responses handed out in this call
	opened chan *openBody // the same, for the watchdog of the call
}

// openBody is the body of a rejected response that stays open (see the head of the file).
type openBody struct {
	mu     sync.Mutex
	prefix []byte
	reads  atomic.Int64
	once   sync.Once
	gone   chan struct{} // closed by Close or by the harness
	stuck  bool
}

var errOpenBodyGone = errors.New("read on a closed response body")

func newOpenBody(kind uint64) *openBody {
	b := &openBody{gone: make(chan struct{})}
	if kind == 2 {
		b.prefix = []byte(": hold on\n\n")
	}
	return b
}
func (b *openBody) release()     { b.once.Do(func() { close(b.gone) }) }
func (b *openBody) Close() error { b.release(); return nil }
func (b *openBody) Read(p []byte) (int, error) {
	b.reads.Add(1)
	select {
	case <-b.gone:
		return 0, errOpenBodyGone
	default:
	}
	b.mu.Lock()
	if len(b.prefix) > 0 && len(p) > 0 {
		n := copy(p, b.prefix)
		b.prefix = b.prefix[n:]
		b.mu.Unlock()
		return n, nil
	}
	b.mu.Unlock()
	<-b.gone
	return 0, errOpenBodyGone
}

type scriptBody struct {
	run      *connRun
	data     []byte
	chunks   []val.V
	ending   val.V
	withLast bool

	tailServed bool
	closed     atomic.Bool // Close was called: like a net/http body, every later Read fails with "read on closed body"
	cancelled  bool        // ending (2 2): the context was ended together with the last bytes handed out
}

func (s *scriptBody) end() error {
	if s.run != nil && s.run.bodyDelay > 0 {
		time.Sleep(s.run.bodyDelay)
	}
	switch s.ending.At(0).Num() {
	case 0, 3:
		return io.EOF
	case 1:
		return scriptedErr(s.ending.At(1).Num())
	default:
		if s.ending.At(1).Num() == 2 && s.cancelled {
			// the context ended while the Connection was working on bytes it already had, not inside a Read.  A transport's
			// body answers the next Read with the context's error - unless somebody closed the body meanwhile, then with
			// its read-after-close error (a few milliseconds for such a Close to arrive; correct code never makes one
			// before its read loop is over)
			for i := 0; i < 50 && !s.closed.Load(); i++ {
				time.Sleep(100 * time.Microsecond)
			}
			if s.closed.Load() {
				return http.ErrBodyReadAfterClose
			}
			return s.run.ctx.Err()
		}
		if s.ending.At(1).Num() == 1 {
			// blocked in Read until somebody else cancels the request context
			go func() { time.Sleep(20 * time.Microsecond); s.run.cancel() }()
			<-s.run.ctx.Done()
		} else {
			s.run.cancel()
		}
		return s.run.ctx.Err()
	}
}

// oversizedTail is a line longer than the default maximum event size (64 KiB): ending kind 3 serves it after the scripted
// bytes, so the attempt ends with bufio.ErrTooLong - an attempt error like any other (retried under the backoff policy).
var oversizedTail = strings.Repeat("x", 70000)

func (s *scriptBody) Read(p []byte) (int, error) {
	if s.closed.Load() {
		return 0, http.ErrBodyReadAfterClose
	}
	if len(s.data) == 0 && s.ending.At(0).Num() == 3 && !s.tailServed {
		s.tailServed = true
		s.data = []byte(oversizedTail)
		s.chunks = nil
	}
	if len(s.data) == 0 {
		return 0, s.end()
	}
	n := len(s.data)
	if len(s.chunks) > 0 {
		if c := s.chunks[0].Int(); c > 0 && c < n {
			n = c
		}
		s.chunks = s.chunks[1:]
	}
	if n > len(p) {
		n = len(p)
	}
	copy(p, s.data[:n])
	s.data = s.data[n:]
	if len(s.data) == 0 && s.withLast && (s.ending.At(0).Num() != 3 || s.tailServed) {
		return n, s.end()
	}
	if len(s.data) == 0 && s.ending.At(0).Num() == 2 && s.ending.At(1).Num() == 2 {
		s.cancelled = true
		s.run.cancel() // the request context ends now; these last bytes are still handed out
	}
	return n, nil
}
func (s *scriptBody) Close() error { s.closed.Store(true); return nil }

func (r *connRun) RoundTrip(req *http.Request) (*http.Response, error) {
	started := time.Now()
	if err := r.ctx.Err(); err != nil && !r.overrun {
		// like a real transport: a request on a done context fails with the context's error.  This is only
		// reached if the select of Connect picked an expired timer over the done context, which needs
		// the process to stall for the whole wait (>= 0.9 s) after OnRetry cancelled: not logged, so
		// that even then the observation is the one of the other branch.
		if req.Body != nil {
			req.Body.Close()
		}
		return nil, err
	}
	clear(lastBare) // a new attempt: from here on a sentinel that comes back is the library's, not the harness's
	bareAtReset = false
	// what the request carries
	hdr := []val.V{}
	for _, v := range req.Header.Values("Last-Event-ID") {
		hdr = append(hdr, val.S(v))
	}
	body := val.L()
	if req.Body != nil && req.Body != http.NoBody {
		data, err := io.ReadAll(req.Body)
		req.Body.Close()
		gen := -1
		if err == nil && strings.HasPrefix(string(data), "gen-") {
			gen, _ = strconv.Atoi(string(data[4:]))
		} else if gb, ok := req.Body.(*genBody); ok {
			gen = 1000 + gb.gen // a consumed body was sent again
		} else if sb, ok := req.Body.(seekGenBody); ok {
			gen = 1000 + sb.gen
		} else {
			gen = 1999
		}
		body = val.L(val.Int(gen))
	}
	if r.idx >= len(r.steps) {
		r.overrun = true
		r.cancel()
		return nil, r.ctx.Err()
	}
	r.items = append(r.items, val.L(val.N(0), val.List(hdr), body))
	if r.pending {
		r.pending = false
		r.gaps = append(r.gaps, val.Bool(started.Sub(r.retryAt) >= r.retryWait))
	}
	st := r.steps[r.idx]
	r.idx++
	if r.rtDelay > 0 {
		time.Sleep(r.rtDelay)
	}
	ok := func(status uint64, b io.ReadCloser) *http.Response {
		code := int(status)
		if code == 0 {
			code = http.StatusOK
		}
		return &http.Response{StatusCode: code, Status: strconv.Itoa(code) + " " + http.StatusText(code), Proto: "HTTP/1.1", ProtoMajor: 1, ProtoMinor: 1,
			Header: http.Header{"Content-Type": {"text/event-stream"}}, Body: b, Request: req}
	}
	switch st.At(0).Num() {
	case 0:
		return nil, scriptedErr(st.At(1).Num())
	case 1:
		r.cancel()
		return nil, r.ctx.Err()
	case 2:
		r.reject = st.At(1).Num()
		if k := st.At(3).Num(); k != 0 {
			b := newOpenBody(k)
			r.open = append(r.open, b)
			select {
			case r.opened <- b:
			default:
			}
			return ok(st.At(2).Num(), b), nil
		}
		return ok(st.At(2).Num(), io.NopCloser(strings.NewReader(""))), nil
	default:
		return ok(st.At(5).Num(), &scriptBody{run: r, data: append([]byte{}, st.At(1).Bytes()...), ending: st.At(2),
			chunks: st.At(3).Items(), withLast: st.At(4).Truth()}), nil
	}
}

func connErrOf(err error) val.V {
	var ce codeErr
	var he charErr
	var de *net.DNSError
	switch {
	case errors.As(err, &he): // identity of an injected value first: it may wrap any of the sentinels below
		return val.L(val.N(2), val.N(he.idx))
	case errors.As(err, &de) && strings.HasPrefix(de.Name, dnsNamePrefix):
		if n, perr := strconv.ParseUint(de.Name[len(dnsNamePrefix):], 10, 64); perr == nil {
			return val.L(val.N(2), val.N(n))
		}
		return val.L(val.N(9), val.S(fmt.Sprint(err)))
	}
	if n, ok := bareIdx(err); ok {
		// a sentinel itself, injected as this attempt's error (connSentinels): the injected value itself came back
		return val.L(val.N(2), val.N(n))
	}
	switch {
	case err == io.EOF:
		return val.L(val.N(0))
	case errors.Is(err, sse.ErrUnexpectedEOF):
		return val.L(val.N(1))
	case errors.As(err, &ce):
		return val.L(val.N(2), val.N(ce.code))
	case errors.Is(err, context.Canceled), errors.Is(err, context.DeadlineExceeded):
		return val.L(val.N(3))
	case errors.Is(err, sse.ErrNoGetBody):
		return val.L(val.N(4))
	case errors.Is(err, bufio.ErrTooLong):
		return val.L(val.N(5))
	}
	return val.L(val.N(9), val.S(fmt.Sprint(err)))
}

var connReasons = map[string]uint64{
	"request reset failed": 0, "connection to server failed": 1, "response validation failed": 2, "connection to server lost": 3,
}

// connRetOf projects an error that Connect returned or handed to OnRetry.  "The context's error" (n1) is the value
// ctx.Err() of the request context itself: not its cause, not an attempt's error that merely matches
// context.Canceled / context.DeadlineExceeded, and nothing at all while the context is alive.
func connRetOf(ctx context.Context, err error) val.V {
	if err == nil {
		return val.L(val.N(0))
	}
	var ce *sse.ConnectionError
	if errors.As(err, &ce) {
		rs, ok := connReasons[ce.Reason]
		if !ok {
			rs = 9
		}
		if rs == 0 && !bareAtReset {
			// a body reset failed and GetBody injected nothing: whatever an earlier attempt injected, this error is the
			// library's own (ErrNoGetBody), not the harness's
			clear(lastBare)
		}
		return val.L(val.N(2), val.N(rs), connErrOf(ce.Err))
	}
	if cerr := ctx.Err(); cerr != nil && err == cerr {
		return val.L(val.N(1))
	}
	if ctx.Err() == nil {
		return val.L(val.N(9), val.S("not a *ConnectionError, and the request context is not done: "+fmt.Sprint(err)))
	}
	return val.L(val.N(9), val.S(fmt.Sprint(err)))
}

func connHasRejection(steps []val.V) bool {
	for _, st := range steps {
		if st.At(0).Num() == 2 {
			return true
		}
	}
	return false
}

// connectSibling makes another Connection from req (through a Client of its own) and runs it: first response one
// event with the ID "sib-9", then the stream ends; the second attempt (which presents that ID) fails and ends Connect.
type siblingRT struct{ n int }

func (s *siblingRT) RoundTrip(r *http.Request) (*http.Response, error) {
	s.n++
	if s.n > 1 {
		return nil, errors.New("sibling: no further attempts")
	}
	return &http.Response{StatusCode: 200, Header: http.Header{"Content-Type": {"text/event-stream"}},
		Body: io.NopCloser(strings.NewReader("id: sib-9\ndata: x\n\n")), Request: r}, nil
}

func connectSibling(req *http.Request) {
	cl := &sse.Client{
		HTTPClient:        &http.Client{Transport: &siblingRT{}},
		ResponseValidator: sse.NoopValidator,
		Backoff:           sse.Backoff{InitialInterval: time.Nanosecond, MaxInterval: time.Nanosecond, MaxRetries: 1},
	}
	done := make(chan struct{})
	go func() {
		defer close(done)
		defer func() { _ = recover() }()
		_ = cl.NewConnection(req).Connect()
	}()
	select {
	case <-done:
	case <-time.After(5 * time.Second):
	}
}

func execConnect(in val.V) val.V {
	return guard(func() val.V {
		cfg, steps := in.At(0), in.At(1)
		bo := cfg.At(0)
		ctx, cancel, release := connContext(cfg.At(8).Num(), cfg.At(5).Truth())
		defer release()
		clear(lastBare)
		bareAtReset = false
		run := &connRun{steps: steps.Items(), ctx: ctx, cancel: cancel, opened: make(chan *openBody, 64)}
		if cfg.At(4).Present() {
			run.patience = cfg.At(4).At(0).Signed()
		}
		bk := cfg.At(1)
		run.gbKind, run.gbAfter, run.gbErr = bk.At(0).Num(), bk.At(1).Int(), bk.At(2).Num()
		run.rtDelay = time.Duration(cfg.At(7).At(0).Num()) * time.Microsecond
		run.bodyDelay = time.Duration(cfg.At(7).At(1).Num()) * time.Microsecond

		var body io.Reader
		method := http.MethodGet
		seekable := len(val.String(in))%2 == 0
		switch run.gbKind {
		case 0:
		case 1:
			body = http.NoBody
		default:
			body = reqBody(0, seekable)
			method = http.MethodPost
		}
		req, err := http.NewRequestWithContext(ctx, method, "http://verif.invalid/events", body)
		if err != nil {
			return val.S("NewRequest: " + err.Error())
		}
		if run.gbKind >= 3 {
			req.GetBody = func() (io.ReadCloser, error) {
				if run.gbKind == 4 && run.gbCalls >= run.gbAfter {
					clear(lastBare)
					bareAtReset = true
					return nil, scriptedErr(run.gbErr)
				}
				run.gbCalls++
				return reqBody(run.gbCalls, seekable), nil
			}
		} else if run.gbKind == 2 {
			req.GetBody = nil
		}
		if cfg.At(3).Present() {
			req.Header.Set("Last-Event-ID", cfg.At(3).At(0).Str())
		}

		validator := sse.ResponseValidator(func(*http.Response) error {
			if e := run.reject; e != 0 {
				run.reject = 0
				return scriptedErr(e)
			}
			return nil
		})
		allSteps := append([]val.V{}, run.steps...)
		for _, sc := range in.At(2).Items() {
			allSteps = append(allSteps, sc.Items()...)
		}
		if cfg.At(9).Num() == 1 && !connHasRejection(allSteps) {
			validator = sse.NoopValidator // the library's own accept-everything validator
		}
		client := &sse.Client{
			HTTPClient:        &http.Client{Transport: run},
			ResponseValidator: validator,
			Backoff: sse.Backoff{
				InitialInterval: time.Duration(bo.At(0).Signed()),
				Multiplier:      ratFloat(bo.At(1)),
				Jitter:          ratFloat(bo.At(2)),
				MaxInterval:     time.Duration(bo.At(3).Signed()),
				MaxElapsedTime:  time.Duration(bo.At(4).Signed()),
				MaxRetries:      int(bo.At(5).Signed()),
			},
		}
		if cfg.At(2).Truth() {
			client.OnRetry = func(err error, d time.Duration) {
				run.items = append(run.items, val.L(val.N(2), connRetOf(ctx, err), val.Z(int64(d))))
				if run.patience > 0 && int64(d) >= run.patience {
					run.cancel()
				}
				run.pending, run.retryWait, run.retryAt = true, d, time.Now()
			}
		}
		for i := cfg.At(6).Int(); i > 0; i-- {
			client.NewConnection(req) // other Connections of the same Client, never connected
			if i%2 == 1 && run.gbKind <= 1 && !cfg.At(5).Truth() {
				// ... and one made from the same *http.Request that HAS been connected: it received an event with an ID,
				// lost its stream and reconnected presenting that ID.  A Connection's request is its own; nothing a sibling
				// does may show in the requests of the Connection under test (bodyless requests only: a sibling would
				// consume a shared request body).
				connectSibling(req)
			}
		}
		conn := client.NewConnection(req)
		if cfg.At(5).Truth() {
			cancel() // the context is done before Connect is called
		}
		conn.SubscribeToAll(func(e sse.Event) {
			run.items = append(run.items, val.L(val.N(1), val.S(e.LastEventID), val.S(e.Type), val.S(e.Data)))
		})

		// one Connect call: what it logged, what it returned; more = whether Connect may be called again on this
		// Connection (it returned by itself and the request context is alive)
		call := func() (out []val.V, more bool) {
			done := make(chan error, 1)
			go func() {
				defer func() {
					if r := recover(); r != nil {
						done <- fmt.Errorf("panic: %v", r)
					}
				}()
				done <- conn.Connect()
			}()
			var ret error
			var watch <-chan time.Time // runs while Connect holds the open body of a rejected response
			var held *openBody
			limit := time.After(30 * time.Second)
		wait:
			for {
				select {
				case ret = <-done:
					break wait
				case held = <-run.opened:
					watch = time.After(connPatience)
				case <-watch:
					// Connect has had a rejected response for 0.9 s and is still running: stuck.  The body is released so
					// that the call comes to an end.
					held.stuck, watch = true, nil
					held.release()
				case <-limit:
					cancel()
					for _, b := range run.open {
						b.release()
					}
					<-done
					return []val.V{val.List(run.items), val.L(val.S("Connect did not return within 30 s")), val.List(run.gaps)}, false
				}
			}
			for len(run.opened) > 0 {
				<-run.opened
			}
			for _, b := range run.open {
				seen := b.reads.Load() // Read calls begun before Connect returned
				b.release()
				run.items = append(run.items, val.L(val.N(3), val.Int(int(seen)), val.Bool(b.stuck)))
			}
			run.open = nil
			if run.overrun {
				return []val.V{val.List(run.items), val.L(), val.List(run.gaps)}, false
			}
			return []val.V{val.List(run.items), val.L(connRetOf(ctx, ret)), val.List(run.gaps)}, ctx.Err() == nil
		}
		first, more := call()
		if len(in.Items()) < 3 {
			return val.List(first)
		}
		// the same Connection connected again, once per further script: the Connection, its request (header, body,
		// GetBody and its call count) and the Client are the same objects; only the log and the script are new
		further := []val.V{}
		for _, sc := range in.At(2).Items() {
			if !more {
				break
			}
			run.items, run.gaps, run.steps, run.idx = nil, nil, sc.Items(), 0
			run.pending, run.reject = false, 0
			var out []val.V
			out, more = call()
			further = append(further, val.List(out))
		}
		return val.List(append(first, val.List(further)))
	})
}

// ---- generator -------------------------------------------------------------------------------

var connIDs = []string{"", "1", "2", "a", "xyz", "a\x00b", "7 8", "\xc3\xa9", "e\x1bsc", "\x01", "d\x7f", "t\tab", "\x1f\x7f", " lead", "trail ", "caf\xe9", "\xff\xfe\x80k", "cut\xe2\x82", "\xc0\xaf"}

func connLine(r *rng.R, maxRetryMs int, bigRetry bool) string {
	switch r.Intn(16) {
	case 0, 1, 2:
		return "data: " + rng.Pick(r, []string{"x", "hello", "", " y", "a:b"})
	case 3:
		return "data"
	case 4, 5, 6:
		return "id: " + rng.Pick(r, connIDs)
	case 7:
		return rng.Pick(r, []string{"id", "id:", "id:1", "id:  2"})
	case 8:
		return "event: " + rng.Pick(r, []string{"t", "", "message"})
	case 9:
		if bigRetry && r.Chance(1, 2) {
			return "retry: " + rng.Pick(r, []string{"1000", "900", "5000", "1000000000000", "86400000"})
		}
		return "retry: " + strconv.Itoa(r.Intn(maxRetryMs+1))
	case 10:
		if r.Chance(1, 2) {
			return connNearRetry(r, maxRetryMs, bigRetry)
		}
		return rng.Pick(r, []string{"retry: +1", "retry: -0", "retry: 1x", "retry:", "retry: 9223372036854775808", "retry: 00"})
	case 11:
		return ": comment"
	case 12:
		return rng.Pick(r, []string{"unknown: z", "dat: a", "idx", "retry"})
	default:
		return ""
	}
}

// white space that may surround a numeral: what strings.TrimSpace / strings.Fields / unicode.IsSpace call space (SP, TAB,
// VT, FF, NEL, NBSP, en quad, line / paragraph separator, ideographic space) - CR and LF excepted, they end the line
var connSpaces = []string{" ", "  ", "\t", "\x0b", "\x0c", "\xc2\x85", "\xc2\xa0", "\xe2\x80\x80", "\xe2\x80\xa8", "\xe2\x80\xa9", "\xe3\x80\x80", " \t "}

// connNearRetry is a retry field whose value is NOT a string of ASCII digits only but close to one: a positive numeral
// (one that would change the wait if it were taken) with white space before it (beyond the one space the field syntax
// strips), after it or inside it, with a sign, a unit, a fraction, an exponent, a base prefix, a digit separator, or
// written in digits that are not ASCII.  All of them are to be ignored.
func connNearRetry(r *rng.R, maxRetryMs int, bigRetry bool) string {
	num := strconv.Itoa(1 + r.Intn(maxRetryMs+1))
	if r.Chance(1, 3) {
		num = strconv.Itoa(10 + r.Intn(40))
	}
	if bigRetry && r.Chance(1, 2) {
		num = rng.Pick(r, []string{"1000", "900", "5000", "86400000"})
	}
	sp := func() string { return rng.Pick(r, connSpaces) }
	sep := rng.Pick(r, []string{": ", ":"})
	switch r.Intn(12) {
	case 0, 1:
		return "retry: " + sp() + num // after the one space that belongs to the field syntax
	case 2:
		return "retry:" + rng.Pick(r, connSpaces[2:]) + num // no space: the padding directly after the colon
	case 3, 4, 5:
		return "retry" + sep + num + sp()
	case 6:
		return "retry: " + sp() + num + sp()
	case 7:
		return "retry" + sep + num[:1] + sp() + num[1:] + "0"
	case 8:
		return "retry" + sep + rng.Pick(r, []string{"+", "-", "+ ", "0x", "0X", "0b", "0o", "#", "$"}) + num
	case 9:
		return "retry" + sep + num + rng.Pick(r, []string{"ms", "s", ".0", ".", "e0", "e3", "E1", "_000", ",000", "L", "u", "%", ";", ":"})
	case 10:
		return "retry" + sep + num[:1] + rng.Pick(r, []string{"_", ",", ".", "'", "-"}) + num
	default:
		// Arabic-Indic, fullwidth and superscript digits
		return "retry" + sep + rng.Pick(r, []string{"\xd9\xa1", "\xd9\xa4\xd9\xa0", "\xef\xbc\x91", "\xef\xbc\x94\xef\xbc\x90", "\xc2\xb2", "1\xd9\xa0"})
	}
}

func connBody(r *rng.R, maxRetryMs int, bigRetry bool) string {
	var sb strings.Builder
	if r.Chance(1, 12) {
		sb.WriteString("\xef\xbb\xbf")
	}
	eol := rng.Pick(r, []string{"\n", "\n", "\n", "\r\n", "\r"})
	n := r.Intn(9)
	for i := 0; i < n; i++ {
		sb.WriteString(connLine(r, maxRetryMs, bigRetry))
		if r.Chance(1, 10) {
			sb.WriteString(rng.Pick(r, []string{"\n", "\r\n", "\r"}))
		} else {
			sb.WriteString(eol)
		}
	}
	switch r.Intn(5) {
	case 0: // ends on an event boundary
		sb.WriteString(eol)
	case 1: // ends in the middle of a line
		sb.WriteString(rng.Pick(r, []string{"data: cut", "id: 9", "i", ":", "retry: 5", "data: a\r"}))
	case 2:
		sb.WriteString(eol + eol)
	}
	return sb.String()
}

func connChunks(r *rng.R, n int) val.V {
	out := []val.V{}
	switch r.Intn(4) {
	case 0: // whole
	case 1: // byte at a time
		for i := 0; i < n; i++ {
			out = append(out, val.Int(1))
		}
	default:
		for i := 0; i < n; {
			c := 1 + r.Intn(7)
			out = append(out, val.Int(c))
			i += c
		}
	}
	return val.List(out)
}

func connStream(r *rng.R, body string, c *Ctx) val.V {
	var ending val.V
	switch k := r.Intn(20); {
	case k < 11:
		ending = val.L(val.N(0))
		c.Count("ending:eof")
	case k < 16:
		ending = val.L(val.N(1), val.N(connErrIdx(r, c, 100)))
		c.Count("ending:error")
	case k == 16:
		// the oversized line starts a group of its own: bufio gives up on the whole group, so fields that share it
		// with the oversized line are never parsed (a retry field there has no effect), unlike fields before a read error
		ending = val.L(val.N(3))
		body += "\n\n"
		c.Count("ending:oversized-event")
	default:
		ending = val.L(val.N(2), val.N(uint64(r.Intn(3)))) // 2: the context ends with the last bytes, outside any Read
		c.Count("ending:cancel")
	}
	return val.L(val.N(3), val.S(body), ending, connChunks(r, len(body)), val.Bool(r.Chance(1, 4)), connStatus(r, c))
}

// The status codes a response may carry.  Left out: 301 302 303 307 308, which make an http.Client look for a Location
// header (without one it hands the response through like any other; that is net/http's business, not the Connection's).
var connStatuses = []uint64{200, 100, 101, 102, 103, 201, 202, 203, 204, 205, 206, 207, 226, 300, 304, 305, 400, 401, 403, 404, 405, 408, 409, 410,
	418, 425, 429, 451, 500, 501, 502, 503, 504, 511, 599, 299, 999}

// connStatus draws the status of a response: 200 half of the time
func connStatus(r *rng.R, c *Ctx) val.V {
	st := uint64(200)
	if r.Chance(1, 2) {
		st = rng.Pick(r, connStatuses[1:])
	}
	c.Count(fmt.Sprintf("status:%dxx", st/100))
	return val.N(st)
}

// which validator the Client has: the harness's closure, or - when the script has no rejected response - sse.NoopValidator
func connValidator(r *rng.R, c *Ctx, steps []val.V) val.V {
	k := 0
	if !connHasRejection(steps) && r.Chance(1, 2) {
		k = 1
	}
	c.Count(fmt.Sprintf("validator:%d", k))
	return val.Int(k)
}

// a rejected response: the verdict, the status, and what its body is - one that ends at once (an error page), or a
// stream the server keeps open: quiet, or quiet after a few bytes
func connRejected(r *rng.R, c *Ctx) val.V {
	e, st := val.N(connErrIdx(r, c, 300)), connStatus(r, c)
	open := r.Intn(16) // an open body costs a non-conforming Connect 0.9 s: one rejected response in eight
	if open > 2 {
		open = 0
	}
	c.Count(fmt.Sprintf("rejected-body:%d", open))
	return val.L(val.N(2), e, st, val.Int(open))
}

func connAttempt(r *rng.R, c *Ctx, maxRetryMs int, bigRetry bool) val.V {
	switch k := r.Intn(20); {
	case k < 3:
		c.Count("attempt:transport-error")
		return val.L(val.N(0), val.N(connErrIdx(r, c, 200)))
	case k == 3:
		c.Count("attempt:cancel-in-roundtrip")
		return val.L(val.N(1))
	case k == 4:
		c.Count("attempt:rejected")
		return connRejected(r, c)
	default:
		c.Count("attempt:stream")
		return connStream(r, connBody(r, maxRetryMs, bigRetry), c)
	}
}

func connBackoff(r *rng.R) (val.V, int64) {
	ini := int64(1+r.Intn(50)) * 1000
	mul := rng.Pick(r, []ratio{{1, 1}, {3, 2}, {2, 1}, {1, 1}})
	var maxI int64
	switch r.Intn(4) {
	case 0:
		maxI = ini
	case 1:
		maxI = ini*2 + 500
	}
	var maxE int64
	switch r.Intn(8) {
	case 0:
		maxE = 1 // every retry would end after it
	case 1:
		maxE = 3_600_000_000_000 // out of reach
	}
	maxR := rng.Pick(r, []int64{-1, 0, 0, 1, 2, 3, 3, 5})
	return val.L(val.Z(ini), vrat(mul.n, mul.d), vrat(-1, 1), val.Z(maxI), val.Z(maxE), val.Z(maxR)), maxR
}

func connBodyKind(r *rng.R, c *Ctx) val.V {
	switch r.Intn(8) {
	case 0:
		return val.L(val.N(1), val.N(0), val.N(0))
	case 1:
		return val.L(val.N(2), val.N(0), val.N(0))
	case 2, 3:
		return val.L(val.N(3), val.N(0), val.N(0))
	case 4:
		return val.L(val.N(4), val.Int(r.Intn(4)), val.N(connErrIdx(r, c, 400)))
	default:
		return val.L(val.N(0), val.N(0), val.N(0))
	}
}

// how many other Connections the Client produced before the one under test
func connOtherConnections(r *rng.R, c *Ctx) val.V {
	n := 0
	if r.Chance(1, 2) {
		n = 1 + r.Intn(2)
	}
	c.Count(fmt.Sprintf("other-connections:%d", n))
	return val.Int(n)
}

// of which kind the request context is (connContext); kind 6 is a deadline that passed before Connect was called
func connCtxKind(r *rng.R, c *Ctx, before bool) val.V {
	k := 0
	if r.Chance(2, 3) {
		k = 1 + r.Intn(connCtxKinds-2)
		if before && r.Chance(1, 3) {
			k = 6
		}
	}
	c.Count(fmt.Sprintf("context-kind:%d", k))
	return val.Int(k)
}

// every error character at every site an error can arise at (transport, reader after some bytes, validator, GetBody),
// with every kind of request body, followed by two further attempts: what happens to an error - and to the request
// of the NEXT attempt - depends on where the error arose, never on what it looks like
func connCharacterSweep(c *Ctx) {
	bodies := []val.V{
		val.L(val.N(0), val.N(0), val.N(0)), val.L(val.N(1), val.N(0), val.N(0)), val.L(val.N(2), val.N(0), val.N(0)),
		val.L(val.N(3), val.N(0), val.N(0)), val.L(val.N(4), val.N(1), val.N(402)), val.L(val.N(4), val.N(2), val.N(11403)),
	}
	bo := val.L(val.Z(2000), vrat(3, 2), vrat(-1, 1), val.Z(0), val.Z(0), val.Z(3))
	after := val.L(val.N(3), val.S("id: 7\ndata: after\n\n"), val.L(val.N(0)), val.L(), val.Bool(false))
	last := val.L(val.N(2), val.N(301)) // a rejected response: Connect returns, the run has a result
	i := 0
	emit := func(bk val.V, steps ...val.V) {
		i++
		c.Count("character-sweep")
		c.Emit(val.L(val.L(bo, bk, val.Bool(i%4 != 0), val.L(), val.L(val.Z(connPatience)), val.Bool(false), val.Int(0),
			val.L(val.N(0), val.N(0)), val.Int(i%(connCtxKinds-1))), val.List(steps)))
	}
	for k := uint64(0); k < connErrKinds; k++ {
		for bi, bk := range bodies {
			emit(bk, val.L(val.N(0), val.N(1000*k+203)), after, last)
			emit(bk, val.L(val.N(3), val.S("id: 5\ndata: x\n\ndata: cut"), val.L(val.N(1), val.N(1000*k+103)), val.L(), val.Bool(k%2 == 0)), after, last)
			emit(bk, val.L(val.N(2), val.N(1000*k+303)), after, last)
			// the same verdict on a response whose body stays open (quiet / after a few bytes)
			if bi == int(k)%len(bodies) {
				emit(bk, val.L(val.N(2), val.N(1000*k+303), val.N(200), val.N(1+k%2)), after, last)
			}
		}
		// GetBody fails with this character at its first / second call
		emit(val.L(val.N(4), val.N(0), val.N(1000*k+401)), val.L(val.N(0), val.N(201)), after, last)
		emit(val.L(val.N(4), val.N(1), val.N(1000*k+401)), val.L(val.N(0), val.N(7202)), after, last)
	}
}

// every kind of request context ended at every instant a script can name: inside RoundTrip (first / later attempt),
// inside Read (at once / while blocked), inside OnRetry before a long wait (after a stream / after a transport error),
// before Connect.  Expected every time: the context's own error.
func connContextSweep(c *Ctx) {
	stream := func(body string, ending val.V) val.V {
		return val.L(val.N(3), val.S(body), ending, val.L(), val.Bool(false))
	}
	short := val.L(val.Z(2000), vrat(1, 1), vrat(-1, 1), val.Z(0), val.Z(0), val.Z(0))
	long := val.L(val.Z(1_000_000_000), vrat(1, 1), vrat(-1, 1), val.Z(0), val.Z(0), val.Z(0))
	terr := val.L(val.N(0), val.N(201))
	eof := val.L(val.N(0))
	type inst struct {
		bo     val.V
		before bool
		steps  []val.V
		times  int
	}
	instants := []inst{
		{short, false, []val.V{val.L(val.N(1))}, 1},
		{short, false, []val.V{terr, stream("data: a\n\n", eof), val.L(val.N(1))}, 1},
		{short, false, []val.V{stream("id: 1\ndata: a\n\ndata", val.L(val.N(2), val.N(0)))}, 1},
		{short, false, []val.V{terr, stream("id: 1\ndata: a\n\n", val.L(val.N(2), val.N(1)))}, 1},
		{short, false, []val.V{stream("retry: 1000\ndata: a\n\n", eof), terr}, 1},
		{short, false, []val.V{terr, stream("retry: 900\n\n", val.L(val.N(1), val.N(13101))), terr}, 1},
		{long, false, []val.V{terr, terr}, 1},
		// the first select may take either branch: several runs
		{short, true, []val.V{stream("data: a\n\n", eof)}, 6},
	}
	for k := 0; k < connCtxKinds; k++ {
		for _, in := range instants {
			for t := 0; t < in.times; t++ {
				c.Count("context-sweep")
				c.Emit(val.L(val.L(in.bo, val.L(val.N(3), val.N(0), val.N(0)), val.Bool(true), val.L(), val.L(val.Z(connPatience)),
					val.Bool(in.before), val.Int(0), val.L(val.N(0), val.N(0)), val.Int(k)), val.List(in.steps)))
			}
		}
	}
}

// every status code with every validator (the harness's closure accepting, sse.NoopValidator, the closure rejecting) and
// three bodies (none at all - what a 204 / 304 really carries -, a complete event, a cut line), followed by two more
// attempts: an accepted response is read and retried whatever its status, a rejected one ends Connect whatever its status
func connStatusSweep(c *Ctx) {
	bo := val.L(val.Z(2000), vrat(3, 2), vrat(-1, 1), val.Z(0), val.Z(0), val.Z(3))
	after := val.L(val.N(3), val.S("id: 7\ndata: after\n\n"), val.L(val.N(0)), val.L(), val.Bool(false), val.N(200))
	last := val.L(val.N(2), val.N(301), val.N(200))
	i := 0
	emit := func(validator int, steps ...val.V) {
		i++
		c.Count("status-sweep")
		c.Emit(val.L(val.L(bo, val.L(val.N(3), val.N(0), val.N(0)), val.Bool(i%4 != 0), val.L(), val.L(val.Z(connPatience)), val.Bool(false), val.Int(i%3),
			val.L(val.N(0), val.N(0)), val.Int(i%(connCtxKinds-1)), val.Int(validator)), val.List(steps)))
	}
	for si, st := range connStatuses {
		for _, body := range []string{"", "id: 4\ndata: a\n\n", "data: cut"} {
			first := val.L(val.N(3), val.S(body), val.L(val.N(0)), val.L(), val.Bool(false), val.N(st))
			emit(0, first, after, last)
			emit(1, first, after, val.L(val.N(0), val.N(201)), val.L(val.N(0), val.N(202)), val.L(val.N(0), val.N(203)), val.L(val.N(0), val.N(204)))
		}
		emit(0, val.L(val.N(2), val.N(302), val.N(st)), after, last)
		emit(0, after, val.L(val.N(2), val.N(7302), val.N(st)), after)
		// a rejected response whose body stays open
		if si%4 == 0 {
			emit(0, val.L(val.N(2), val.N(302), val.N(st), val.N(1)), after, last)
		} else if si%4 == 2 {
			emit(0, after, val.L(val.N(2), val.N(1302), val.N(st), val.N(2)), after)
		}
	}
}

// every kind of white space before / after / around a numeral, and the other near-numerals, as the only retry field of a
// stream and after a valid one: the waits that follow are InitialInterval resp. the valid field's value and their growth
func connNearRetrySweep(c *Ctx) {
	bo := val.L(val.Z(2000), vrat(3, 2), vrat(-1, 1), val.Z(0), val.Z(0), val.Z(0))
	values := []string{}
	for _, num := range []string{"3", "40"} {
		for _, sp := range connSpaces {
			values = append(values, " "+sp+num, " "+num+sp, num+sp, " "+sp+num+sp)
			if sp[0] != ' ' {
				values = append(values, sp+num)
			}
		}
		values = append(values, " +"+num, " -"+num, " "+num[:1]+" 0", " "+num+"ms", " 0x"+num, " "+num+".0", " "+num+"e0", " "+num[:1]+"_"+num, "+"+num)
	}
	values = append(values, " \xd9\xa3", " \xef\xbc\x93", " 0x28", " 4 0", "  ", " ", " \t")
	terr := func(n uint64) val.V { return val.L(val.N(0), val.N(n)) }
	last := val.L(val.N(1)) // the context is cancelled inside the fourth RoundTrip
	for i, v := range values {
		for _, pre := range []string{"", "retry: 1\n"} {
			for _, post := range []string{"\ndata: a\n\n", "\n\n"} {
				c.Count("near-retry-sweep")
				body := pre + "retry:" + v + post
				stream := val.L(val.N(3), val.S(body), val.L(val.N(0)), connChunks(c.R, len(body)), val.Bool(false), val.N(200))
				c.Emit(val.L(val.L(bo, val.L(val.N(0), val.N(0), val.N(0)), val.Bool(i%5 != 0), val.L(), val.L(val.Z(connPatience)), val.Bool(false), val.Int(0),
					val.L(val.N(0), val.N(0)), val.Int(0), val.Int(i%2)), val.L(stream, terr(201), terr(202), last)))
			}
		}
	}
}

// ---- the same Connection connected again -------------------------------------------------------
//
// Connect returns for a reason other than the context - the retries are used up, MaxRetries is negative (every Connect
// makes one attempt and the application loops itself), the validator or the body reset failed - and is CALLED AGAIN on
// the same *Connection: input ( cfg steps ( steps ... ) ), one script per call.  What the Connection carries from call to
// call (the last event ID, the fact that a request was made before, the request with its header and body) makes the
// FIRST request of a later call a reconnection like any other.

// small streams that set, change, reset or do not touch the last event ID
var connAgainBodies = []string{
	"id: 1\ndata: a\n\n", "id: 2\n\n", "id\n\n", "id: 7\ndata: cut", "data: x\n\n", "id: a\x00b\ndata: n\n\n", "", ": c\n\n",
	"id: 3\ndata: a\n\nid: 4\ndata: b\n\n", "id: 5\ndata: a\n\nid\ndata: b\n\n", "retry: 1\nid: 6\ndata: r\n\n", "id: 8\r\ndata: y\r\n\r\nid: 9",
}

func connAgainStream(r *rng.R, c *Ctx) val.V {
	body := rng.Pick(r, connAgainBodies)
	if r.Chance(1, 2) {
		body = connBody(r, 2, false)
	}
	var ending val.V
	switch k := r.Intn(20); {
	case k < 12:
		ending = val.L(val.N(0))
	case k < 18:
		ending = val.L(val.N(1), val.N(connErrIdx(r, c, 100)))
	case k == 18:
		ending = val.L(val.N(3))
		body += "\n\n"
	default:
		ending = val.L(val.N(2), val.N(uint64(r.Intn(3)))) // cancellation inside Read (0, 1) or with the last bytes (2): the run ends here
	}
	return val.L(val.N(3), val.S(body), ending, connChunks(r, len(body)), val.Bool(r.Chance(1, 4)), connStatus(r, c))
}

// connAgainScript is the script of one call, built so that Connect returns by itself: 0-2 attempts first (only when
// retries are allowed), then a rejected response, or as many failures as use up the retries (a stream's end counts as
// one), or - rarely - cancellation inside RoundTrip, after which no further call is made
func connAgainScript(r *rng.R, c *Ctx, maxR int64) val.V {
	steps := []val.V{}
	terr := func() val.V { return val.L(val.N(0), val.N(connErrIdx(r, c, 200))) }
	if maxR > 0 {
		for i := r.Intn(3); i > 0; i-- {
			steps = append(steps, connAgainStream(r, c))
		}
	}
	switch k := r.Intn(12); {
	case k < 2:
		c.Count("again-call-ends:rejected")
		steps = append(steps, connRejected(r, c))
	case k == 2:
		c.Count("again-call-ends:cancelled")
		steps = append(steps, val.L(val.N(1)))
	case k < 8:
		c.Count("again-call-ends:stream-then-failures")
		steps = append(steps, connAgainStream(r, c))
		for i := int64(0); i < maxR; i++ {
			steps = append(steps, terr())
		}
	default:
		c.Count("again-call-ends:failures")
		steps = append(steps, terr())
		for i := int64(0); i < maxR; i++ {
			steps = append(steps, terr())
		}
	}
	return val.List(steps)
}

func connAgainRandom(c *Ctx, n int) {
	r := c.R
	for i := 0; i < n; i++ {
		maxR := rng.Pick(r, []int64{-1, -1, -1, 1, 1, 2})
		ini := int64(1+r.Intn(50)) * 1000
		mul := rng.Pick(r, []ratio{{1, 1}, {3, 2}, {2, 1}})
		bo := val.L(val.Z(ini), vrat(mul.n, mul.d), vrat(-1, 1), val.Z(0), val.Z(0), val.Z(maxR))
		onRetry := r.Chance(3, 4)
		patience := val.L()
		if onRetry {
			patience = val.L(val.Z(connPatience))
		}
		hdr := val.L()
		if r.Chance(1, 10) {
			hdr = val.L(val.S(rng.Pick(r, []string{"init", "0", "xyz"})))
		}
		bk := connBodyKind(r, c)
		ncalls := 2 + r.Intn(2)
		scripts := make([]val.V, ncalls)
		all := []val.V{}
		for j := range scripts {
			scripts[j] = connAgainScript(r, c, maxR)
			all = append(all, scripts[j].Items()...)
		}
		c.Count(fmt.Sprintf("again:calls:%d", ncalls))
		c.Count(fmt.Sprintf("again:body-kind:%d", bk.At(0).Num()))
		c.Count(fmt.Sprintf("again:max-retries:%d", maxR))
		c.Emit(val.L(val.L(bo, bk, val.Bool(onRetry), hdr, patience, val.Bool(false), connOtherConnections(r, c), val.L(val.N(0), val.N(0)),
			connCtxKind(r, c, false), connValidator(r, c, all)), scripts[0], val.List(scripts[1:])))
	}
}

// every kind of request body x {one attempt per call, one retry per call} x how the first call ends {a stream of each of
// the small bodies ending cleanly, a read error, a transport error, a rejected response} x what the second call's stream
// does to the ID; a third call follows with one more stream and a fourth with a failure: the header and the body of the
// first request of calls two, three and four, and ErrNoGetBody / GetBody's error instead of a request
func connAgainSweep(c *Ctx) {
	bodies := []val.V{
		val.L(val.N(0), val.N(0), val.N(0)), val.L(val.N(1), val.N(0), val.N(0)), val.L(val.N(2), val.N(0), val.N(0)),
		val.L(val.N(3), val.N(0), val.N(0)), val.L(val.N(4), val.N(1), val.N(402)), val.L(val.N(4), val.N(2), val.N(11403)),
		val.L(val.N(4), val.N(0), val.N(23404)),
	}
	stream := func(body string, ending val.V) val.V {
		return val.L(val.N(3), val.S(body), ending, val.L(), val.Bool(false), val.N(200))
	}
	eof := val.L(val.N(0))
	i := 0
	for _, bk := range bodies {
		for _, maxR := range []int64{-1, 1} {
			bo := val.L(val.Z(2000), vrat(3, 2), vrat(-1, 1), val.Z(0), val.Z(0), val.Z(maxR))
			// the steps that end a call once [first] has been served
			finish := func(first ...val.V) val.V {
				steps := append([]val.V{}, first...)
				if maxR > 0 {
					steps = append(steps, val.L(val.N(0), val.N(201)))
				}
				return val.List(steps)
			}
			firsts := []val.V{}
			for _, b := range connAgainBodies {
				firsts = append(firsts, finish(stream(b, eof)))
			}
			firsts = append(firsts,
				finish(stream("id: 5\ndata: x\n\ndata: cut", val.L(val.N(1), val.N(20103)))),
				finish(val.L(val.N(0), val.N(7203))),
				val.L(stream("id: 4\ndata: a\n\n", eof), val.L(val.N(2), val.N(303), val.N(200))),
				val.L(val.L(val.N(2), val.N(304), val.N(200))))
			for _, first := range firsts {
				for _, b2 := range []string{"id: 11\ndata: s\n\n", "id\ndata: s\n\n", "data: s\n\n", "id: 12\ndata: cut"} {
					i++
					c.Count("again-sweep")
					further := val.L(finish(stream(b2, eof)), finish(stream("id: 13\ndata: t\n\n", eof)), finish(val.L(val.N(0), val.N(205))))
					c.Emit(val.L(val.L(bo, bk, val.Bool(i%4 != 0), val.L(), val.L(val.Z(connPatience)), val.Bool(false), val.Int(i%3),
						val.L(val.N(0), val.N(0)), val.Int(i%(connCtxKinds-1)), val.Int(0)), first, further))
				}
			}
		}
	}
}

func genConnect(c *Ctx) {
	r := c.R
	n := 3000
	if c.Thorough {
		n = 60000
	}
	for i := 0; i < n; i++ {
		bo, maxR := connBackoff(r)
		onRetry := r.Chance(3, 4)
		patience := val.L()
		bigRetry := false
		if onRetry {
			patience = val.L(val.Z(connPatience))
			bigRetry = r.Chance(1, 3)
		}
		hdr := val.L()
		if r.Chance(1, 10) {
			hdr = val.L(val.S(rng.Pick(r, []string{"init", "0", "xyz"})))
		}
		nsteps := 1 + r.Intn(8)
		steps := make([]val.V, nsteps)
		for j := range steps {
			steps[j] = connAttempt(r, c, 2, bigRetry)
		}
		bk := connBodyKind(r, c)
		c.Count(fmt.Sprintf("body-kind:%d", bk.At(0).Num()))
		c.Count(fmt.Sprintf("max-retries:%d", maxR))
		c.Count(fmt.Sprintf("steps:%d", nsteps))
		before := r.Chance(1, 25)
		if before {
			c.Count("cancelled-before-connect")
		}
		others := connOtherConnections(r, c)
		c.Emit(val.L(val.L(bo, bk, val.Bool(onRetry), hdr, patience, val.Bool(before), others, val.L(val.N(0), val.N(0)), connCtxKind(r, c, before),
			connValidator(r, c, steps)), val.List(steps)))
	}
	// attempts that take time (a slow transport, a response that stays up for a while before it ends) followed by waits
	// of a few milliseconds; few of them, they are slept
	nSlow := 12
	if c.Thorough {
		nSlow = 100
	}
	for i := 0; i < nSlow; i++ {
		ini := int64(1+r.Intn(4)) * 1_000_000
		mul := rng.Pick(r, []ratio{{1, 1}, {3, 2}, {2, 1}})
		var maxI int64
		if r.Chance(1, 3) {
			maxI = ini * 2
		}
		maxR := rng.Pick(r, []int64{0, 2, 3, 5})
		bo := val.L(val.Z(ini), vrat(mul.n, mul.d), vrat(-1, 1), val.Z(maxI), val.Z(0), val.Z(maxR))
		steps := make([]val.V, 2+r.Intn(3))
		for j := range steps {
			steps[j] = connAttempt(r, c, 2, false)
		}
		var rtDelay, bodyDelay uint64
		switch r.Intn(3) {
		case 0:
			rtDelay = uint64(2000 + r.Intn(1500))
		case 1:
			bodyDelay = uint64(2000 + r.Intn(1500))
		default:
			rtDelay, bodyDelay = uint64(1000+r.Intn(1000)), uint64(1000+r.Intn(1000))
		}
		bk := connBodyKind(r, c)
		c.Count("slow-attempts")
		c.Emit(val.L(val.L(bo, bk, val.Bool(true), val.L(), val.L(val.Z(connPatience)), val.Bool(false), connOtherConnections(r, c),
			val.L(val.N(rtDelay), val.N(bodyDelay)), connCtxKind(r, c, false), connValidator(r, c, steps)), val.List(steps)))
	}
	nAgain := 1500
	if c.Thorough {
		nAgain = 30000
	}
	connAgainRandom(c, nAgain)
	connAgainSweep(c)
	connCharacterSweep(c)
	connContextSweep(c)
	connStatusSweep(c)
	connNearRetrySweep(c)
	// endings after every byte position of short streams, clean and erroneous and cancelled (C11)
	shorts := []string{"data: a\n\nid: 1\n\n", "id: 5\ndata: x\r\n\r\n: c\n", "\xef\xbb\xbfretry: 1\n\ndata: y\n\n", "data: a\n\n\n", "\n", "id: 3\revent: t\r\r"}
	// clean end, a plain read error, cancellation, a read error that wraps io.EOF; then read errors that ARE a well-known
	// sentinel (io.ErrUnexpectedEOF, the library's own ErrUnexpectedEOF, bufio.ErrTooLong, context.Canceled while the
	// context lives, ...) or wrap / match one the library gives a meaning to (kinds 16, 17, 20-37)
	endings := []val.V{val.L(val.N(0)), val.L(val.N(1), val.N(101)), val.L(val.N(2), val.N(0)), val.L(val.N(2), val.N(2)), val.L(val.N(1), val.N(3101))}
	for k := uint64(16); k < connErrKinds; k++ {
		if k != 18 && k != 19 {
			endings = append(endings, val.L(val.N(1), val.N(1000*k+101)))
		}
	}
	for _, s := range shorts {
		for cut := 0; cut <= len(s); cut++ {
			for _, ending := range endings {
				first := val.L(val.N(3), val.S(s[:cut]), ending, connChunks(r, cut), val.Bool(r.Bool()))
				second := val.L(val.N(3), val.S("data: after\n\n"), val.L(val.N(0)), val.L(), val.Bool(false))
				bo := val.L(val.Z(2000), vrat(1, 1), vrat(-1, 1), val.Z(0), val.Z(0), val.Z(1))
				c.Count("cut-sweep")
				c.Emit(val.L(val.L(bo, val.L(val.N(3), val.N(0), val.N(0)), val.Bool(true), val.L(), val.L(val.Z(connPatience))),
					val.L(first, second, val.L(val.N(0), val.N(201)))))
			}
		}
	}
}
