package main

// Families "joe" and "joe_replay" (C03 C04 C06 C07 C17): scenarios of concurrent Subscribe /
// Publish / cancel / Shutdown calls against the real sse.Joe, observed through the verifYield
// hook points of joe.go as ONE totally ordered event trace (format: coq/theories/RunJoe.v).
//
// A line is  input = ( scenario ( status events ) ), observed = n1; the model replays the trace
// through JoeLts.step (trace inclusion) and the property monitors read the same history.
//
// This file: family registration and the parent side.  Scenarios run in a child process (this
// binary re-executed with VERIF_JOE_CHILD set) so that a crash of the process running Joe is an
// observation (status 1) and a stuck call (status 2) leaks its goroutines into a process that is
// thrown away.  joe_run.go: the child side (scenario interpreter, hook, writers, replayer
// wrapper).  joe_gen.go: the generators.

import (
	"bufio"
	"bytes"
	"encoding/binary"
	"fmt"
	"io"
	"os"
	"os/exec"
	"strconv"
	"strings"
	"time"

	"verifharness/val"
)

const (
	joeChildEnv  = "VERIF_JOE_CHILD"
	joeDebugEnv  = "VERIF_JOE_DEBUG"       // parent: print the child's stderr after a crash
	joeDeadEnv   = "VERIF_JOE_DEADLINE_MS" // per-scenario deadline (default 10 s)
	joeShmSize   = 4 << 20                 // event prefix shared with the parent (survives a crash)
	joeShmHeader = 16                      // [0:8) scenario sequence number, [8:16) committed length
)

func init() {
	if os.Getenv(joeChildEnv) != "" {
		joeChildMain()
		os.Exit(0)
	}
	families["joe"] = family{gen: genJoe, exec: execJoe, post: postJoe}
	families["joe_replay"] = family{gen: genJoeReplay, exec: execJoe, post: postJoe}
}

func joeDeadline() time.Duration {
	if s := os.Getenv(joeDeadEnv); s != "" {
		if n, err := strconv.Atoi(s); err == nil && n > 0 {
			return time.Duration(n) * time.Millisecond
		}
	}
	return 10 * time.Second
}

// postJoe folds the observation into the model's input.
func postJoe(input, obs val.V) (val.V, val.V) {
	return val.L(input.At(0), obs), val.N(1)
}

// ---- parent side ------------------------------------------------------------------------

type joeChild struct {
	cmd    *exec.Cmd
	in     io.WriteCloser
	lines  chan string // result lines; closed when the child's stdout ends
	stderr *joeTail
	waited chan struct{}
}

// joeTail keeps the last bytes written to it (the child's panic message).
type joeTail struct{ b []byte }

func (t *joeTail) Write(p []byte) (int, error) {
	t.b = append(t.b, p...)
	if len(t.b) > 1<<16 {
		t.b = append([]byte{}, t.b[len(t.b)-(1<<15):]...)
	}
	return len(p), nil
}

var joeParent struct {
	child *joeChild
	shm   *os.File
	seq   uint64
	stuck int // scenarios of this run that ended with calls stranded (status 2)
}

// jStuckMax: a run stops making scenarios once that many have stranded calls.  Each costs the 10 s deadline, and a
// run that exceeds the family's time limit (600 s, bin/props.d/joe.py) loses ALL its cases, the violating ones
// included: 30 stuck scenarios are 300 s.  On the unchanged code no scenario is stuck.
const jStuckMax = 30

func joeShm() *os.File {
	if joeParent.shm != nil {
		return joeParent.shm
	}
	// scratch files live under the framework's .work directory when run from its root (bin/check),
	// otherwise in the default temporary directory
	dir := ""
	if st, err := os.Stat(".work"); err == nil && st.IsDir() {
		dir = ".work"
	}
	f, err := os.CreateTemp(dir, "verif-joe-*.ev")
	if err != nil {
		f, err = os.CreateTemp("", "verif-joe-*.ev")
	}
	if err != nil {
		panic(err)
	}
	os.Remove(f.Name()) // the open descriptor (inherited by the children) keeps it alive
	if err := f.Truncate(joeShmSize); err != nil {
		panic(err)
	}
	joeParent.shm = f
	return f
}

func joeStartChild() *joeChild {
	cmd := exec.Command(os.Args[0])
	cmd.Env = append(os.Environ(), joeChildEnv+"=1")
	cmd.ExtraFiles = []*os.File{joeShm()} // fd 3
	in, err := cmd.StdinPipe()
	if err != nil {
		panic(err)
	}
	out, err := cmd.StdoutPipe()
	if err != nil {
		panic(err)
	}
	c := &joeChild{cmd: cmd, in: in, lines: make(chan string, 4), stderr: &joeTail{}, waited: make(chan struct{})}
	cmd.Stderr = c.stderr
	if err := cmd.Start(); err != nil {
		panic(err)
	}
	go func() {
		rd := bufio.NewReaderSize(out, 1<<20)
		for {
			line, err := rd.ReadString('\n')
			if strings.HasSuffix(line, "\n") {
				c.lines <- line[:len(line)-1]
			}
			if err != nil {
				break
			}
		}
		cmd.Wait()
		close(c.waited)
		close(c.lines)
	}()
	return c
}

func (c *joeChild) stop() {
	c.in.Close()
	c.cmd.Process.Kill()
	select {
	case <-c.waited:
	case <-time.After(5 * time.Second):
	}
}

// joeShmEvents reads the event prefix the child committed for scenario seq.
func joeShmEvents(seq uint64) []val.V {
	f := joeShm()
	hdr := make([]byte, joeShmHeader)
	if _, err := f.ReadAt(hdr, 0); err != nil {
		return nil
	}
	if binary.LittleEndian.Uint64(hdr[0:8]) != seq {
		return nil
	}
	n := binary.LittleEndian.Uint64(hdr[8:16])
	if n == 0 || n > joeShmSize-joeShmHeader {
		return nil
	}
	buf := make([]byte, n)
	if _, err := f.ReadAt(buf, joeShmHeader); err != nil {
		return nil
	}
	v, err := val.Parse("(" + string(buf) + ")")
	if err != nil {
		return nil
	}
	return v.Items()
}

// joeUsesServer: some subscriber or publication of the scenario goes through sse.Server.
func joeUsesServer(sc val.V) bool {
	for _, x := range sc.At(2).Items() {
		if x.At(6).Num()&jViaServer != 0 {
			return true
		}
	}
	for _, t := range sc.At(3).Items() {
		for _, m := range t.At(1).Items() {
			if m.At(5).Num()&jPubServer != 0 {
				return true
			}
		}
	}
	return false
}

// execJoe runs one scenario on the real Joe (in the child) and returns ( status events ).
// The input is ( scenario ) or ( scenario old-observation ): element 0 is what is run.
func execJoe(in val.V) val.V {
	sc := in.At(0)
	joeParent.seq++
	seq := joeParent.seq
	if joeParent.child == nil {
		joeParent.child = joeStartChild()
	}
	c := joeParent.child
	crashed := func(status uint64) val.V {
		c.stop()
		joeParent.child = nil
		if os.Getenv(joeDebugEnv) != "" {
			fmt.Fprintf(os.Stderr, "joe: child ended during scenario %d (status %d):\n%s\n", seq, status, c.stderr.b)
		}
		return val.L(val.N(status), val.List(joeShmEvents(seq)))
	}
	if _, err := io.WriteString(c.in, strconv.FormatUint(seq, 10)+"\t"+val.String(sc)+"\n"); err != nil {
		return crashed(1)
	}
	limit := time.NewTimer(joeDeadline() + 20*time.Second)
	defer limit.Stop()
	for {
		select {
		case line, ok := <-c.lines:
			if !ok {
				return crashed(1) // the process running Joe died
			}
			// "R <seq> <val>"
			f := strings.SplitN(line, " ", 3)
			if len(f) != 3 || f[0] != "R" || f[1] != strconv.FormatUint(seq, 10) {
				continue
			}
			res, err := val.Parse(f[2])
			if err != nil {
				return crashed(1)
			}
			if res.At(0).Num() == 2 {
				joeParent.stuck++
			}
			if res.At(0).Num() != 0 || joeUsesServer(sc) {
				// a stuck scenario: the child exits by itself (its goroutines are leaked).
				// A scenario that went through sse.Server: the next one gets a fresh process, so that whatever the
				// Server's package-level state is after it cannot decide another scenario's outcome (every scenario
				// is judged, and replayed, on its own)
				c.stop()
				joeParent.child = nil
			}
			return res
		case <-limit.C:
			joeParent.stuck++
			return crashed(2) // not even the child's own deadline fired
		}
	}
}

// ---- child side: batch loop --------------------------------------------------------------

func joeChildMain() {
	shm := joeMapShm()
	rd := bufio.NewReaderSize(os.Stdin, 1<<20)
	w := bufio.NewWriterSize(os.Stdout, 1<<20)
	for {
		line, err := rd.ReadString('\n')
		if err != nil {
			return
		}
		line = strings.TrimRight(line, "\n")
		tab := strings.IndexByte(line, '\t')
		if tab < 0 {
			continue
		}
		seq, _ := strconv.ParseUint(line[:tab], 10, 64)
		sc, err := val.Parse(line[tab+1:])
		if err != nil {
			fmt.Fprintln(os.Stderr, "joe child: bad scenario:", err)
			os.Exit(4)
		}
		status, evs := joeRunScenario(sc, seq, shm)
		var b bytes.Buffer
		fmt.Fprintf(&b, "R %d %s\n", seq, val.String(val.L(val.N(status), val.List(evs))))
		w.Write(b.Bytes())
		w.Flush()
		if status != 0 {
			os.Exit(3)
		}
	}
}
