package main

// Child side of the Joe families: the scenario, its val encoding, and its interpreter.
//
// scenario = ( meta replayer subs pubs shuts )
//   meta     = ( seed gomaxprocs policy parks [noonsession [spelling]] )
//              noonsession n1: the sse.Server of the scenario (see `via` below) has NO OnSession callback: every session
//              that comes in through it is subscribed to the default topic
//              spelling: how the topic NUMBERS of the scenario (topic 0 is always sse.DefaultTopic, the empty name) are
//              spelled as topic names - n0 one letter; else see jSpellings: names of 63 .. 5000 bytes that differ in
//              their last or first byte only, names with NUL / UTF-8 / blanks, lists that mix the sizes, names that are
//              prefixes of each other.  Topics are opaque to Joe, to the model and to the monitors (the trace records the
//              numbers): what a subscriber is owed cannot depend on how its topics are spelled.
//     park   = ( point id nth stages timeout_us )   hold the goroutine that logged event `point`
//              with first argument `id` (n999999 = any) at its nth occurrence (n0 = every one)
//              until the stages were observed or the timeout expired
//   stage    = ( code id count rel )   `count` events with that code and first argument (n999999 =
//              any) have been logged: since the start of the scenario (rel = n0) or since the
//              wait reached this stage (rel = n1).  code n0 = "every other scripted controller
//              has finished its script"; code n99 never happens (= wait for the timeout).
//   cond     = ( stage ... )   the stages one after the other; () = immediately
//   replayer = ( kind cap auto putscript replayscript [gc] )
//              kind n0 = the scripted wrapper alone, n1 = FiniteReplayer(cap), n2 = ValidReplayer, n3 = ValidReplayer
//              (TTL 1000 s) whose clock jumps +600 s right after the m-th accepted Put and +500 s right after the
//              (m+k)-th, cap = 100 m + k; gc = n1: the application's own GC() call follows the second jump at once
//              (made from inside Put, i.e. on Joe's goroutine: the replayer is never touched concurrently);
//              kind n4 = NO replayer at all: &sse.Joe{} with Replayer == nil (joe.go then runs its own noopReplayer;
//              the trace has no Put / Replay records, the scripts are ignored)
//   verdicts of the scripts (wscript, putscript, replayscript): < 100 ok, n98 panic (replayer only), >= 100 an error
//              whose CHARACTER is (v-100)%200/10 (see jErr): plain, Temporary(), Timeout(), wrapping
//              os.ErrDeadlineExceeded / context.DeadlineExceeded / context.Canceled of some other context, a *net.OpError,
//              and - calls that belong to a subscriber - the subscriber's own context cancelled inside the call and its
//              ctx.Err() returned as it is / wrapped with %w / wrapped in the harness's type; values wrapping the
//              library's own sentinels; values whose As / Is methods answer true to everything.  putscript only: v in
//              [300,400) = the error of character (v-300)/10 returned TOGETHER with the message (return m, err)
//   sub      = ( topics idopt wscript selfcancel start cancelopt [via [client]] )  cancelopt = () never | ( cond )
//              (( () ) = cancelled before Subscribe is called)
//              via (bits): 1 = the subscriber is an HTTP session: it comes in through sse.Server.ServeHTTP (a request with the
//              scenario's Last-Event-ID header, a ResponseWriter that can flush), the Server's OnSession callback answers
//              `topics` for it - a list of 0, 1, 2.. topics; an empty list (bit 4: nil, else empty non-nil) and a Server
//              without OnSession mean the default topic - and the Server's Provider is the scenario's Joe behind a thin
//              Provider that puts the recording writer in front of the *sse.Session (the Subscription is otherwise
//              the one the Server built: its Topics slice, its LastEventID).  2 = the writer forwards every call it answers
//              ok to a real *sse.Session (the Server's, or one made by sse.Upgrade) over a sink: whatever that does
//              with what Joe hands it happens on Joe's goroutine (a panic there ends the process: status 1).
//              The topics the trace records for a subscriber (sub.enter) are the EFFECTIVE ones (default topic filled in).
//              client (what the Subscription's Client field holds - the VALUE Joe sees, its identity and comparability):
//              n0 a pointer of the subscriber's own (the recording writer itself).  n1 a value of a FUNC type with
//              methods (as the library suite's own mockClient), n2 a struct holding a slice, n3 a struct holding a map,
//              both passed BY VALUE - dynamic types that cannot be compared: `==` on two such interface values panics.
//              n10+g: the subscriber shares ONE writer object (group g) with the other subscribers of that number - one
//              connection subscribed several times with different topics; the Client values are the same pointer.
//              n20+g: the same, the Client values being equal comparable struct VALUES.  A shared writer hands every
//              call to the recording writer of the subscription the call is for: inside a Replay the subscription the
//              loop is handling (loop.sub .. loop.replayed), in a fan-out the member of the group whose topics
//              intersect the message's (the generators give the members of a group topics such that no publication
//              matches two of them).  What Joe owes a subscription does not depend on what its Client value is or equals.
//   pub      = ( start msgs )  a publisher thread;  msg = ( topics idopt pre [shape [same [flags]]] )
//              flags (bits): 1 = published through sse.Server.Publish(m, topics...) - no topics there means the default
//              topic (Joe.Publish without topics is refused with ErrNoTopic); the trace records the effective topics.
//              2 = the call passes the thread's ONE topics slice object: the slice the thread's previous flagged call
//              passed, its elements REWRITTEN IN PLACE (resliced when the new list is shorter) once that call's delivery
//              round is over (the loop is idle again or has exited, or the call was refused) - a publisher that keeps
//              one buffer for its topics.  Where the end of the round was not observed, or the list is longer than the
//              buffer, a fresh slice is used and becomes the buffer.  Ignored when a real replayer stores the events
//              (kinds 1-3: replay.go keeps the slice it is given).
//              the token p of a message = its index in the concatenation of all threads' msgs (one token per Publish call).
//              shape n0: the data field carries the token; n1: a message without data, event type and retry
//              (with idopt = () it is &sse.Message{}).  same = k+1: this call publishes the SAME *sse.Message object as
//              the k-th call of its thread (a prebuilt heartbeat; idopt and shape are those of that object).
//              Which Publish call a message pointer stands for: at pub.enter the call the publisher is making, from
//              loop.msg on the call the loop accepted with that pointer, for a copy the call whose Put returned it;
//              only a pointer never seen is read by the token in its data (fallback: the ID Put returned for it).
//   shut     = ( start cancelopt )
//
// Nothing in a scenario is a sleep: controllers wait for observed events.  A wait also ends
// when nothing at all was logged for jQuiet (nothing can make progress any more) or after jHard;
// the controller then goes on with its script, so termination never depends on a race.

import (
	"context"
	"encoding/binary"
	"errors"
	"fmt"
	"io"
	"net"
	"net/http"
	"net/http/httptest"
	"os"
	"runtime"
	"sync"
	"sync/atomic"
	"syscall"
	"time"

	sse "github.com/tmaxmax/go-sse"

	"verifharness/val"
)

const (
	jAny     = 999999 // wildcard identity in stages and parks
	jUnknown = 999998 // an identity the harness never issued
	jNilTok  = 999999 // token recorded for a nil *Message
	jNever   = 99     // stage code that never happens
	jQuiet   = 20 * time.Millisecond
	jHard    = 400 * time.Millisecond
)

type jStage struct {
	code, id, count uint64
	rel             bool
}
type jCond []jStage

type jSubSpec struct {
	topics     []uint64
	idopt      val.V
	script     []uint64
	selfCancel bool
	start      jCond
	hasCancel  bool
	cancel     jCond
	via        uint64 // bits: 1 through Server.ServeHTTP, 2 forwards to a real Session, 4 OnSession answers nil for "no topics"
	client     uint64 // what Subscription.Client holds: see jClient* (direct subscribers only)
}

const (
	jClientOwn    = 0  // the subscriber's own pointer
	jClientFunc   = 1  // a func-typed value (uncomparable)
	jClientSlice  = 2  // a struct with a slice field, by value (uncomparable)
	jClientMap    = 3  // a struct with a map field, by value (uncomparable)
	jClientShare  = 10 // + g: the pointer of group g's shared writer
	jClientShareV = 20 // + g: a comparable struct value around group g's shared writer
)

// jShareGroup: the group whose writer object the subscriber shares (ok = false: none).
func (x *jSubSpec) jShareGroup() (g uint64, ok bool) {
	if x.via&jViaServer != 0 {
		return 0, false
	}
	if x.client >= jClientShare && x.client < jClientShareV+10 {
		return x.client, true // (the pointer groups and the struct-value groups are different writer objects)
	}
	return 0, false
}

const (
	jViaServer  = 1
	jViaSession = 2
	jViaNil     = 4
	jPubServer  = 1
	jPubReuse   = 2
)

// effTopics: the topics the subscription has for Joe - a session of the Server without topics of its own is on the
// default topic.
func (x *jSubSpec) effTopics(noOnSession bool) []uint64 {
	if x.via&jViaServer != 0 && (noOnSession || len(x.topics) == 0) {
		return []uint64{0}
	}
	return x.topics
}

// effTopics: the topics of the publication - Server.Publish without topics publishes to the default topic.
func (m *jMsgSpec) effTopics() []uint64 {
	if m.flags&jPubServer != 0 && len(m.topics) == 0 {
		return []uint64{0}
	}
	return m.topics
}

type jMsgSpec struct {
	topics []uint64
	idopt  val.V
	pre    jCond
	shape  uint64
	same   uint64 // k+1: the object of the k-th message of the thread is published again
	flags  uint64 // bits: 1 through Server.Publish, 2 the thread's one topics slice, rewritten in place
}
type jPubSpec struct {
	start jCond
	msgs  []jMsgSpec
}
type jShutSpec struct {
	start     jCond
	hasCancel bool
	cancel    jCond
}
type jParkSpec struct {
	point, id, nth uint64
	stages         jCond
	timeoutUs      uint64
	hits           uint64 // run time
}
type jScenario struct {
	seed, procs, policy uint64
	noOnSession         bool
	spell               uint64 // how topic numbers are spelled as names (jTopicName)
	parks               []*jParkSpec
	kind, cap, auto, gc uint64
	putScript           []uint64
	repScript           []uint64
	subs                []jSubSpec
	pubs                []jPubSpec
	shuts               []jShutSpec
}

// ---- encoding ------------------------------------------------------------------------------

func jNums(xs []uint64) val.V {
	l := make([]val.V, len(xs))
	for i, x := range xs {
		l[i] = val.N(x)
	}
	return val.List(l)
}
func (c jCond) enc() val.V {
	l := make([]val.V, len(c))
	for i, s := range c {
		l[i] = val.L(val.N(s.code), val.N(s.id), val.N(s.count), val.Bool(s.rel))
	}
	return val.List(l)
}
func jCondOpt(has bool, c jCond) val.V {
	if !has {
		return val.L()
	}
	return val.L(c.enc())
}
func jIDOpt(v val.V) val.V {
	if v.K != '(' {
		return val.L()
	}
	return v
}

func (s *jScenario) enc() val.V {
	parks := []val.V{}
	for _, p := range s.parks {
		parks = append(parks, val.L(val.N(p.point), val.N(p.id), val.N(p.nth), p.stages.enc(), val.N(p.timeoutUs)))
	}
	subs := []val.V{}
	for _, x := range s.subs {
		sv := []val.V{jNums(x.topics), jIDOpt(x.idopt), jNums(x.script), val.Bool(x.selfCancel),
			x.start.enc(), jCondOpt(x.hasCancel, x.cancel)}
		if x.via != 0 || x.client != 0 {
			sv = append(sv, val.N(x.via))
		}
		if x.client != 0 {
			sv = append(sv, val.N(x.client))
		}
		subs = append(subs, val.List(sv))
	}
	pubs := []val.V{}
	for _, t := range s.pubs {
		msgs := []val.V{}
		for _, m := range t.msgs {
			mv := []val.V{jNums(m.topics), jIDOpt(m.idopt), m.pre.enc()}
			if m.shape != 0 || m.same != 0 || m.flags != 0 {
				mv = append(mv, val.N(m.shape))
			}
			if m.same != 0 || m.flags != 0 {
				mv = append(mv, val.N(m.same))
			}
			if m.flags != 0 {
				mv = append(mv, val.N(m.flags))
			}
			msgs = append(msgs, val.List(mv))
		}
		pubs = append(pubs, val.L(t.start.enc(), val.List(msgs)))
	}
	shuts := []val.V{}
	for _, h := range s.shuts {
		shuts = append(shuts, val.L(h.start.enc(), jCondOpt(h.hasCancel, h.cancel)))
	}
	rv := []val.V{val.N(s.kind), val.N(s.cap), val.N(s.auto), jNums(s.putScript), jNums(s.repScript)}
	if s.gc != 0 {
		rv = append(rv, val.N(s.gc))
	}
	meta := []val.V{val.N(s.seed), val.N(s.procs), val.N(s.policy), val.List(parks)}
	if s.noOnSession || s.spell != 0 {
		meta = append(meta, val.Bool(s.noOnSession))
	}
	if s.spell != 0 {
		meta = append(meta, val.N(s.spell))
	}
	return val.L(
		val.List(meta),
		val.List(rv),
		val.List(subs), val.List(pubs), val.List(shuts))
}

func jDecCond(v val.V) jCond {
	c := jCond{}
	for _, s := range v.Items() {
		c = append(c, jStage{s.At(0).Num(), s.At(1).Num(), s.At(2).Num(), s.At(3).Truth()})
	}
	return c
}

func jDecode(v val.V) *jScenario {
	meta, rep := v.At(0), v.At(1)
	s := &jScenario{seed: meta.At(0).Num(), procs: meta.At(1).Num(), policy: meta.At(2).Num(), noOnSession: meta.At(4).Truth(), spell: meta.At(5).Num(),
		kind: rep.At(0).Num(), cap: rep.At(1).Num(), auto: rep.At(2).Num(), gc: rep.At(5).Num(),
		putScript: scriptOf(rep.At(3)), repScript: scriptOf(rep.At(4))}
	for _, p := range meta.At(3).Items() {
		s.parks = append(s.parks, &jParkSpec{point: p.At(0).Num(), id: p.At(1).Num(), nth: p.At(2).Num(),
			stages: jDecCond(p.At(3)), timeoutUs: p.At(4).Num()})
	}
	for _, x := range v.At(2).Items() {
		s.subs = append(s.subs, jSubSpec{topics: scriptOf(x.At(0)), idopt: x.At(1), script: scriptOf(x.At(2)),
			selfCancel: x.At(3).Truth(), start: jDecCond(x.At(4)), hasCancel: x.At(5).Present(), cancel: jDecCond(x.At(5).At(0)), via: x.At(6).Num(), client: x.At(7).Num()})
	}
	for _, t := range v.At(3).Items() {
		pt := jPubSpec{start: jDecCond(t.At(0))}
		for _, m := range t.At(1).Items() {
			pt.msgs = append(pt.msgs, jMsgSpec{topics: scriptOf(m.At(0)), idopt: m.At(1), pre: jDecCond(m.At(2)), shape: m.At(3).Num(), same: m.At(4).Num(), flags: m.At(5).Num()})
		}
		s.pubs = append(s.pubs, pt)
	}
	final := false
	for _, h := range v.At(4).Items() {
		hs := jShutSpec{start: jDecCond(h.At(0)), hasCancel: h.At(1).Present(), cancel: jDecCond(h.At(1).At(0))}
		final = final || !hs.hasCancel
		s.shuts = append(s.shuts, hs)
	}
	if !final {
		// every run ends with a Shutdown whose context is never cancelled
		s.shuts = append(s.shuts, jShutSpec{start: jCond{{code: 0}}})
	}
	return s
}

// jSpellings: the shapes a scenario's topic names can have.  size > 0: names of exactly that many bytes - a filler
// and ONE distinguishing byte (the last one, or the first one where `first` is set); size 0: see jTopicName.
var jSpellings = []struct {
	name  string
	size  int
	first bool
}{
	{"one-letter", 1, false},
	{"63-bytes", 63, false}, {"64-bytes", 64, false}, {"65-bytes", 65, false},
	{"127-bytes", 127, false}, {"128-bytes", 128, false}, {"129-bytes", 129, false},
	{"200-bytes", 200, false}, {"255-bytes", 255, false}, {"256-bytes", 256, false}, {"257-bytes", 257, false},
	{"1000-bytes", 1000, false}, {"5000-bytes", 5000, false},
	{"64-bytes-differing-in-the-first-byte", 64, true}, {"300-bytes-differing-in-the-first-byte", 300, true},
	{"NUL-inside", 0, false}, {"UTF-8", 0, false}, {"blanks-and-controls", 0, false},
	{"sizes-mixed-in-one-scenario", 0, false}, {"prefixes-of-each-other", 0, false},
	// names that are other names put together with a separator: 1 = a, 2 = b, 3 = a<sep>b, 4 = c, 5 = b<sep>c,
	// 6 = a<sep>b<sep>c, 7 = <sep> (the default topic twice), 8 = <sep>a, 9 = a<sep>
	{"joined-by-comma", 0, false}, {"joined-by-blank", 0, false}, {"joined-by-NUL", 0, false}, {"joined-by-bar", 0, false},
	{"joined-by-semicolon", 0, false}, {"joined-by-LF", 0, false}, {"joined-by-slash", 0, false}, {"joined-by-unit-separator", 0, false},
	{"joined-by-nothing", 0, false},
}

var jJoinSeps = map[string]string{"joined-by-comma": ",", "joined-by-blank": " ", "joined-by-NUL": "\x00", "joined-by-bar": "|",
	"joined-by-semicolon": ";", "joined-by-LF": "\n", "joined-by-slash": "/", "joined-by-unit-separator": "\x1f", "joined-by-nothing": ""}

func jJoinedName(n uint64, sep string) string {
	switch n {
	case 1:
		return "a"
	case 2:
		return "b"
	case 3:
		return "a" + sep + "b"
	case 4:
		return "c"
	case 5:
		return "b" + sep + "c"
	case 6:
		return "a" + sep + "b" + sep + "c"
	case 7:
		if sep == "" {
			return "ba" // with no separator the join of two default topics IS the default topic
		}
		return sep
	case 8:
		if sep == "" {
			return "ca"
		}
		return sep + "a"
	case 9:
		if sep == "" {
			return "cb"
		}
		return "a" + sep
	}
	return "t" + string(rune('a'+(n-1)%26)) + "t"
}

var jMixedSizes = []int{1, 63, 64, 65, 200, 5000, 127, 128, 255, 256, 2, 32}

func jSizedName(size int, first bool, letter byte) string {
	b := make([]byte, size)
	for i := range b {
		b[i] = 't'
	}
	if first {
		b[0] = letter
	} else {
		b[size-1] = letter
	}
	return string(b)
}

// jTopicName spells topic number n.  Topic 0 is the default topic (the empty name) in every spelling; distinct
// numbers get distinct names.
func jTopicName(n, spell uint64) string {
	if n == 0 {
		return sse.DefaultTopic
	}
	letter := byte('a' + (n-1)%26)
	if spell >= uint64(len(jSpellings)) {
		spell = 0
	}
	sp := jSpellings[spell]
	if sp.size > 0 {
		return jSizedName(sp.size, sp.first, letter)
	}
	if sep, ok := jJoinSeps[sp.name]; ok {
		return jJoinedName(n, sep)
	}
	switch sp.name {
	case "NUL-inside":
		return "t\x00" + string(rune(letter)) // equal up to and including the NUL
	case "UTF-8":
		return "té世" + string(rune(0x430+n)) // the names differ in the last byte of a two-byte rune only
	case "blanks-and-controls":
		return " \t" + string(rune(letter)) + " "
	case "prefixes-of-each-other":
		return jSizedName(int(n)+62, true, 't') // "ttt...": topic n (63, 64, 65 .. bytes) is a proper prefix of topic n+1
	default: // sizes mixed: the size depends on the topic number
		return jSizedName(jMixedSizes[n%uint64(len(jMixedSizes))], false, letter)
	}
}

func (s *jScenario) topicNames(ns []uint64) []string {
	out := make([]string, len(ns))
	for i, n := range ns {
		out[i] = jTopicName(n, s.spell)
	}
	return out
}

// jErr is a scripted error value with a character.  idx is the verdict number of the script; its character
// jErrKind(idx) decides what the value looks like to code that inspects errors (errors.Is / errors.As / the
// net.Error methods).  Joe owes every one of them the same treatment: an error is an error.
//
//	0 plain (codeErr)                      1 Temporary() is true             2 Timeout() is true
//	3 wraps os.ErrDeadlineExceeded         4 wraps context.DeadlineExceeded  5 wraps context.Canceled
//	  (its Timeout() is true)                (4, 5: of no context of the scenario - the sentinels themselves)
//	6 a *net.OpError around a Timeout() error
//	7 8 9 (calls that belong to a subscriber) the subscriber's own context is cancelled inside the call, and the
//	  error is ctx.Err() itself / fmt.Errorf("...: %w", ctx.Err()) / a jErr wrapping ctx.Err()
//	10 11 12 13 wraps the library's own sse.ErrNoTopic / sse.ErrProviderClosed / sse.ErrUnexpectedEOF, and io.EOF
//	  (values Joe himself gives a meaning to when HE produces them; coming from a writer or a replayer they are errors)
//	14 its method As(any) bool answers true to every question (and sets nothing)   15 its method Is(error) bool
//	  answers true to every question - the catch-all helpers of test doubles and "error kind" types: to whoever asks
//	  errors.As / errors.Is such a value "is" any type and any sentinel, the asker's own private ones included
type jErr struct {
	idx   uint64
	inner error
}

const (
	jErrKinds     = 10 // characters a subscriber's writer (and a Replay for that subscriber) can answer
	jErrKindsAny  = 7  // characters that need no subscriber
	jErrKindFirst = 10 // the further characters that need no subscriber: jErrKindFirst .. jErrKindLast
	jErrKindLast  = 15
)

// the characters that need no subscriber, for the sweeps
var jErrKindsSweep = []uint64{0, 1, 2, 3, 4, 5, 6, 10, 11, 12, 13, 14, 15}

func jErrKind(v uint64) uint64 {
	if v < 100 {
		return 0
	}
	return (v - 100) % 200 / 10
}

func (e jErr) Error() string   { return fmt.Sprintf("scripted error %d", e.idx) }
func (e jErr) Temporary() bool { return jErrKind(e.idx) == 1 }
func (e jErr) Timeout() bool   { k := jErrKind(e.idx); return k == 2 || k == 6 }

// As / Is: the permissive characters claim to be whatever they are asked about (As sets nothing: the asker's
// target keeps its zero value).  joeErrCode recognises a jErr by its type, which errors.As tries first.
func (e jErr) As(any) bool   { return jErrKind(e.idx) == 14 }
func (e jErr) Is(error) bool { return jErrKind(e.idx) == 15 }
func (e jErr) Unwrap() error {
	switch jErrKind(e.idx) {
	case 3:
		return os.ErrDeadlineExceeded
	case 4:
		return context.DeadlineExceeded
	case 5:
		return context.Canceled
	case 10:
		return sse.ErrNoTopic
	case 11:
		return sse.ErrProviderClosed
	case 12:
		return sse.ErrUnexpectedEOF
	case 13:
		return io.EOF
	}
	return e.inner
}

// jOwnCtxKind: the character makes the call cancel the subscriber's own context before it answers.
func jOwnCtxKind(v uint64) bool { return v >= 100 && jErrKind(v) >= 7 && jErrKind(v) <= 9 }

// jErrCodeOf is the code the error built for verdict v projects to (joeErrCode): the verdict itself - the value is
// recognised by identity - except where the value returned IS a context error (characters 7, 8 with a subscriber).
func jErrCodeOf(v uint64, own bool) uint64 {
	if k := jErrKind(v); v >= 100 && own && (k == 7 || k == 8) {
		return 2
	}
	return v
}

// jErrOf builds the error for verdict v >= 100.  ctx is the context of the subscriber the call belongs to (nil:
// none, characters 7-9 are then plain); for the characters 7-9 the caller has cancelled it already.
func jErrOf(v uint64, ctx context.Context) error {
	switch k := jErrKind(v); {
	case k == 0 || k >= 7 && k <= 9 && ctx == nil:
		return codeErr{v}
	case k == 6:
		return &net.OpError{Op: "write", Net: "tcp", Err: jErr{idx: v}}
	case k == 7:
		return ctx.Err()
	case k == 8:
		return fmt.Errorf("write event: %w", ctx.Err())
	case k == 9:
		return jErr{idx: v, inner: ctx.Err()}
	default:
		return jErr{idx: v}
	}
}

// joeErrCode projects every error the Joe families see to the code of RunJoe.v.  The identity of a scripted value
// comes first: it may wrap any of the sentinels below.
func joeErrCode(err error) uint64 {
	if err == nil {
		return 0
	}
	var ce codeErr
	var je jErr
	switch {
	case errors.As(err, &je):
		return je.idx
	case errors.As(err, &ce):
		return ce.code
	case errors.Is(err, sse.ErrProviderClosed):
		return 1
	case errors.Is(err, context.Canceled), errors.Is(err, context.DeadlineExceeded):
		return 2
	case errors.Is(err, sse.ErrNoTopic):
		return 90
	}
	switch err.Error() {
	case "replay provider panicked":
		return 98
	case "message has no ID":
		return 91
	case "message already has an ID, can't use generated ID":
		return 92
	}
	return 99
}

func joeErrAny(b any) uint64 {
	if b == nil {
		return 0
	}
	if e, ok := b.(error); ok {
		return joeErrCode(e)
	}
	return 99
}

// ---- shared memory with the parent (event prefix that survives a crash) ----------------------

func joeMapShm() []byte {
	m, err := syscall.Mmap(3, 0, joeShmSize, syscall.PROT_READ|syscall.PROT_WRITE, syscall.MAP_SHARED)
	if err != nil {
		return nil
	}
	return m
}

// ---- the interpreter -------------------------------------------------------------------------

var jPoint = map[string]uint64{
	"sub.enter": 1, "sub.closed": 2, "sub.sent": 3, "sub.done": 4, "sub.ctx": 5, "sub.unsub": 6, "sub.drain": 7, "sub.return": 8,
	"pub.enter": 11, "pub.sent": 12, "pub.closed": 13, "pub.return": 14,
	"shut.enter": 16, "shut.close": 17, "shut.closed": 18, "shut.done": 19, "shut.ctx": 20, "shut.return": 21,
	"loop.idle": 24, "loop.msg": 25, "loop.put": 26, "loop.errs": 27, "loop.fail": 28, "loop.remove": 29, "loop.remove.skip": 30,
	"loop.sub": 31, "loop.replayed": 32, "loop.reject": 33, "loop.reg": 34, "loop.unsub": 35, "loop.done": 36, "loop.exit": 37,
}

type jx struct {
	clockJump atomic.Int64 // seconds added to the ValidReplayer's clock (kind 3)
	mu        sync.Mutex
	cond      *sync.Cond
	wakeFn    func()
	sc        *jScenario
	joe       *sse.Joe
	srv       *sse.Server // the Server in front of joe (subscribers with via&1, publications with flags&1)
	reqW      sync.Map    // *http.Request -> *jwriter: the sessions that come in through srv

	evs    []val.V
	counts map[[2]uint64]uint64
	last   time.Time
	shm    []byte
	shmOff int

	subIdx, pubIdx, shutIdx map[any]uint64
	tokThread               []uint64
	tokMsg                  []*jMsgSpec
	callTok                 map[*sse.Message]uint64 // the Publish call a publisher is making with this object (read at pub.enter)
	ptrTok                  map[*sse.Message]uint64 // the call a pointer stands for once the loop accepted it / Put returned it
	idTok                   map[string]uint64       // messages without a data token: the IDs Put returned for them
	writers                 []*jwriter
	shares                  map[uint64]*jshare // the shared writer objects, by group
	parksBy                 map[uint64][]*jParkSpec

	pending  int // controllers whose start does not wait for "all others finished" and that are not finished
	ctlLeft  int // controllers not finished
	calls    int // calls started and not returned
	shutSeen bool
	exitSeen bool
	inRound  bool // the loop is inside the delivery round of Publish call roundTok (from loop.errs until it is idle / gone)
	roundTok uint64
}

const jRoundOver = 50 // stage code: the delivery round of Publish call `id` is over (or the call was refused: there is none)

func (x *jx) appendLocked(ev val.V, code, id uint64) int {
	seq := len(x.evs)
	x.evs = append(x.evs, ev)
	x.counts[[2]uint64{code, id}]++
	if id != jAny {
		x.counts[[2]uint64{code, jAny}]++
	}
	switch code {
	case 18:
		x.shutSeen = true
	case 37:
		x.exitSeen = true
	}
	switch code {
	case 27:
		x.inRound, x.roundTok = true, id
	case 24, 36, 37:
		if x.inRound {
			x.inRound = false
			x.counts[[2]uint64{jRoundOver, x.roundTok}]++
		}
	case 15:
		if x.counts[[2]uint64{25, id}] == 0 {
			x.counts[[2]uint64{jRoundOver, id}]++ // Publish returned and the loop never took the message
		}
	}
	if x.shm != nil {
		t := val.String(ev)
		if x.shmOff+len(t)+1 <= len(x.shm)-joeShmHeader {
			p := x.shm[joeShmHeader+x.shmOff:]
			n := 0
			if x.shmOff > 0 {
				p[0] = ' '
				n = 1
			}
			n += copy(p[n:], t)
			x.shmOff += n
			binary.LittleEndian.PutUint64(x.shm[8:16], uint64(x.shmOff))
		} else {
			x.shm = nil
		}
	}
	x.last = time.Now()
	x.cond.Broadcast()
	return seq
}

// rec logs a harness-generated event whose first argument is id.
func (x *jx) rec(code, id uint64, rest ...val.V) int {
	ev := val.List(append([]val.V{val.N(code), val.N(id)}, rest...))
	x.mu.Lock()
	seq := x.appendLocked(ev, code, id)
	x.mu.Unlock()
	return seq
}

func (x *jx) look(m map[any]uint64, k any) uint64 {
	if i, ok := m[k]; ok {
		return i
	}
	return jUnknown
}

// tokOfLocked identifies the Publish call a message pointer stands for: the call the loop accepted with this
// pointer (recorded at loop.msg) or whose Put returned it (one object may be published many times, and a Publish
// call returns while its fan-out is still running, so neither the data nor the call site can tell); a pointer never
// seen by the token its data carries (read-only: safe from any goroutine), else by the ID the replayer gave it.
// Caller holds x.mu.
func (x *jx) tokOfLocked(m *sse.Message) uint64 {
	if m == nil {
		return jNilTok
	}
	if p, ok := x.ptrTok[m]; ok {
		return p
	}
	if c, _ := m.VerifChunks(); len(c) > 0 {
		return msgTok(m)
	}
	if m.ID.IsSet() {
		if p, ok := x.idTok[m.ID.String()]; ok {
			return p
		}
	}
	return jUnknown
}

func (x *jx) tokOf(m *sse.Message) uint64 {
	x.mu.Lock()
	defer x.mu.Unlock()
	return x.tokOfLocked(m)
}

// noteMsgLocked records that from now on the pointer m stands for Publish call p.  Caller holds x.mu.
func (x *jx) noteMsgLocked(m *sse.Message, p uint64) {
	if m == nil || p >= uint64(len(x.tokMsg)) {
		return
	}
	x.ptrTok[m] = p
	if c, _ := m.VerifChunks(); len(c) == 0 && m.ID.IsSet() {
		if _, dup := x.idTok[m.ID.String()]; !dup {
			x.idTok[m.ID.String()] = p
		}
	}
}

func (x *jx) noteMsg(m *sse.Message, p uint64) {
	x.mu.Lock()
	x.noteMsgLocked(m, p)
	x.mu.Unlock()
}

// noteCall: a publisher is about to make Publish call p with the object m.
func (x *jx) noteCall(m *sse.Message, p uint64) {
	x.mu.Lock()
	x.callTok[m] = p
	x.mu.Unlock()
}

func jMkMsg(ms *jMsgSpec, p uint64) *sse.Message {
	if ms.shape == 0 {
		return mkMsg(ms.idopt, p)
	}
	m := &sse.Message{}
	if ms.idopt.Present() {
		m.ID = sse.ID(ms.idopt.At(0).Str())
	}
	return m
}

func jMsgID(m *sse.Message) val.V {
	if m == nil || !m.ID.IsSet() {
		return val.L()
	}
	return val.L(val.S(m.ID.String()))
}

// hook is installed with sse.VerifSetHook: identity translation and logging are one critical
// section, so the log order is the order in which the points were passed.
func (x *jx) hook(point string, a, b any) {
	code, ok := jPoint[point]
	if !ok {
		return
	}
	x.mu.Lock()
	id := uint64(jAny)
	var ev val.V
	switch {
	case code == 1:
		id = jUnknown
		topics, idopt := val.L(), val.L()
		if w := x.enteringLocked(b); w != nil {
			id = w.i
			topics, idopt = jNums(w.spec.effTopics(x.sc.noOnSession)), jIDOpt(w.spec.idopt)
		}
		x.subIdx[a] = id
		ev = val.L(val.N(1), val.N(id), topics, idopt)
	case code <= 8:
		id = x.look(x.subIdx, a)
		if code == 4 || code == 7 {
			ev = val.L(val.N(code), val.N(id), val.N(joeErrAny(b)))
		} else {
			ev = val.L(val.N(code), val.N(id))
		}
	case code == 11:
		m, _ := b.(*sse.Message)
		if p, ok := x.callTok[m]; ok && m != nil {
			id = p
		} else {
			id = x.tokOfLocked(m)
		}
		x.pubIdx[a] = id
		// what the publisher published: the topics and the ID it gave the message (the scenario's; a call the
		// harness did not make: what the message carries)
		topics, idopt, thread := val.L(), jMsgID(m), uint64(jUnknown)
		if id < uint64(len(x.tokMsg)) {
			topics, idopt, thread = jNums(x.tokMsg[id].effTopics()), jIDOpt(x.tokMsg[id].idopt), x.tokThread[id]
		}
		ev = val.L(val.N(11), val.N(id), topics, idopt, val.N(thread))
	case code <= 14:
		id = x.look(x.pubIdx, a)
		ev = val.L(val.N(code), val.N(id))
	case code <= 21:
		id = x.look(x.shutIdx, a)
		ev = val.L(val.N(code), val.N(id))
	case code == 24 || code == 36 || code == 37:
		ev = val.L(val.N(code))
	case code == 25 || code == 27:
		id = x.look(x.pubIdx, a)
		if m, ok := b.(*sse.Message); ok && code == 25 {
			x.noteMsgLocked(m, id) // the loop accepted call id with this pointer
		}
		ev = val.L(val.N(code), val.N(id))
	case code == 26:
		id = x.look(x.pubIdx, a)
		ev = val.L(val.N(code), val.N(id), val.N(joeErrAny(b)))
	case code == 28 || code == 32 || code == 33:
		id = x.look(x.subIdx, a)
		ev = val.L(val.N(code), val.N(id), val.N(joeErrAny(b)))
	default: // 29 30 31 34 35
		id = x.look(x.subIdx, a)
		ev = val.L(val.N(code), val.N(id))
	}
	if code >= 31 && code <= 34 && id < uint64(len(x.writers)) {
		if g := x.writers[id].share; g != nil {
			// a shared writer: from loop.sub until the Replay is over its calls are for this subscription
			if code == 31 {
				g.cur = x.writers[id]
			} else {
				g.cur = nil
			}
		}
	}
	seq := x.appendLocked(ev, code, id)
	x.mu.Unlock()
	x.after(code, id, seq)
}

func jMix(a, b uint64) uint64 {
	z := a ^ (b+1)*0x9E3779B97F4A7C15
	z = (z ^ (z >> 30)) * 0xBF58476D1CE4E5B9
	z = (z ^ (z >> 27)) * 0x94D049BB133111EB
	return z ^ (z >> 31)
}

// after runs in the goroutine that just logged event seq (outside the log mutex): directed
// parking, then the seeded perturbation.  The random choices are a pure function of
// (scenario seed, event number), hence goroutine-safe.
func (x *jx) after(code, id uint64, seq int) {
	if ps := x.parksBy[code]; ps != nil {
		for _, p := range ps {
			if p.id != jAny && p.id != id {
				continue
			}
			x.mu.Lock()
			p.hits++
			hit := p.nth == 0 || p.hits == p.nth
			x.mu.Unlock()
			if hit {
				x.waitStages(p.stages, time.Duration(p.timeoutUs)*time.Microsecond, false)
			}
		}
	}
	r := jMix(x.sc.seed, uint64(seq))
	switch x.sc.policy {
	case 1: // light
		switch r % 8 {
		case 0, 1:
			runtime.Gosched()
		case 2:
			time.Sleep(time.Duration(1+(r>>8)%20) * time.Microsecond)
		}
	case 2: // heavy
		switch r % 4 {
		case 0:
			runtime.Gosched()
		case 1:
			for k := uint64(0); k <= (r>>8)%3; k++ {
				runtime.Gosched()
			}
		case 2:
			time.Sleep(time.Duration(1+(r>>8)%100) * time.Microsecond)
		}
	case 3: // PCT-like: a fixed priority per actor, lowered at a few change points
		var actor uint64
		switch {
		case code <= 10:
			actor = 1000 + id
		case code <= 15:
			actor = 2000
			if id < uint64(len(x.tokThread)) {
				actor += x.tokThread[id]
			}
		case code <= 23:
			actor = 3000 + id
		default:
			actor = 1
		}
		prio := jMix(x.sc.seed^0x5bd1e995, actor) % 5
		for k := uint64(0); k < prio; k++ {
			runtime.Gosched()
		}
		if r%19 == 0 {
			time.Sleep(time.Duration(5+(r>>8)%60) * time.Microsecond)
		}
	}
}

func (x *jx) stageCount(st jStage) uint64 { return x.counts[[2]uint64{st.code, st.id}] }

// waitStages waits for the stages one after the other.  A park (ctl=false) ends early only by
// its timeout.  A controller (ctl=true) also stops waiting when nothing was logged for jQuiet
// (2 ms once Joe is shut down): what it waits for can no longer happen.
func (x *jx) waitStages(c jCond, timeout time.Duration, ctl bool) bool {
	if len(c) == 0 {
		return true
	}
	hard := time.Now().Add(timeout)
	x.mu.Lock()
	defer x.mu.Unlock()
	for _, st := range c {
		var base uint64
		if st.rel {
			base = x.stageCount(st)
		}
		for {
			if st.code == 0 {
				if x.pending == 0 {
					break
				}
				x.cond.Wait() // the final Shutdown: no giving up
				continue
			}
			if st.code != jNever && x.stageCount(st)-base >= st.count {
				break
			}
			now := time.Now()
			wake := hard
			if ctl {
				quiet := jQuiet
				if x.shutSeen {
					quiet = 2 * time.Millisecond
				}
				if q := x.last.Add(quiet); q.Before(wake) {
					wake = q
				}
			}
			if !now.Before(wake) {
				return false
			}
			t := time.AfterFunc(wake.Sub(now), x.wakeFn)
			x.cond.Wait()
			t.Stop()
		}
	}
	return true
}

func (x *jx) callStart() {
	x.mu.Lock()
	x.calls++
	x.mu.Unlock()
}
func (x *jx) callEnd() {
	x.mu.Lock()
	x.calls--
	x.cond.Broadcast()
	x.mu.Unlock()
}
func (x *jx) ctlEnd(counted bool) {
	x.mu.Lock()
	x.ctlLeft--
	if counted {
		x.pending--
	}
	x.cond.Broadcast()
	x.mu.Unlock()
}

func jIsFinal(c jCond) bool {
	for _, s := range c {
		if s.code == 0 {
			return true
		}
	}
	return false
}

// ---- the writer of a subscriber --------------------------------------------------------------

type jwriter struct {
	x      *jx
	i      uint64
	spec   *jSubSpec
	n      int
	ctx    context.Context // the context of its Subscribe call
	cancel context.CancelFunc
	sess   *sse.Session // via&2: the real Session every call answered ok is forwarded to
	share  *jshare      // the writer object it shares with other subscriptions (client 10+g / 20+g)
}

// The Client values of uncomparable dynamic type: each forwards to the recording writer of its subscriber.
type jfuncw func() *jwriter

func (f jfuncw) Send(m *sse.Message) error { return f().Send(m) }
func (f jfuncw) Flush() error              { return f().Flush() }

type jslicew struct {
	w   *jwriter
	buf []byte
}

func (v jslicew) Send(m *sse.Message) error { return v.w.Send(m) }
func (v jslicew) Flush() error              { return v.w.Flush() }

type jmapw struct {
	w    *jwriter
	tags map[string]string
}

func (v jmapw) Send(m *sse.Message) error { return v.w.Send(m) }
func (v jmapw) Flush() error              { return v.w.Flush() }

// jshare is ONE writer object subscribed several times (one connection, several subscriptions): every call is
// handed to the recording writer of the subscription it is for.
type jshare struct {
	x        *jx
	members  []*jwriter
	enter    sync.Mutex // held from before a member's Subscribe call until its sub.enter was logged
	entering *jwriter   // the member whose Subscribe call is being entered
	cur      *jwriter   // the member whose Replay the loop is in (x.mu)
	last     *jwriter   // the member the last Send was for: the Flush that follows is for it too
}

// jshareV is the comparable struct value around a shared writer: two of the same group are equal.
type jshareV struct{ g *jshare }

func (v jshareV) Send(m *sse.Message) error { return v.g.Send(m) }
func (v jshareV) Flush() error              { return v.g.Flush() }

func jIntersects(a, b []uint64) bool {
	for _, x := range a {
		for _, y := range b {
			if x == y {
				return true
			}
		}
	}
	return false
}

// pick: the member a Send of m is for.
func (g *jshare) pick(m *sse.Message) *jwriter {
	x := g.x
	x.mu.Lock()
	defer x.mu.Unlock()
	w := g.cur
	if w == nil {
		var topics []uint64
		if p := x.tokOfLocked(m); p < uint64(len(x.tokMsg)) {
			topics = x.tokMsg[p].effTopics()
		}
		for _, c := range g.members {
			if !jIntersects(c.spec.effTopics(x.sc.noOnSession), topics) {
				continue
			}
			reg := x.counts[[2]uint64{34, c.i}] > x.counts[[2]uint64{29, c.i}]
			if w == nil || reg {
				w = c // the registered member the message is for
			}
			if reg {
				break
			}
		}
		if w == nil {
			w = g.members[0]
		}
	}
	g.last = w
	return w
}

func (g *jshare) Send(m *sse.Message) error { return g.pick(m).Send(m) }
func (g *jshare) Flush() error {
	g.x.mu.Lock()
	w := g.last
	if g.cur != nil {
		w = g.cur
	}
	if w == nil {
		w = g.members[0]
	}
	g.x.mu.Unlock()
	return w.Flush()
}

// client: the value the subscriber's Subscription.Client holds.
func (w *jwriter) client() sse.MessageWriter {
	switch {
	case w.share != nil && w.spec.client >= jClientShareV:
		return jshareV{w.share}
	case w.share != nil:
		return w.share
	case w.spec.client == jClientFunc:
		return jfuncw(func() *jwriter { return w })
	case w.spec.client == jClientSlice:
		return jslicew{w: w, buf: make([]byte, 0, 16)}
	case w.spec.client == jClientMap:
		return jmapw{w: w, tags: map[string]string{"conn": "c"}}
	}
	return w
}

// writerOfLocked: the recording writer behind a Client value (a shared writer: the member whose Replay the loop is in).
// Caller holds x.mu.
func (x *jx) writerOfLocked(c any) *jwriter {
	switch v := c.(type) {
	case *jwriter:
		return v
	case jfuncw:
		return v()
	case jslicew:
		return v.w
	case jmapw:
		return v.w
	case *jshare:
		return v.cur
	case jshareV:
		return v.g.cur
	}
	return nil
}

func (x *jx) writerOf(c any) *jwriter {
	x.mu.Lock()
	defer x.mu.Unlock()
	return x.writerOfLocked(c)
}

// enteringLocked: the recording writer of the Subscribe call that logs sub.enter with Client value c.  The call of
// a member of a shared writer was announced by its controller (jshare.enter is released here).  Caller holds x.mu.
func (x *jx) enteringLocked(c any) *jwriter {
	var g *jshare
	switch v := c.(type) {
	case *jshare:
		g = v
	case jshareV:
		g = v.g
	default:
		return x.writerOfLocked(c)
	}
	w := g.entering
	if w != nil {
		g.entering = nil
		g.enter.Unlock()
	}
	return w
}

// jsink is the ResponseWriter of a session: it can flush, it keeps nothing.
type jsink struct{ h http.Header }

func (k *jsink) Header() http.Header {
	if k.h == nil {
		k.h = http.Header{}
	}
	return k.h
}
func (k *jsink) Write(p []byte) (int, error) { return len(p), nil }
func (k *jsink) WriteHeader(int)             {}
func (k *jsink) FlushError() error           { return nil }

// jprov is the Provider of the scenario's Server: Joe, with the recording writer put in front of the Session.  The
// Subscription is otherwise passed on as the Server built it (its Topics slice object, its LastEventID).
type jprov struct{ x *jx }

func (p *jprov) Subscribe(ctx context.Context, sub sse.Subscription) error {
	sess, _ := sub.Client.(*sse.Session)
	var w *jwriter
	if sess != nil {
		if v, ok := p.x.reqW.Load(sess.Req); ok {
			w = v.(*jwriter)
		}
	}
	if w == nil {
		return p.x.joe.Subscribe(ctx, sub) // not a session of the scenario
	}
	if w.spec.via&jViaSession != 0 {
		w.sess = sess
	}
	sub.Client = w
	err := p.x.joe.Subscribe(ctx, sub)
	p.x.rec(9, w.i, val.N(joeErrCode(err)))
	return err
}
func (p *jprov) Publish(m *sse.Message, topics []string) error { return p.x.joe.Publish(m, topics) }
func (p *jprov) Shutdown(ctx context.Context) error            { return p.x.joe.Shutdown(ctx) }

// onSession is the Server's OnSession callback: the topics the scenario gives the session.
func (x *jx) onSession(_ http.ResponseWriter, r *http.Request) ([]string, bool) {
	v, ok := x.reqW.Load(r)
	if !ok {
		return nil, true
	}
	w := v.(*jwriter)
	if len(w.spec.topics) == 0 && w.spec.via&jViaNil != 0 {
		return nil, true
	}
	return x.sc.topicNames(w.spec.topics), true
}

func (w *jwriter) verdict() uint64 {
	v := uint64(0)
	if w.n < len(w.spec.script) {
		v = w.spec.script[w.n]
	}
	w.n++
	if v < 100 {
		return 0
	}
	return v
}

// fail ends subscriber w's context where the script says so and builds the error for verdict v (of character
// jErrKind(v)); the code it projects to, jErrCodeOf(v, true), was logged by the caller.
func (w *jwriter) fail(v uint64) error {
	if w.spec.selfCancel || jOwnCtxKind(v) {
		// as net/http does on a write error: the request context ends inside the failing call
		w.x.rec(10, w.i)
		w.cancel()
	}
	return jErrOf(v, w.ctx)
}

func (w *jwriter) finish(code uint64, seq int, v uint64) error {
	var err error
	if v != 0 {
		err = w.fail(v)
	}
	w.x.after(code, w.i, seq)
	return err
}

func (w *jwriter) Send(m *sse.Message) error {
	tok := w.x.tokOf(m)
	v := w.verdict()
	seq := w.x.rec(38, w.i, val.N(tok), jMsgID(m), val.N(jErrCodeOf(v, true)))
	if v == 0 && w.sess != nil {
		w.sess.Send(m) // the real writer, on Joe's goroutine: it dereferences what it is handed
	}
	return w.finish(38, seq, v)
}

func (w *jwriter) Flush() error {
	v := w.verdict()
	seq := w.x.rec(39, w.i, val.N(jErrCodeOf(v, true)))
	if v == 0 && w.sess != nil {
		w.sess.Flush()
	}
	return w.finish(39, seq, v)
}

// ---- the recording replayer wrapper -----------------------------------------------------------

type jrep struct {
	x          *jx
	inner      sse.Replayer
	nput, nrep int
	accepted   int
}

func jScriptAt(s []uint64, k int) uint64 {
	if k < len(s) {
		if v := s[k]; v == 98 || v >= 100 {
			return v
		}
	}
	return 0
}

// scriptedPanic panics with a string, with an error value, or through a runtime error (all are replayer panics to Joe).
func scriptedPanic(k int, what string) {
	switch k % 3 {
	case 0:
		panic("scripted " + what + " panic")
	case 1:
		panic(fmt.Errorf("scripted %s panic carrying an error value", what))
	default:
		var m map[string]int
		m[what] = 1 // assignment to entry in nil map: a runtime.Error
	}
}

func (r *jrep) Put(m *sse.Message, topics []string) (out *sse.Message, err error) {
	p := r.x.tokOf(m)
	v := jScriptAt(r.x.sc.putScript, r.nput)
	r.nput++
	defer func() {
		if rc := recover(); rc != nil {
			seq := r.x.rec(40, p, val.N(98), val.L())
			r.x.after(40, p, seq)
			panic(rc)
		}
	}()
	switch {
	case v == 98:
		scriptedPanic(r.nput+len(r.x.sc.subs), "Put")
	case v >= 300:
		out, err = m, jErrOf(v, nil) // the "return m, err" habit: the message comes back together with the error
	case v >= 100:
		out, err = nil, jErrOf(v, nil)
	case r.inner == nil:
		out = m
	default:
		out, err = r.inner.Put(m, topics)
		if err == nil {
			r.accepted++
			r.x.noteMsg(out, p)
			if m, k := int(r.x.sc.cap)/100, int(r.x.sc.cap)%100; r.x.sc.kind == 3 {
				switch r.accepted {
				case m:
					r.x.clockJump.Store(600)
				case m + k:
					r.x.clockJump.Store(1100) // the first m accepted events are expired from now on, the next k are not
					if vr, ok := r.inner.(*sse.ValidReplayer); ok && r.x.sc.gc != 0 {
						vr.GC() // the application's own collection (documented use); the logical content is unchanged
					}
				}
			}
		}
	}
	seq := r.x.rec(40, p, val.N(joeErrCode(err)), jMsgID(out))
	r.x.after(40, p, seq)
	return out, err
}

func (r *jrep) Replay(sub sse.Subscription) error {
	i := uint64(jUnknown)
	w := r.x.writerOf(sub.Client)
	if w != nil {
		i = w.i
	}
	v := jScriptAt(r.x.sc.repScript, r.nrep)
	r.nrep++
	seq := r.x.rec(41, i)
	r.x.after(41, i, seq)
	switch {
	case v == 98:
		scriptedPanic(r.nrep+len(r.x.sc.pubs), "Replay")
	case v >= 100 && w != nil && jOwnCtxKind(v):
		// the replay ends because the subscriber went away: its context is cancelled, Replay returns that error
		r.x.rec(10, w.i)
		w.cancel()
		return jErrOf(v, w.ctx)
	case v >= 100:
		return jErrOf(v, nil)
	case r.inner == nil:
		return nil
	}
	return r.inner.Replay(sub)
}

// ---- running a scenario ------------------------------------------------------------------------

func joeRunScenario(v val.V, seq uint64, shm []byte) (status uint64, events []val.V) {
	sc := jDecode(v)
	x := &jx{sc: sc, counts: map[[2]uint64]uint64{}, shm: shm, last: time.Now(),
		subIdx: map[any]uint64{}, pubIdx: map[any]uint64{}, shutIdx: map[any]uint64{},
		callTok: map[*sse.Message]uint64{}, ptrTok: map[*sse.Message]uint64{}, idTok: map[string]uint64{},
		parksBy: map[uint64][]*jParkSpec{}, shares: map[uint64]*jshare{}}
	x.cond = sync.NewCond(&x.mu)
	x.wakeFn = func() {
		x.mu.Lock()
		x.cond.Broadcast()
		x.mu.Unlock()
	}
	if shm != nil {
		binary.LittleEndian.PutUint64(shm[8:16], 0)
		binary.LittleEndian.PutUint64(shm[0:8], seq)
	}
	for _, p := range sc.parks {
		x.parksBy[p.point] = append(x.parksBy[p.point], p)
	}
	for t := range sc.pubs {
		for k := range sc.pubs[t].msgs {
			if ms := &sc.pubs[t].msgs[k]; ms.same != 0 && ms.same <= uint64(k) {
				// the object of an earlier call of this thread: it is what that call built
				ms.idopt, ms.shape = sc.pubs[t].msgs[ms.same-1].idopt, sc.pubs[t].msgs[ms.same-1].shape
			} else {
				ms.same = 0
			}
			x.tokThread = append(x.tokThread, uint64(t))
			x.tokMsg = append(x.tokMsg, &sc.pubs[t].msgs[k])
		}
	}
	if sc.procs >= 1 && sc.procs <= 64 {
		runtime.GOMAXPROCS(int(sc.procs))
	}

	var inner sse.Replayer
	switch sc.kind {
	case 1:
		if r, err := sse.NewFiniteReplayer(int(sc.cap), sc.auto != 0); err == nil {
			inner = r
		}
	case 2:
		if r, err := sse.NewValidReplayer(time.Hour, sc.auto != 0); err == nil {
			inner = r
		}
	case 3:
		if r, err := sse.NewValidReplayer(1000*time.Second, sc.auto != 0); err == nil {
			start := time.Now()
			r.Now = func() time.Time { return start.Add(time.Duration(x.clockJump.Load()) * time.Second) }
			inner = r
		}
	}
	if sc.kind == 4 {
		x.joe = &sse.Joe{} // no replayer configured
	} else {
		x.joe = &sse.Joe{Replayer: &jrep{x: x, inner: inner}}
	}

	x.srv = &sse.Server{Provider: &jprov{x: x}}
	if !sc.noOnSession {
		x.srv.OnSession = x.onSession
	}

	sse.VerifSetHook(x.hook)
	defer sse.VerifSetHook(nil)

	// controllers
	nctl := len(sc.subs) + len(sc.pubs) + len(sc.shuts)
	x.ctlLeft = nctl
	for _, h := range sc.shuts {
		if !jIsFinal(h.start) {
			x.pending++
		}
	}
	x.pending += len(sc.subs) + len(sc.pubs)

	for i := range sc.subs {
		spec := &sc.subs[i]
		w := &jwriter{x: x, i: uint64(i), spec: spec}
		if gi, ok := spec.jShareGroup(); ok {
			if x.shares[gi] == nil {
				x.shares[gi] = &jshare{x: x}
			}
			w.share = x.shares[gi]
			w.share.members = append(w.share.members, w)
		}
		x.writers = append(x.writers, w)
		w.ctx, w.cancel = context.WithCancel(context.Background())
	}
	for i := range sc.subs { // (all writers exist before the first controller runs: the hook reads x.writers)
		spec := &sc.subs[i]
		w := x.writers[i]
		ctx, cancel := w.ctx, w.cancel
		go func() {
			defer x.ctlEnd(true)
			x.waitStages(spec.start, jHard, true)
			if spec.hasCancel && len(spec.cancel) == 0 {
				x.rec(10, w.i)
				cancel()
			}
			x.callStart()
			go func() {
				defer x.callEnd()
				if spec.via&jViaServer != 0 {
					// an HTTP session: the Server builds the Subscription (jprov records what Subscribe returned)
					req := httptest.NewRequest(http.MethodGet, "/events", nil).WithContext(ctx)
					if spec.idopt.Present() {
						req.Header.Set("Last-Event-ID", spec.idopt.At(0).Str())
					}
					x.reqW.Store(req, w)
					x.srv.ServeHTTP(&jsink{}, req)
					return
				}
				if spec.via&jViaSession != 0 {
					w.sess, _ = sse.Upgrade(&jsink{}, httptest.NewRequest(http.MethodGet, "/events", nil))
				}
				if w.share != nil {
					w.share.enter.Lock() // released when this call's sub.enter was logged
					w.share.entering = w
				}
				err := x.joe.Subscribe(ctx, sse.Subscription{Client: w.client(), LastEventID: lastID(spec.idopt), Topics: sc.topicNames(spec.topics)})
				x.rec(9, w.i, val.N(joeErrCode(err)))
			}()
			if spec.hasCancel && len(spec.cancel) > 0 {
				x.waitStages(spec.cancel, jHard, true)
				x.rec(10, w.i)
				cancel()
			}
		}()
	}
	tok := uint64(0)
	for t := range sc.pubs {
		pt := &sc.pubs[t]
		base := tok
		tok += uint64(len(pt.msgs))
		go func() {
			defer x.ctlEnd(true)
			x.waitStages(pt.start, jHard, true)
			objs := make([]*sse.Message, len(pt.msgs))
			var buf []string  // the thread's one topics slice (flags&2)
			var bufTok uint64 // the last call that passed it
			for k := range pt.msgs {
				ms := &pt.msgs[k]
				p := base + uint64(k)
				x.waitStages(ms.pre, jHard, true)
				var m *sse.Message
				if ms.same != 0 {
					m = objs[ms.same-1] // a prebuilt message published once more
				} else {
					m = jMkMsg(ms, p)
				}
				objs[k] = m
				topics := sc.topicNames(ms.topics)
				if ms.flags&jPubReuse != 0 && (sc.kind == 0 || sc.kind == 4) {
					if buf != nil && len(topics) <= cap(buf) &&
						x.waitStages(jCond{{code: jRoundOver, id: bufTok, count: 1}}, jHard, true) {
						buf = buf[:len(topics)]
						copy(buf, topics) // the previous call's slice, rewritten in place
					} else {
						buf = topics
					}
					topics, bufTok = buf, p
				}
				x.noteCall(m, p)
				x.rec(42, p, jNums(ms.effTopics()))
				x.callStart()
				var err error
				if ms.flags&jPubServer != 0 {
					err = x.srv.Publish(m, topics...)
				} else {
					err = x.joe.Publish(m, topics)
				}
				x.rec(15, p, val.N(joeErrCode(err)))
				x.callEnd()
			}
		}()
	}
	for h := range sc.shuts {
		spec := &sc.shuts[h]
		hi := uint64(h)
		// of which kind Shutdown's context is: a plain cancellable one; one cancelled WITH A CAUSE (its error is still
		// context.Canceled); a detached one - own Done / Err, values delegated to a live parent that has a cause slot
		var ctx context.Context
		var cancel func()
		switch (h + len(sc.subs) + len(sc.pubs)) % 3 {
		case 0:
			ctx, cancel = context.WithCancel(context.Background())
		case 1:
			c, cf := context.WithCancelCause(context.Background())
			ctx, cancel = c, func() { cf(codeErr{code: 77}) }
		default:
			parent, pcancel := context.WithCancelCause(context.Background())
			defer pcancel(nil)
			d := &detachedCtx{parent: parent, done: make(chan struct{})}
			ctx, cancel = d, d.end
		}
		x.mu.Lock()
		x.shutIdx[ctx] = hi
		x.mu.Unlock()
		counted := !jIsFinal(spec.start)
		go func() {
			defer x.ctlEnd(counted)
			x.waitStages(spec.start, jHard, true)
			if spec.hasCancel && len(spec.cancel) == 0 {
				x.rec(23, hi)
				cancel()
			}
			x.callStart()
			go func() {
				err := x.joe.Shutdown(ctx)
				x.rec(22, hi, val.N(joeErrCode(err)))
				x.callEnd()
			}()
			if spec.hasCancel && len(spec.cancel) > 0 {
				x.waitStages(spec.cancel, jHard, true)
				x.rec(23, hi)
				cancel()
			}
		}()
	}

	// the end: every controller finished, every started call returned, the loop exited
	deadline := time.Now().Add(joeDeadline())
	x.mu.Lock()
	for !(x.ctlLeft == 0 && x.calls == 0 && x.exitSeen) {
		now := time.Now()
		if !now.Before(deadline) {
			status = 2
			break
		}
		t := time.AfterFunc(deadline.Sub(now), x.wakeFn)
		x.cond.Wait()
		t.Stop()
	}
	events = append([]val.V{}, x.evs...)
	x.shm = nil
	x.mu.Unlock()
	return status, events
}

// detachedCtx ends on its own (Err: context.DeadlineExceeded) and answers Value from a parent that is still alive.
type detachedCtx struct {
	parent context.Context
	done   chan struct{}
	once   sync.Once
	mu     sync.Mutex
	err    error
}

func (d *detachedCtx) Deadline() (time.Time, bool) { return time.Time{}, false }
func (d *detachedCtx) Done() <-chan struct{}       { return d.done }
func (d *detachedCtx) Err() error                  { d.mu.Lock(); defer d.mu.Unlock(); return d.err }
func (d *detachedCtx) Value(k any) any             { return d.parent.Value(k) }
func (d *detachedCtx) end() {
	d.once.Do(func() {
		d.mu.Lock()
		d.err = context.DeadlineExceeded
		d.mu.Unlock()
		close(d.done)
	})
}
