package main

// Child side of the Joe families: the scenario, its val encoding, and its interpreter.
//
// scenario = ( meta replayer subs pubs shuts )
//   meta     = ( seed gomaxprocs policy parks )
//     park   = ( point id nth stages timeout_us )   hold the goroutine that logged event `point`
//              with first argument `id` (n999999 = any) at its nth occurrence (n0 = every one)
//              until the stages were observed or the timeout expired
//   stage    = ( code id count rel )   `count` events with that code and first argument (n999999 =
//              any) have been logged: since the start of the scenario (rel = n0) or since the
//              wait reached this stage (rel = n1).  code n0 = "every other scripted controller
//              has finished its script"; code n99 never happens (= wait for the timeout).
//   cond     = ( stage ... )   the stages one after the other; () = immediately
//   replayer = ( kind cap auto putscript replayscript [gc] )
//              kind n0 = the scripted wrapper alone, n1 = FiniteReplayer(cap), n2 = ValidReplayer, n3 = ValidReplayer
//              (TTL 1000 s) whose clock jumps +600 s right after the m-th accepted Put and +500 s right after the
//              (m+k)-th, cap = 100 m + k; gc = n1: the application's own GC() call follows the second jump at once
//              (made from inside Put, i.e. on Joe's goroutine: the replayer is never touched concurrently)
//   sub      = ( topics idopt wscript selfcancel start cancelopt )  cancelopt = () never | ( cond )
//              (( () ) = cancelled before Subscribe is called)
//   pub      = ( start msgs )  a publisher thread;  msg = ( topics idopt pre [shape] )
//              the token p of a message = its index in the concatenation of all threads' msgs.
//              shape n0: the data field carries the token; n1: a message without data, event type and retry
//              (with idopt = () it is &sse.Message{}).  A message without data is recognised by the pointer the
//              publisher passed / the replayer's Put returned (fallback: the ID Put returned for it).
//   shut     = ( start cancelopt )
//
// Nothing in a scenario is a sleep: controllers wait for observed events.  A wait also ends
// when nothing at all was logged for jQuiet (nothing can make progress any more) or after jHard;
// the controller then goes on with its script, so termination never depends on a race.

import (
	"context"
	"encoding/binary"
	"errors"
	"fmt"
	"runtime"
	"sync"
	"sync/atomic"
	"syscall"
	"time"

	sse "github.com/tmaxmax/go-sse"

	"verifharness/val"
)

const (
	jAny     = 999999 // wildcard identity in stages and parks
	jUnknown = 999998 // an identity the harness never issued
	jNilTok  = 999999 // token recorded for a nil *Message
	jNever   = 99     // stage code that never happens
	jQuiet   = 20 * time.Millisecond
	jHard    = 400 * time.Millisecond
)

type jStage struct {
	code, id, count uint64
	rel             bool
}
type jCond []jStage

type jSubSpec struct {
	topics     []uint64
	idopt      val.V
	script     []uint64
	selfCancel bool
	start      jCond
	hasCancel  bool
	cancel     jCond
}
type jMsgSpec struct {
	topics []uint64
	idopt  val.V
	pre    jCond
	shape  uint64
}
type jPubSpec struct {
	start jCond
	msgs  []jMsgSpec
}
type jShutSpec struct {
	start     jCond
	hasCancel bool
	cancel    jCond
}
type jParkSpec struct {
	point, id, nth uint64
	stages         jCond
	timeoutUs      uint64
	hits           uint64 // run time
}
type jScenario struct {
	seed, procs, policy uint64
	parks               []*jParkSpec
	kind, cap, auto, gc uint64
	putScript           []uint64
	repScript           []uint64
	subs                []jSubSpec
	pubs                []jPubSpec
	shuts               []jShutSpec
}

// ---- encoding ------------------------------------------------------------------------------

func jNums(xs []uint64) val.V {
	l := make([]val.V, len(xs))
	for i, x := range xs {
		l[i] = val.N(x)
	}
	return val.List(l)
}
func (c jCond) enc() val.V {
	l := make([]val.V, len(c))
	for i, s := range c {
		l[i] = val.L(val.N(s.code), val.N(s.id), val.N(s.count), val.Bool(s.rel))
	}
	return val.List(l)
}
func jCondOpt(has bool, c jCond) val.V {
	if !has {
		return val.L()
	}
	return val.L(c.enc())
}
func jIDOpt(v val.V) val.V {
	if v.K != '(' {
		return val.L()
	}
	return v
}

func (s *jScenario) enc() val.V {
	parks := []val.V{}
	for _, p := range s.parks {
		parks = append(parks, val.L(val.N(p.point), val.N(p.id), val.N(p.nth), p.stages.enc(), val.N(p.timeoutUs)))
	}
	subs := []val.V{}
	for _, x := range s.subs {
		subs = append(subs, val.L(jNums(x.topics), jIDOpt(x.idopt), jNums(x.script), val.Bool(x.selfCancel),
			x.start.enc(), jCondOpt(x.hasCancel, x.cancel)))
	}
	pubs := []val.V{}
	for _, t := range s.pubs {
		msgs := []val.V{}
		for _, m := range t.msgs {
			mv := []val.V{jNums(m.topics), jIDOpt(m.idopt), m.pre.enc()}
			if m.shape != 0 {
				mv = append(mv, val.N(m.shape))
			}
			msgs = append(msgs, val.List(mv))
		}
		pubs = append(pubs, val.L(t.start.enc(), val.List(msgs)))
	}
	shuts := []val.V{}
	for _, h := range s.shuts {
		shuts = append(shuts, val.L(h.start.enc(), jCondOpt(h.hasCancel, h.cancel)))
	}
	rv := []val.V{val.N(s.kind), val.N(s.cap), val.N(s.auto), jNums(s.putScript), jNums(s.repScript)}
	if s.gc != 0 {
		rv = append(rv, val.N(s.gc))
	}
	return val.L(
		val.L(val.N(s.seed), val.N(s.procs), val.N(s.policy), val.List(parks)),
		val.List(rv),
		val.List(subs), val.List(pubs), val.List(shuts))
}

func jDecCond(v val.V) jCond {
	c := jCond{}
	for _, s := range v.Items() {
		c = append(c, jStage{s.At(0).Num(), s.At(1).Num(), s.At(2).Num(), s.At(3).Truth()})
	}
	return c
}

func jDecode(v val.V) *jScenario {
	meta, rep := v.At(0), v.At(1)
	s := &jScenario{seed: meta.At(0).Num(), procs: meta.At(1).Num(), policy: meta.At(2).Num(),
		kind: rep.At(0).Num(), cap: rep.At(1).Num(), auto: rep.At(2).Num(), gc: rep.At(5).Num(),
		putScript: scriptOf(rep.At(3)), repScript: scriptOf(rep.At(4))}
	for _, p := range meta.At(3).Items() {
		s.parks = append(s.parks, &jParkSpec{point: p.At(0).Num(), id: p.At(1).Num(), nth: p.At(2).Num(),
			stages: jDecCond(p.At(3)), timeoutUs: p.At(4).Num()})
	}
	for _, x := range v.At(2).Items() {
		s.subs = append(s.subs, jSubSpec{topics: scriptOf(x.At(0)), idopt: x.At(1), script: scriptOf(x.At(2)),
			selfCancel: x.At(3).Truth(), start: jDecCond(x.At(4)), hasCancel: x.At(5).Present(), cancel: jDecCond(x.At(5).At(0))})
	}
	for _, t := range v.At(3).Items() {
		pt := jPubSpec{start: jDecCond(t.At(0))}
		for _, m := range t.At(1).Items() {
			pt.msgs = append(pt.msgs, jMsgSpec{topics: scriptOf(m.At(0)), idopt: m.At(1), pre: jDecCond(m.At(2)), shape: m.At(3).Num()})
		}
		s.pubs = append(s.pubs, pt)
	}
	final := false
	for _, h := range v.At(4).Items() {
		hs := jShutSpec{start: jDecCond(h.At(0)), hasCancel: h.At(1).Present(), cancel: jDecCond(h.At(1).At(0))}
		final = final || !hs.hasCancel
		s.shuts = append(s.shuts, hs)
	}
	if !final {
		// every run ends with a Shutdown whose context is never cancelled
		s.shuts = append(s.shuts, jShutSpec{start: jCond{{code: 0}}})
	}
	return s
}

func jTopicName(n uint64) string {
	if n == 0 {
		return sse.DefaultTopic
	}
	return string(rune('a' + n - 1))
}
func jTopicNames(ns []uint64) []string {
	out := make([]string, len(ns))
	for i, n := range ns {
		out[i] = jTopicName(n)
	}
	return out
}

// joeErrCode projects every error the Joe families see to the code of RunJoe.v.
func joeErrCode(err error) uint64 {
	if err == nil {
		return 0
	}
	var ce codeErr
	switch {
	case errors.As(err, &ce):
		return ce.code
	case errors.Is(err, sse.ErrProviderClosed):
		return 1
	case errors.Is(err, context.Canceled), errors.Is(err, context.DeadlineExceeded):
		return 2
	case errors.Is(err, sse.ErrNoTopic):
		return 90
	}
	switch err.Error() {
	case "replay provider panicked":
		return 98
	case "message has no ID":
		return 91
	case "message already has an ID, can't use generated ID":
		return 92
	}
	return 99
}

func joeErrAny(b any) uint64 {
	if b == nil {
		return 0
	}
	if e, ok := b.(error); ok {
		return joeErrCode(e)
	}
	return 99
}

// ---- shared memory with the parent (event prefix that survives a crash) ----------------------

func joeMapShm() []byte {
	m, err := syscall.Mmap(3, 0, joeShmSize, syscall.PROT_READ|syscall.PROT_WRITE, syscall.MAP_SHARED)
	if err != nil {
		return nil
	}
	return m
}

// ---- the interpreter -------------------------------------------------------------------------

var jPoint = map[string]uint64{
	"sub.enter": 1, "sub.closed": 2, "sub.sent": 3, "sub.done": 4, "sub.ctx": 5, "sub.unsub": 6, "sub.drain": 7, "sub.return": 8,
	"pub.enter": 11, "pub.sent": 12, "pub.closed": 13, "pub.return": 14,
	"shut.enter": 16, "shut.close": 17, "shut.closed": 18, "shut.done": 19, "shut.ctx": 20, "shut.return": 21,
	"loop.idle": 24, "loop.msg": 25, "loop.put": 26, "loop.errs": 27, "loop.fail": 28, "loop.remove": 29, "loop.remove.skip": 30,
	"loop.sub": 31, "loop.replayed": 32, "loop.reject": 33, "loop.reg": 34, "loop.unsub": 35, "loop.done": 36, "loop.exit": 37,
}

type jx struct {
	clockJump atomic.Int64 // seconds added to the ValidReplayer's clock (kind 3)
	mu        sync.Mutex
	cond      *sync.Cond
	wakeFn    func()
	sc        *jScenario
	joe       *sse.Joe

	evs    []val.V
	counts map[[2]uint64]uint64
	last   time.Time
	shm    []byte
	shmOff int

	subIdx, pubIdx, shutIdx map[any]uint64
	tokThread               []uint64
	tokMsg                  []*jMsgSpec
	ptrTok                  map[*sse.Message]uint64 // messages that carry no data token: the pointers that stand for them
	idTok                   map[string]uint64       // ... and the IDs Put returned for them
	writers                 []*jwriter
	parksBy                 map[uint64][]*jParkSpec

	pending  int // controllers whose start does not wait for "all others finished" and that are not finished
	ctlLeft  int // controllers not finished
	calls    int // calls started and not returned
	shutSeen bool
	exitSeen bool
}

func (x *jx) appendLocked(ev val.V, code, id uint64) int {
	seq := len(x.evs)
	x.evs = append(x.evs, ev)
	x.counts[[2]uint64{code, id}]++
	if id != jAny {
		x.counts[[2]uint64{code, jAny}]++
	}
	switch code {
	case 18:
		x.shutSeen = true
	case 37:
		x.exitSeen = true
	}
	if x.shm != nil {
		t := val.String(ev)
		if x.shmOff+len(t)+1 <= len(x.shm)-joeShmHeader {
			p := x.shm[joeShmHeader+x.shmOff:]
			n := 0
			if x.shmOff > 0 {
				p[0] = ' '
				n = 1
			}
			n += copy(p[n:], t)
			x.shmOff += n
			binary.LittleEndian.PutUint64(x.shm[8:16], uint64(x.shmOff))
		} else {
			x.shm = nil
		}
	}
	x.last = time.Now()
	x.cond.Broadcast()
	return seq
}

// rec logs a harness-generated event whose first argument is id.
func (x *jx) rec(code, id uint64, rest ...val.V) int {
	ev := val.List(append([]val.V{val.N(code), val.N(id)}, rest...))
	x.mu.Lock()
	seq := x.appendLocked(ev, code, id)
	x.mu.Unlock()
	return seq
}

func (x *jx) look(m map[any]uint64, k any) uint64 {
	if i, ok := m[k]; ok {
		return i
	}
	return jUnknown
}

// tokOfLocked identifies a message: by the token its data carries (read-only: safe from any goroutine),
// a message without data by its pointer, else by the ID the replayer gave it.  Caller holds x.mu.
func (x *jx) tokOfLocked(m *sse.Message) uint64 {
	if m == nil {
		return jNilTok
	}
	if c, _ := m.VerifChunks(); len(c) > 0 {
		return msgTok(m)
	}
	if p, ok := x.ptrTok[m]; ok {
		return p
	}
	if m.ID.IsSet() {
		if p, ok := x.idTok[m.ID.String()]; ok {
			return p
		}
	}
	return jUnknown
}

func (x *jx) tokOf(m *sse.Message) uint64 {
	x.mu.Lock()
	defer x.mu.Unlock()
	return x.tokOfLocked(m)
}

// noteMsg records that m stands for message p (needed for messages without a data token only).
func (x *jx) noteMsg(m *sse.Message, p uint64) {
	if m == nil {
		return
	}
	if c, _ := m.VerifChunks(); len(c) > 0 {
		return
	}
	x.mu.Lock()
	x.ptrTok[m] = p
	if m.ID.IsSet() {
		if _, dup := x.idTok[m.ID.String()]; !dup {
			x.idTok[m.ID.String()] = p
		}
	}
	x.mu.Unlock()
}

func jMkMsg(ms *jMsgSpec, p uint64) *sse.Message {
	if ms.shape == 0 {
		return mkMsg(ms.idopt, p)
	}
	m := &sse.Message{}
	if ms.idopt.Present() {
		m.ID = sse.ID(ms.idopt.At(0).Str())
	}
	return m
}

func jMsgID(m *sse.Message) val.V {
	if m == nil || !m.ID.IsSet() {
		return val.L()
	}
	return val.L(val.S(m.ID.String()))
}

// hook is installed with sse.VerifSetHook: identity translation and logging are one critical
// section, so the log order is the order in which the points were passed.
func (x *jx) hook(point string, a, b any) {
	code, ok := jPoint[point]
	if !ok {
		return
	}
	x.mu.Lock()
	id := uint64(jAny)
	var ev val.V
	switch {
	case code == 1:
		id = jUnknown
		topics, idopt := val.L(), val.L()
		if w, ok := b.(*jwriter); ok && w != nil {
			id = w.i
			topics, idopt = jNums(w.spec.topics), jIDOpt(w.spec.idopt)
		}
		x.subIdx[a] = id
		ev = val.L(val.N(1), val.N(id), topics, idopt)
	case code <= 8:
		id = x.look(x.subIdx, a)
		if code == 4 || code == 7 {
			ev = val.L(val.N(code), val.N(id), val.N(joeErrAny(b)))
		} else {
			ev = val.L(val.N(code), val.N(id))
		}
	case code == 11:
		m, _ := b.(*sse.Message)
		id = x.tokOfLocked(m)
		x.pubIdx[a] = id
		topics, thread := val.L(), uint64(jUnknown)
		if id < uint64(len(x.tokMsg)) {
			topics, thread = jNums(x.tokMsg[id].topics), x.tokThread[id]
		}
		ev = val.L(val.N(11), val.N(id), topics, jMsgID(m), val.N(thread))
	case code <= 14:
		id = x.look(x.pubIdx, a)
		ev = val.L(val.N(code), val.N(id))
	case code <= 21:
		id = x.look(x.shutIdx, a)
		ev = val.L(val.N(code), val.N(id))
	case code == 24 || code == 36 || code == 37:
		ev = val.L(val.N(code))
	case code == 25 || code == 27:
		id = x.look(x.pubIdx, a)
		ev = val.L(val.N(code), val.N(id))
	case code == 26:
		id = x.look(x.pubIdx, a)
		ev = val.L(val.N(code), val.N(id), val.N(joeErrAny(b)))
	case code == 28 || code == 32 || code == 33:
		id = x.look(x.subIdx, a)
		ev = val.L(val.N(code), val.N(id), val.N(joeErrAny(b)))
	default: // 29 30 31 34 35
		id = x.look(x.subIdx, a)
		ev = val.L(val.N(code), val.N(id))
	}
	seq := x.appendLocked(ev, code, id)
	x.mu.Unlock()
	x.after(code, id, seq)
}

func jMix(a, b uint64) uint64 {
	z := a ^ (b+1)*0x9E3779B97F4A7C15
	z = (z ^ (z >> 30)) * 0xBF58476D1CE4E5B9
	z = (z ^ (z >> 27)) * 0x94D049BB133111EB
	return z ^ (z >> 31)
}

// after runs in the goroutine that just logged event seq (outside the log mutex): directed
// parking, then the seeded perturbation.  The random choices are a pure function of
// (scenario seed, event number), hence goroutine-safe.
func (x *jx) after(code, id uint64, seq int) {
	if ps := x.parksBy[code]; ps != nil {
		for _, p := range ps {
			if p.id != jAny && p.id != id {
				continue
			}
			x.mu.Lock()
			p.hits++
			hit := p.nth == 0 || p.hits == p.nth
			x.mu.Unlock()
			if hit {
				x.waitStages(p.stages, time.Duration(p.timeoutUs)*time.Microsecond, false)
			}
		}
	}
	r := jMix(x.sc.seed, uint64(seq))
	switch x.sc.policy {
	case 1: // light
		switch r % 8 {
		case 0, 1:
			runtime.Gosched()
		case 2:
			time.Sleep(time.Duration(1+(r>>8)%20) * time.Microsecond)
		}
	case 2: // heavy
		switch r % 4 {
		case 0:
			runtime.Gosched()
		case 1:
			for k := uint64(0); k <= (r>>8)%3; k++ {
				runtime.Gosched()
			}
		case 2:
			time.Sleep(time.Duration(1+(r>>8)%100) * time.Microsecond)
		}
	case 3: // PCT-like: a fixed priority per actor, lowered at a few change points
		var actor uint64
		switch {
		case code <= 10:
			actor = 1000 + id
		case code <= 15:
			actor = 2000
			if id < uint64(len(x.tokThread)) {
				actor += x.tokThread[id]
			}
		case code <= 23:
			actor = 3000 + id
		default:
			actor = 1
		}
		prio := jMix(x.sc.seed^0x5bd1e995, actor) % 5
		for k := uint64(0); k < prio; k++ {
			runtime.Gosched()
		}
		if r%19 == 0 {
			time.Sleep(time.Duration(5+(r>>8)%60) * time.Microsecond)
		}
	}
}

func (x *jx) stageCount(st jStage) uint64 { return x.counts[[2]uint64{st.code, st.id}] }

// waitStages waits for the stages one after the other.  A park (ctl=false) ends early only by
// its timeout.  A controller (ctl=true) also stops waiting when nothing was logged for jQuiet
// (2 ms once Joe is shut down): what it waits for can no longer happen.
func (x *jx) waitStages(c jCond, timeout time.Duration, ctl bool) bool {
	if len(c) == 0 {
		return true
	}
	hard := time.Now().Add(timeout)
	x.mu.Lock()
	defer x.mu.Unlock()
	for _, st := range c {
		var base uint64
		if st.rel {
			base = x.stageCount(st)
		}
		for {
			if st.code == 0 {
				if x.pending == 0 {
					break
				}
				x.cond.Wait() // the final Shutdown: no giving up
				continue
			}
			if st.code != jNever && x.stageCount(st)-base >= st.count {
				break
			}
			now := time.Now()
			wake := hard
			if ctl {
				quiet := jQuiet
				if x.shutSeen {
					quiet = 2 * time.Millisecond
				}
				if q := x.last.Add(quiet); q.Before(wake) {
					wake = q
				}
			}
			if !now.Before(wake) {
				return false
			}
			t := time.AfterFunc(wake.Sub(now), x.wakeFn)
			x.cond.Wait()
			t.Stop()
		}
	}
	return true
}

func (x *jx) callStart() {
	x.mu.Lock()
	x.calls++
	x.mu.Unlock()
}
func (x *jx) callEnd() {
	x.mu.Lock()
	x.calls--
	x.cond.Broadcast()
	x.mu.Unlock()
}
func (x *jx) ctlEnd(counted bool) {
	x.mu.Lock()
	x.ctlLeft--
	if counted {
		x.pending--
	}
	x.cond.Broadcast()
	x.mu.Unlock()
}

func jIsFinal(c jCond) bool {
	for _, s := range c {
		if s.code == 0 {
			return true
		}
	}
	return false
}

// ---- the writer of a subscriber --------------------------------------------------------------

type jwriter struct {
	x      *jx
	i      uint64
	spec   *jSubSpec
	n      int
	cancel context.CancelFunc
}

func (w *jwriter) verdict() uint64 {
	v := uint64(0)
	if w.n < len(w.spec.script) {
		v = w.spec.script[w.n]
	}
	w.n++
	if v < 100 {
		return 0
	}
	return v
}

func (w *jwriter) finish(code uint64, seq int, v uint64) error {
	if v != 0 && w.spec.selfCancel {
		// as net/http does on a write error: the request context ends inside the failing call
		w.x.rec(10, w.i)
		w.cancel()
	}
	w.x.after(code, w.i, seq)
	if v != 0 {
		return codeErr{v}
	}
	return nil
}

func (w *jwriter) Send(m *sse.Message) error {
	tok := w.x.tokOf(m)
	v := w.verdict()
	seq := w.x.rec(38, w.i, val.N(tok), jMsgID(m), val.N(v))
	return w.finish(38, seq, v)
}

func (w *jwriter) Flush() error {
	v := w.verdict()
	seq := w.x.rec(39, w.i, val.N(v))
	return w.finish(39, seq, v)
}

// ---- the recording replayer wrapper -----------------------------------------------------------

type jrep struct {
	x          *jx
	inner      sse.Replayer
	nput, nrep int
	accepted   int
}

func jScriptAt(s []uint64, k int) uint64 {
	if k < len(s) {
		if v := s[k]; v == 98 || v >= 100 {
			return v
		}
	}
	return 0
}

// scriptedPanic panics with a string, with an error value, or through a runtime error (all are replayer panics to Joe).
func scriptedPanic(k int, what string) {
	switch k % 3 {
	case 0:
		panic("scripted " + what + " panic")
	case 1:
		panic(fmt.Errorf("scripted %s panic carrying an error value", what))
	default:
		var m map[string]int
		m[what] = 1 // assignment to entry in nil map: a runtime.Error
	}
}

func (r *jrep) Put(m *sse.Message, topics []string) (out *sse.Message, err error) {
	p := r.x.tokOf(m)
	v := jScriptAt(r.x.sc.putScript, r.nput)
	r.nput++
	defer func() {
		if rc := recover(); rc != nil {
			seq := r.x.rec(40, p, val.N(98), val.L())
			r.x.after(40, p, seq)
			panic(rc)
		}
	}()
	switch {
	case v == 98:
		scriptedPanic(r.nput+len(r.x.sc.subs), "Put")
	case v >= 100:
		out, err = nil, codeErr{v}
	case r.inner == nil:
		out = m
	default:
		out, err = r.inner.Put(m, topics)
		if err == nil {
			r.accepted++
			r.x.noteMsg(out, p)
			if m, k := int(r.x.sc.cap)/100, int(r.x.sc.cap)%100; r.x.sc.kind == 3 {
				switch r.accepted {
				case m:
					r.x.clockJump.Store(600)
				case m + k:
					r.x.clockJump.Store(1100) // the first m accepted events are expired from now on, the next k are not
					if vr, ok := r.inner.(*sse.ValidReplayer); ok && r.x.sc.gc != 0 {
						vr.GC() // the application's own collection (documented use); the logical content is unchanged
					}
				}
			}
		}
	}
	seq := r.x.rec(40, p, val.N(joeErrCode(err)), jMsgID(out))
	r.x.after(40, p, seq)
	return out, err
}

func (r *jrep) Replay(sub sse.Subscription) error {
	i := uint64(jUnknown)
	if w, ok := sub.Client.(*jwriter); ok && w != nil {
		i = w.i
	}
	v := jScriptAt(r.x.sc.repScript, r.nrep)
	r.nrep++
	seq := r.x.rec(41, i)
	r.x.after(41, i, seq)
	switch {
	case v == 98:
		scriptedPanic(r.nrep+len(r.x.sc.pubs), "Replay")
	case v >= 100:
		return codeErr{v}
	case r.inner == nil:
		return nil
	}
	return r.inner.Replay(sub)
}

// ---- running a scenario ------------------------------------------------------------------------

func joeRunScenario(v val.V, seq uint64, shm []byte) (status uint64, events []val.V) {
	sc := jDecode(v)
	x := &jx{sc: sc, counts: map[[2]uint64]uint64{}, shm: shm, last: time.Now(),
		subIdx: map[any]uint64{}, pubIdx: map[any]uint64{}, shutIdx: map[any]uint64{},
		ptrTok: map[*sse.Message]uint64{}, idTok: map[string]uint64{},
		parksBy: map[uint64][]*jParkSpec{}}
	x.cond = sync.NewCond(&x.mu)
	x.wakeFn = func() {
		x.mu.Lock()
		x.cond.Broadcast()
		x.mu.Unlock()
	}
	if shm != nil {
		binary.LittleEndian.PutUint64(shm[8:16], 0)
		binary.LittleEndian.PutUint64(shm[0:8], seq)
	}
	for _, p := range sc.parks {
		x.parksBy[p.point] = append(x.parksBy[p.point], p)
	}
	for t := range sc.pubs {
		for k := range sc.pubs[t].msgs {
			x.tokThread = append(x.tokThread, uint64(t))
			x.tokMsg = append(x.tokMsg, &sc.pubs[t].msgs[k])
		}
	}
	if sc.procs >= 1 && sc.procs <= 64 {
		runtime.GOMAXPROCS(int(sc.procs))
	}

	var inner sse.Replayer
	switch sc.kind {
	case 1:
		if r, err := sse.NewFiniteReplayer(int(sc.cap), sc.auto != 0); err == nil {
			inner = r
		}
	case 2:
		if r, err := sse.NewValidReplayer(time.Hour, sc.auto != 0); err == nil {
			inner = r
		}
	case 3:
		if r, err := sse.NewValidReplayer(1000*time.Second, sc.auto != 0); err == nil {
			start := time.Now()
			r.Now = func() time.Time { return start.Add(time.Duration(x.clockJump.Load()) * time.Second) }
			inner = r
		}
	}
	x.joe = &sse.Joe{Replayer: &jrep{x: x, inner: inner}}

	sse.VerifSetHook(x.hook)
	defer sse.VerifSetHook(nil)

	// controllers
	nctl := len(sc.subs) + len(sc.pubs) + len(sc.shuts)
	x.ctlLeft = nctl
	for _, h := range sc.shuts {
		if !jIsFinal(h.start) {
			x.pending++
		}
	}
	x.pending += len(sc.subs) + len(sc.pubs)

	for i := range sc.subs {
		spec := &sc.subs[i]
		w := &jwriter{x: x, i: uint64(i), spec: spec}
		x.writers = append(x.writers, w)
		ctx, cancel := context.WithCancel(context.Background())
		w.cancel = cancel
		go func() {
			defer x.ctlEnd(true)
			x.waitStages(spec.start, jHard, true)
			if spec.hasCancel && len(spec.cancel) == 0 {
				x.rec(10, w.i)
				cancel()
			}
			x.callStart()
			go func() {
				err := x.joe.Subscribe(ctx, sse.Subscription{Client: w, LastEventID: lastID(spec.idopt), Topics: jTopicNames(spec.topics)})
				x.rec(9, w.i, val.N(joeErrCode(err)))
				x.callEnd()
			}()
			if spec.hasCancel && len(spec.cancel) > 0 {
				x.waitStages(spec.cancel, jHard, true)
				x.rec(10, w.i)
				cancel()
			}
		}()
	}
	tok := uint64(0)
	for t := range sc.pubs {
		pt := &sc.pubs[t]
		base := tok
		tok += uint64(len(pt.msgs))
		go func() {
			defer x.ctlEnd(true)
			x.waitStages(pt.start, jHard, true)
			for k := range pt.msgs {
				ms := &pt.msgs[k]
				p := base + uint64(k)
				x.waitStages(ms.pre, jHard, true)
				m := jMkMsg(ms, p)
				x.noteMsg(m, p)
				x.callStart()
				err := x.joe.Publish(m, jTopicNames(ms.topics))
				x.rec(15, p, val.N(joeErrCode(err)))
				x.callEnd()
			}
		}()
	}
	for h := range sc.shuts {
		spec := &sc.shuts[h]
		hi := uint64(h)
		ctx, cancel := context.WithCancel(context.Background())
		x.mu.Lock()
		x.shutIdx[ctx] = hi
		x.mu.Unlock()
		counted := !jIsFinal(spec.start)
		go func() {
			defer x.ctlEnd(counted)
			x.waitStages(spec.start, jHard, true)
			if spec.hasCancel && len(spec.cancel) == 0 {
				x.rec(23, hi)
				cancel()
			}
			x.callStart()
			go func() {
				err := x.joe.Shutdown(ctx)
				x.rec(22, hi, val.N(joeErrCode(err)))
				x.callEnd()
			}()
			if spec.hasCancel && len(spec.cancel) > 0 {
				x.waitStages(spec.cancel, jHard, true)
				x.rec(23, hi)
				cancel()
			}
		}()
	}

	// the end: every controller finished, every started call returned, the loop exited
	deadline := time.Now().Add(joeDeadline())
	x.mu.Lock()
	for !(x.ctlLeft == 0 && x.calls == 0 && x.exitSeen) {
		now := time.Now()
		if !now.Before(deadline) {
			status = 2
			break
		}
		t := time.AfterFunc(deadline.Sub(now), x.wakeFn)
		x.cond.Wait()
		t.Stop()
	}
	events = append([]val.V{}, x.evs...)
	x.shm = nil
	x.mu.Unlock()
	return status, events
}
