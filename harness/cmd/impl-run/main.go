// impl-run runs the implementation (built from /repo's working tree with -tags
// verif) on cases of one family and writes "input<TAB>observed" lines.  A
// family is a generator of inputs plus an executor input -> observed; replay
// mode runs the executor on given inputs.
package main

import (
	"bufio"
	"encoding/json"
	"flag"
	"fmt"
	"os"
	"sort"

	"verifharness/rng"
	"verifharness/val"
)

// Ctx is what a family generator gets.
type Ctx struct {
	R        *rng.R
	Thorough bool
	Dist     map[string]int // input distribution counters
	emit     func(val.V)
}

// Emit hands one generated input to the executor.
func (c *Ctx) Emit(input val.V) { c.emit(input) }

// Count increments an input-distribution counter.
func (c *Ctx) Count(key string) { c.Dist[key]++ }

type family struct {
	gen  func(c *Ctx)
	exec func(input val.V) val.V
	// post (optional) rewrites the line to be written: families whose observation is folded into
	// the model's input (e.g. an observed trace that the model checks for inclusion).
	post func(input, obs val.V) (val.V, val.V)
}

var families = map[string]family{}

func main() {
	seed := flag.Uint64("seed", 1, "seed")
	tier := flag.String("tier", "quick", "quick|thorough")
	out := flag.String("out", "", "output file")
	stats := flag.String("stats", "", "stats json file")
	replay := flag.String("replay", "", "file of inputs (one val per line; anything after a TAB is ignored) to run instead of generating")
	flag.Parse()
	if flag.NArg() != 1 {
		fmt.Fprintln(os.Stderr, "usage: impl-run [flags] <family>")
		os.Exit(2)
	}
	fam, ok := families[flag.Arg(0)]
	if !ok {
		names := []string{}
		for k := range families {
			names = append(names, k)
		}
		sort.Strings(names)
		fmt.Fprintln(os.Stderr, "unknown family; known:", names)
		os.Exit(2)
	}
	f := os.Stdout
	if *out != "" {
		var err error
		f, err = os.Create(*out)
		if err != nil {
			panic(err)
		}
		defer f.Close()
	}
	w := bufio.NewWriterSize(f, 1<<20)
	defer w.Flush()
	n := 0
	run := func(input val.V) {
		obs := fam.exec(input)
		if fam.post != nil {
			input, obs = fam.post(input, obs)
		}
		w.WriteString(val.String(input))
		w.WriteByte('\t')
		w.WriteString(val.String(obs))
		w.WriteByte('\n')
		n++
	}
	c := &Ctx{R: rng.New(*seed), Thorough: *tier == "thorough", Dist: map[string]int{}, emit: run}
	if *replay != "" {
		rf, err := os.Open(*replay)
		if err != nil {
			panic(err)
		}
		sc := bufio.NewScanner(rf)
		sc.Buffer(make([]byte, 1<<20), 1<<28)
		for sc.Scan() {
			line := sc.Text()
			for i := 0; i < len(line); i++ {
				if line[i] == '\t' {
					line = line[:i]
					break
				}
			}
			if line == "" || line[0] == '#' {
				continue
			}
			v, err := val.Parse(line)
			if err != nil {
				fmt.Fprintln(os.Stderr, "bad replay line:", err)
				os.Exit(2)
			}
			run(v)
		}
		rf.Close()
	} else {
		fam.gen(c)
	}
	if *stats != "" {
		b, _ := json.Marshal(map[string]any{"cases": n, "distribution": c.Dist})
		os.WriteFile(*stats, b, 0o644)
	}
}
