package main

import (
	"bytes"
	"context"
	"errors"
	"fmt"
	"io"
	"net"
	"os"
	"strings"
	"syscall"
	"time"

	sse "github.com/tmaxmax/go-sse"

	"verifharness/rng"
	"verifharness/val"
)

// Family "message" (C02 C15 C19, C14's Message.UnmarshalText route): operation sequences on a
// family of messages (append, set fields, clone, WriteTo on a failing writer, text round trip,
// UnmarshalText of arbitrary text); observed after every operation: the result and the
// encoding of EVERY member of the family.

func init() { families["message"] = family{gen: genMessage, exec: execMessage} }

type faultWriter struct {
	script   []val.V
	acc      []byte
	last     error // the value the writer returned last, to recognise it by identity
	lastCode uint64
	firstErr uint64 // the code of the first error returned (0: none yet)
	after    int    // calls made after it
}

// faultErr builds the error of a scripted fault.  Codes below 100 are the harness's own opaque value; from 100 on
// the value IS or wraps a sentinel that writers really return and that code inspecting errors may give a meaning to.
// An encoder owes all of them the same treatment: the first error ends the write and is returned as it is.
func faultErr(code uint64) error {
	switch code {
	case 100:
		return io.ErrShortWrite
	case 101:
		return fmt.Errorf("sink: %w", io.ErrShortWrite)
	case 102:
		return io.EOF
	case 103:
		return io.ErrUnexpectedEOF
	case 104:
		return io.ErrClosedPipe
	case 105:
		return context.Canceled
	case 106:
		return os.ErrDeadlineExceeded
	case 107:
		return net.ErrClosed
	case 108:
		return &net.OpError{Op: "write", Net: "tcp", Err: syscall.EPIPE}
	case 109:
		return context.DeadlineExceeded
	}
	return codeErr{code}
}

// faultCode projects what WriteTo returned: the injected value itself (by identity) gives its code.
func (w *faultWriter) code(err error) uint64 {
	if err != nil && w.last != nil && err == w.last {
		var ce codeErr
		if errors.As(err, &ce) {
			return ce.code
		}
		return w.lastCode
	}
	return errCode(err)
}

// byteFaultWriter additionally offers WriteByte and WriteString (like *bufio.Writer, *bytes.Buffer): an encoder that
// takes such a shortcut must account for its bytes exactly as for Write.
type byteFaultWriter struct{ *faultWriter }

func (w byteFaultWriter) WriteByte(c byte) error {
	_, err := w.faultWriter.Write([]byte{c})
	return err
}
func (w byteFaultWriter) WriteString(s string) (int, error) { return w.faultWriter.Write([]byte(s)) }

func (w *faultWriter) Write(p []byte) (int, error) {
	if w.firstErr != 0 {
		w.after++
	}
	if len(w.script) == 0 {
		w.acc = append(w.acc, p...)
		return len(p), nil
	}
	v := w.script[0]
	w.script = w.script[1:]
	if v.Len() == 2 {
		k := v.At(0).Int()
		if k > len(p) {
			k = len(p)
		}
		w.acc = append(w.acc, p[:k]...)
		w.last, w.lastCode = faultErr(v.At(1).Num()), v.At(1).Num()
		if w.firstErr == 0 {
			w.firstErr = w.lastCode
		}
		return k, w.last
	}
	w.acc = append(w.acc, p...)
	return len(p), nil
}

// messages encoded between a MarshalText call and the moment its result is read: shorter, as long, longer
var wireNeighbours = func() []*sse.Message {
	var ms []*sse.Message
	for _, n := range []int{0, 1, 7, 64, 700, 5000} {
		m := &sse.Message{ID: sse.ID("neighbour"), Type: sse.Type("n")}
		m.AppendData(strings.Repeat("N", n))
		m.AppendComment("c")
		ms = append(ms, m)
	}
	return ms
}()

// encoding of a message through all three routes; a disagreement is reported as a marker
func wireOf(m *sse.Message) (out val.V) {
	defer func() {
		if r := recover(); r != nil {
			out = val.S("panic")
		}
	}()
	s := m.String()
	b, err := m.MarshalText()
	// the caller keeps what MarshalText returned while other messages (and this one) are encoded through every
	// route: the bytes it holds are its own and must not change
	for _, other := range wireNeighbours {
		ob, _ := other.MarshalText()
		_ = other.String()
		_, _ = other.WriteTo(io.Discard)
		_ = append(ob[:len(ob):cap(ob)], "tail"...)
	}
	_, _ = m.MarshalText()
	var buf bytes.Buffer
	n, err2 := m.WriteTo(&buf)
	if err != nil || err2 != nil || string(b) != s || buf.String() != s || int(n) != len(s) {
		return val.S("WriteTo/MarshalText/String disagree")
	}
	return val.S(s)
}

func unmarshalObserved(m *sse.Message, err error) val.V {
	if err == nil {
		return val.L(val.N(0))
	}
	var ue *sse.UnmarshalError
	if errors.As(err, &ue) {
		if ue.FieldName == "retry" {
			return val.L(val.N(1), val.S(ue.FieldValue))
		}
		if errors.Is(err, sse.ErrUnexpectedEOF) {
			return val.L(val.N(2))
		}
	}
	return val.L(val.N(99))
}

func execMessage(in val.V) val.V {
	fam := []*sse.Message{{}}
	outs := []val.V{}
	for _, op := range in.Items() {
		op := op
		res := guard(func() val.V {
			t := op.At(1).Int()
			var m *sse.Message
			if t < len(fam) {
				m = fam[t]
			} else {
				m = &sse.Message{}
			}
			switch op.At(0).Num() {
			case 0:
				if op.At(2).Truth() {
					m.AppendComment(op.At(3).Strs()...)
				} else {
					m.AppendData(op.At(3).Strs()...)
				}
				return val.L()
			case 1:
				id, err := sse.NewID(op.At(2).Str())
				if err != nil {
					return val.L(val.N(1))
				}
				m.ID = id
				return val.L(val.N(0))
			case 2:
				ty, err := sse.NewType(op.At(2).Str())
				if err != nil {
					return val.L(val.N(1))
				}
				m.Type = ty
				return val.L(val.N(0))
			case 3:
				m.Retry = time.Duration(op.At(2).Signed())
				return val.L()
			case 4:
				fam = append(fam, m.Clone())
				return val.L()
			case 5:
				w := &faultWriter{script: op.At(2).Items()}
				var dst io.Writer = w
				if len(val.String(op))%2 == 0 {
					dst = byteFaultWriter{w} // a deterministic half of the cases: a writer with WriteByte/WriteString
				}
				n, err := m.WriteTo(dst)
				return val.L(val.N(uint64(n)), val.N(w.code(err)), val.B(w.acc), val.L(val.N(w.firstErr), val.Int(w.after)))
			case 6:
				b, _ := m.MarshalText()
				nm := &sse.Message{}
				nm.AppendData("stale") // UnmarshalText must overwrite previous contents
				err := nm.UnmarshalText(b)
				if err == nil {
					fam = append(fam, nm)
				}
				return unmarshalObserved(nm, err)
			case 7:
				buf := append([]byte(nil), op.At(1).Bytes()...)
				nm := &sse.Message{}
				err := nm.UnmarshalText(buf)
				// the caller may reuse its buffer: the message must not alias it
				for i := range buf {
					buf[i] = '\n'
				}
				if err == nil {
					fam = append(fam, nm)
					return val.L(val.N(0), val.Bool(nm.ID.IsSet()), val.S(nm.ID.String()), val.Bool(nm.Type.IsSet()), val.S(nm.Type.String()))
				}
				return unmarshalObserved(nm, err)
			case 8:
				m.ID = sse.EventID{}
				return val.L()
			default:
				m.Type = sse.EventType{}
				return val.L()
			}
		})
		wires := make([]val.V, len(fam))
		for i, m := range fam {
			wires[i] = wireOf(m)
		}
		outs = append(outs, val.L(res, val.List(wires)))
	}
	return val.List(outs)
}

var textPieces = []string{"message", "Message", "open", "error", "*", "\x0b", "\x0c", "\x1e", "\u0085", "\u2028", "\t", "a", "bc", "", " ", ":", "\n", "\r", "\r\n", "\n\n", "\r\r\n", "id: x", "data: y", "event: z", "retry: 5", "\x00", "\xef\xbb\xbf", "é", "\xff", ": c", "data", "  x"}

func genText(r *rng.R) string {
	n := r.Intn(6)
	s := ""
	for i := 0; i < n; i++ {
		s += rng.Pick(r, textPieces)
	}
	return s
}

var retryValues = []int64{0, -1, -1_000_000, 999_999, 1_000_000, 1_000_001, 1_999_999, 7_000_000, 1_000_000_000, 10_000_000_000_000, 999_999_999_999 * 1_000_000, 1_000_000_000_000 * 1_000_000, 9223372036854775807, -9223372036854775808, 86_400_000_000_000}

func genMessageOp(r *rng.R, famSize *int, wireLenHint int) val.V {
	t := r.Intn(*famSize)
	switch x := r.Intn(100); {
	case x < 30:
		n := 1 + r.Intn(3)
		strs := make([]val.V, n)
		for i := range strs {
			strs[i] = val.S(genText(r))
		}
		return val.L(val.N(0), val.Int(t), val.Bool(r.Intn(4) == 0), val.List(strs))
	case x < 38:
		return val.L(val.N(1), val.Int(t), val.S(genText(r)))
	case x < 46:
		return val.L(val.N(2), val.Int(t), val.S(genText(r)))
	case x < 54:
		return val.L(val.N(3), val.Int(t), val.Z(retryValues[r.Intn(len(retryValues))]))
	case x < 66:
		if *famSize < 6 {
			*famSize++
			return val.L(val.N(4), val.Int(t))
		}
		return val.L(val.N(8), val.Int(t))
	case x < 82:
		// fail at a random Write call, accepting a random part of it
		ncalls := r.Intn(12)
		script := make([]val.V, ncalls+1)
		for i := 0; i < ncalls; i++ {
			script[i] = val.L()
		}
		code := uint64(1 + r.Intn(9))
		if r.Intn(3) == 0 {
			code = uint64(100 + r.Intn(10)) // an error character (see faultErr)
		}
		script[ncalls] = val.L(val.Int(r.Intn(8)), val.N(code))
		if r.Intn(5) == 0 {
			script = script[:ncalls]
		}
		return val.L(val.N(5), val.Int(t), val.List(script))
	case x < 92:
		return val.L(val.N(6), val.Int(t)) // may add a member; handled by exec/model alike
	case x < 96:
		return val.L(val.N(8+uint64(r.Intn(2))), val.Int(t))
	default:
		return val.L(val.N(7), val.S(genWire(r)))
	}
}

// lines beyond 64 bytes (where byte loops give way to vectorised searches), after short lines ended each way
var longX, longC = strings.Repeat("x", 80), strings.Repeat("c", 300)

var wirePieces = []string{"id: a\r", "event: b\r\n", "id: i\r\n", "data: " + longX + "\n", ": " + longC + "\r\n", "data: " + longX + "\r", "data: a\n", "data:b\n", "data\n", "id: 1\n", "id\n", "id: a\x00b\n", "event: e\n", "retry: 12\n", "retry: \n", "retry: 1x\n", "retry: 99999999999999999999\n", "retry: 9223372036854775807\n", ": c\n", ":\n", "\n", "\r", "\r\n", "x: y\n", "data: tail", "\xef\xbb\xbf", "datax: 1\n", " data: 1\n", "data: é\r"}

func genWire(r *rng.R) string {
	n := r.Intn(7)
	s := ""
	for i := 0; i < n; i++ {
		s += rng.Pick(r, wirePieces)
	}
	return s
}

func genMessage(c *Ctx) {
	// exhaustive: for small messages, WriteTo failing / short-writing at every call index and every accepted length
	base := [][]val.V{
		{val.L(val.N(0), val.N(0), val.N(0), val.L(val.S("ab\ncd")))},
		{val.L(val.N(1), val.N(0), val.S("i1")), val.L(val.N(2), val.N(0), val.S("t")), val.L(val.N(3), val.N(0), val.Z(1_500_000_000)), val.L(val.N(0), val.N(0), val.N(1), val.L(val.S("c"))), val.L(val.N(0), val.N(0), val.N(0), val.L(val.S("x"), val.S("")))},
		{val.L(val.N(1), val.N(0), val.S(""))},
		{val.L(val.N(3), val.N(0), val.Z(9223372036854775807))},
		{},
	}
	for _, b := range base {
		for call := 0; call < 20; call++ {
			for k := 0; k <= 7; k++ {
				script := make([]val.V, call+1)
				for i := 0; i < call; i++ {
					script[i] = val.L()
				}
				script[call] = val.L(val.Int(k), val.N(3))
				ops := append(append([]val.V{}, b...), val.L(val.N(5), val.N(0), val.List(script)), val.L(val.N(6), val.N(0)))
				c.Count("exhaustive-write-faults")
				c.Emit(val.List(ops))
			}
		}
	}
	// every error character at every call index of a message with every kind of line, part of the call accepted
	for code := uint64(100); code < 110; code++ {
		for call := 0; call < 14; call++ {
			for _, k := range []int{0, 1, 3} {
				script := make([]val.V, call+1)
				for i := 0; i < call; i++ {
					script[i] = val.L()
				}
				script[call] = val.L(val.Int(k), val.N(code))
				ops := append(append([]val.V{}, base[1]...), val.L(val.N(5), val.N(0), val.List(script)), val.L(val.N(6), val.N(0)))
				c.Count("write-fault-characters")
				c.Emit(val.List(ops))
			}
		}
	}
	// UnmarshalText of three lines ended each way (LF, CR, CRLF), the last one short, beyond 64 and beyond 256 bytes
	for _, t1 := range []string{"\n", "\r", "\r\n"} {
		for _, t2 := range []string{"\n", "\r", "\r\n"} {
			for _, t3 := range []string{"\n", "\r", "\r\n"} {
				for _, n := range []int{4, 80, 300} {
					for _, first := range []string{"id: a", "event: b", "data: d", ": c"} {
						text := first + t1 + "event: e" + t2 + "data: " + strings.Repeat("x", n) + t3 + "\n"
						c.Count("directed:mixed-line-ends-long-input")
						c.Emit(val.L(val.L(val.N(7), val.S(text))))
					}
				}
			}
		}
	}
	// exhaustive: clone taken at every position of every append history up to length 6 (appends to original / clone)
	maxH := 5
	if c.Thorough {
		maxH = 7
	}
	for h := 1; h <= maxH; h++ {
		for mask := 0; mask < 1<<h; mask++ { // bit i: i-th append goes to the clone (if it exists) else to the original
			for clonePos := 0; clonePos <= h; clonePos++ {
				ops := []val.V{}
				for i := 0; i < h; i++ {
					if i == clonePos {
						ops = append(ops, val.L(val.N(4), val.N(0)))
					}
					target := 0
					if mask&(1<<i) != 0 && i >= clonePos {
						target = 1
					}
					ops = append(ops, val.L(val.N(0), val.Int(target), val.N(0), val.L(val.S(string(rune('a'+i))))))
				}
				if clonePos == h {
					ops = append(ops, val.L(val.N(4), val.N(0)))
				}
				c.Count("exhaustive-clone-histories")
				c.Emit(val.List(ops))
			}
		}
	}
	n, maxOps := 6000, 14
	if c.Thorough {
		n, maxOps = 120000, 30
	}
	for i := 0; i < n; i++ {
		fam := 1
		l := 1 + c.R.Intn(maxOps)
		ops := make([]val.V, 0, l)
		for j := 0; j < l; j++ {
			op := genMessageOp(c.R, &fam, 0)
			if op.At(0).Num() == 6 || op.At(0).Num() == 7 {
				// the family may grow when the round trip succeeds; keep targets conservative
				ops = append(ops, op)
				continue
			}
			ops = append(ops, op)
		}
		c.Count("random")
		c.Emit(val.List(ops))
	}
}
