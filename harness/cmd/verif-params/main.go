// verif-params re-reads from /repo's working tree (and GOROOT/src/bufio) the
// constants and literal tables the Coq models are stated over and regenerates
// coq/gen/Params.v.  Every theorem mentions these definitions, so a changed
// constant makes Coq re-check the proofs against what the code says now.
package main

import (
	"encoding/json"
	"flag"
	"fmt"
	"go/ast"
	"go/parser"
	"go/token"
	"math/big"
	"os"
	"path/filepath"
	"runtime"
	"sort"
	"strconv"
	"strings"
)

type param struct {
	Name   string `json:"name"`
	Coq    string `json:"coq"`    // Coq term
	Type   string `json:"type"`   // Coq type
	Source string `json:"source"` // where it was read
	OK     bool   `json:"rederived"`
	Note   string `json:"note,omitempty"`
}

var (
	fset   = token.NewFileSet()
	files  = map[string]*ast.File{}
	params []param
)

func load(path string) *ast.File {
	if f, ok := files[path]; ok {
		return f
	}
	f, err := parser.ParseFile(fset, path, nil, 0)
	if err != nil {
		f = nil
	}
	files[path] = f
	return f
}

func bytesTerm(s string) string {
	parts := make([]string, len(s))
	for i := 0; i < len(s); i++ {
		parts[i] = strconv.Itoa(int(s[i]))
	}
	return "[" + strings.Join(parts, "; ") + "]%N"
}

func add(name, typ, term, src string, ok bool, note string) {
	params = append(params, param{Name: name, Coq: term, Type: typ, Source: src, OK: ok, Note: note})
}

// evalString evaluates string-valued constant expressions: literals, FieldName("x"), a + b, idents of known consts.
func evalString(e ast.Expr, env map[string]string) (string, bool) {
	switch v := e.(type) {
	case *ast.BasicLit:
		if v.Kind == token.STRING {
			s, err := strconv.Unquote(v.Value)
			return s, err == nil
		}
		if v.Kind == token.CHAR {
			s, err := strconv.Unquote(v.Value)
			return s, err == nil
		}
	case *ast.CallExpr: // conversion T("x") or []byte(x)
		if len(v.Args) == 1 {
			return evalString(v.Args[0], env)
		}
	case *ast.BinaryExpr:
		if v.Op == token.ADD {
			a, ok1 := evalString(v.X, env)
			b, ok2 := evalString(v.Y, env)
			return a + b, ok1 && ok2
		}
	case *ast.Ident:
		s, ok := env[v.Name]
		return s, ok
	case *ast.SelectorExpr:
		s, ok := env[v.Sel.Name]
		return s, ok
	case *ast.ParenExpr:
		return evalString(v.X, env)
	case *ast.CompositeLit: // []byte{'\n'}
		out := ""
		for _, el := range v.Elts {
			s, ok := evalString(el, env)
			if !ok {
				return "", false
			}
			out += s
		}
		return out, true
	}
	return "", false
}

func evalInt(e ast.Expr) (*big.Int, bool) {
	switch v := e.(type) {
	case *ast.BasicLit:
		if v.Kind == token.INT {
			n, ok := new(big.Int).SetString(strings.ReplaceAll(v.Value, "_", ""), 0)
			return n, ok
		}
	case *ast.BinaryExpr:
		a, ok1 := evalInt(v.X)
		b, ok2 := evalInt(v.Y)
		if ok1 && ok2 {
			switch v.Op {
			case token.MUL:
				return new(big.Int).Mul(a, b), true
			case token.ADD:
				return new(big.Int).Add(a, b), true
			case token.SUB:
				return new(big.Int).Sub(a, b), true
			}
		}
	case *ast.ParenExpr:
		return evalInt(v.X)
	case *ast.SelectorExpr: // time.Millisecond etc.
		if id, ok := v.X.(*ast.Ident); ok && id.Name == "time" {
			switch v.Sel.Name {
			case "Nanosecond":
				return big.NewInt(1), true
			case "Microsecond":
				return big.NewInt(1000), true
			case "Millisecond":
				return big.NewInt(1000000), true
			case "Second":
				return big.NewInt(1000000000), true
			}
		}
	}
	return nil, false
}

// topConsts collects top-level and function-level string constants/vars of a file.
func stringEnv(f *ast.File, env map[string]string) {
	if f == nil {
		return
	}
	for pass := 0; pass < 3; pass++ {
		ast.Inspect(f, func(n ast.Node) bool {
			if vs, ok := n.(*ast.ValueSpec); ok {
				for i, name := range vs.Names {
					if i < len(vs.Values) {
						if s, ok := evalString(vs.Values[i], env); ok {
							env[name.Name] = s
						}
					}
				}
			}
			return true
		})
	}
}

func intConst(f *ast.File, name string) (*big.Int, bool) {
	if f == nil {
		return nil, false
	}
	var out *big.Int
	ast.Inspect(f, func(n ast.Node) bool {
		if vs, ok := n.(*ast.ValueSpec); ok {
			for i, nm := range vs.Names {
				if nm.Name == name && i < len(vs.Values) {
					if v, ok := evalInt(vs.Values[i]); ok {
						out = v
					}
				}
			}
		}
		return true
	})
	return out, out != nil
}

func funcDecl(f *ast.File, name string) *ast.FuncDecl {
	if f == nil {
		return nil
	}
	for _, d := range f.Decls {
		if fd, ok := d.(*ast.FuncDecl); ok && fd.Name.Name == name {
			return fd
		}
	}
	return nil
}

// intsIn returns all integer literals (in source order) inside a function that satisfy pred on their parent expression.
func intLits(n ast.Node) []*big.Int {
	var out []*big.Int
	if n == nil {
		return out
	}
	ast.Inspect(n, func(x ast.Node) bool {
		if bl, ok := x.(*ast.BasicLit); ok && bl.Kind == token.INT {
			v, _ := new(big.Int).SetString(bl.Value, 0)
			out = append(out, v)
		}
		return true
	})
	return out
}

func strParam(name, def, src string, env map[string]string, key string) {
	if s, ok := env[key]; ok {
		add(name, "list N", bytesTerm(s), src, true, "")
	} else {
		add(name, "list N", bytesTerm(def), src, false, "could not re-derive; value the model was written against")
	}
}

func intParam(name string, def int64, src string, v *big.Int, ok bool, typ string) {
	if !ok || v == nil {
		v = big.NewInt(def)
	}
	suffix := "%N"
	if typ == "Z" {
		suffix = "%Z"
	}
	term := "(" + v.String() + ")" + suffix
	if typ == "nat" {
		term = "(N.to_nat " + v.String() + "%N)"
	}
	note := ""
	if !ok {
		note = "could not re-derive; value the model was written against"
	}
	add(name, typ, term, src, ok, note)
}

func ratParam(name string, def string, src string, lit string, ok bool) {
	if !ok {
		lit = def
	}
	r, good := new(big.Rat).SetString(lit)
	if !good {
		r, _ = new(big.Rat).SetString(def)
		ok = false
	}
	note := ""
	if !ok {
		note = "could not re-derive; value the model was written against"
	}
	add(name+"_num", "Z", "("+r.Num().String()+")%Z", src, ok, note)
	add(name+"_den", "Z", "("+r.Denom().String()+")%Z", src, ok, note)
}

func main() {
	repo := flag.String("repo", "/repo", "repository root")
	out := flag.String("out", "", "Params.v path")
	js := flag.String("json", "", "json report path")
	flag.Parse()

	p := func(rel string) *ast.File { return load(filepath.Join(*repo, rel)) }

	// --- internal/parser/field.go, field_parser.go
	env := map[string]string{}
	stringEnv(p("internal/parser/field.go"), env)
	stringEnv(p("internal/parser/field_parser.go"), env)
	strParam("field_name_data", "data", "internal/parser/field.go:FieldNameData", env, "FieldNameData")
	strParam("field_name_event", "event", "internal/parser/field.go:FieldNameEvent", env, "FieldNameEvent")
	strParam("field_name_retry", "retry", "internal/parser/field.go:FieldNameRetry", env, "FieldNameRetry")
	strParam("field_name_id", "id", "internal/parser/field.go:FieldNameID", env, "FieldNameID")
	strParam("field_name_comment", ":", "internal/parser/field.go:FieldNameComment", env, "FieldNameComment")
	strParam("bom", "\xEF\xBB\xBF", "internal/parser/field_parser.go:doRemoveBOM bom", env, "bom")
	v, ok := intConst(p("internal/parser/field.go"), "maxFieldNameLength")
	intParam("max_field_name_length", 5, "internal/parser/field.go:maxFieldNameLength", v, ok, "nat")

	// --- message.go
	stringEnv(p("message.go"), env)
	strParam("field_bytes_data", "data: ", "message.go:fieldBytesData", env, "fieldBytesData")
	strParam("field_bytes_event", "event: ", "message.go:fieldBytesEvent", env, "fieldBytesEvent")
	strParam("field_bytes_retry", "retry: ", "message.go:fieldBytesRetry", env, "fieldBytesRetry")
	strParam("field_bytes_id", "id: ", "message.go:fieldBytesID", env, "fieldBytesID")
	strParam("field_bytes_comment", ": ", "message.go:fieldBytesComment", env, "fieldBytesComment")
	strParam("newline_bytes", "\n", "message.go:newline", env, "newline")
	// var buf [13]byte in writeRetry
	{
		var n *big.Int
		if fd := funcDecl(p("message.go"), "writeRetry"); fd != nil {
			ast.Inspect(fd, func(x ast.Node) bool {
				if at, ok := x.(*ast.ArrayType); ok && at.Len != nil {
					if v, ok := evalInt(at.Len); ok {
						n = v
					}
				}
				return true
			})
		}
		intParam("retry_buf_len", 13, "message.go:writeRetry buf", n, n != nil, "nat")
	}

	// --- replay.go
	{
		var minCount *big.Int
		if fd := funcDecl(p("replay.go"), "NewFiniteReplayer"); fd != nil {
			ast.Inspect(fd, func(x ast.Node) bool {
				if be, ok := x.(*ast.BinaryExpr); ok && be.Op == token.LSS {
					if id, ok := be.X.(*ast.Ident); ok && id.Name == "count" {
						if v, ok := evalInt(be.Y); ok {
							minCount = v
						}
					}
				}
				return true
			})
		}
		intParam("finite_min_count", 2, "replay.go:NewFiniteReplayer count <", minCount, minCount != nil, "nat")
		// Put: grow factor and minimum capacity; doGC: shrink threshold divisor, shrink divisor, minimum
		put := intLits(funcDeclRecv(p("replay.go"), "ValidReplayer", "Put"))
		gc := intLits(funcDeclRecv(p("replay.go"), "ValidReplayer", "doGC"))
		nz := func(xs []*big.Int) (out []*big.Int) { // drop the "== 0" / "> 0" comparisons
			for _, x := range xs {
				if x.Sign() != 0 {
					out = append(out, x)
				}
			}
			return
		}
		put, gc = nz(put), nz(gc)
		okPut := len(put) == 2 // "* 2", "minCap := 4"
		okGC := len(gc) == 3   // "/4", "/ 2", "minCap := 4"
		var grow, minPut, thr, shr, minGC *big.Int
		if okPut {
			grow, minPut = put[0], put[1]
		}
		if okGC {
			thr, shr, minGC = gc[0], gc[1], gc[2]
		}
		intParam("valid_grow_factor", 2, "replay.go:ValidReplayer.Put newCap", grow, okPut, "nat")
		intParam("valid_min_cap_put", 4, "replay.go:ValidReplayer.Put minCap", minPut, okPut, "nat")
		intParam("valid_shrink_threshold_div", 4, "replay.go:doGC count <= len/", thr, okGC, "nat")
		intParam("valid_shrink_div", 2, "replay.go:doGC newCap := len/", shr, okGC, "nat")
		intParam("valid_min_cap_gc", 4, "replay.go:doGC minCap", minGC, okGC, "nat")
	}

	// --- client.go defaults
	{
		var ii *big.Int
		mul, jit := "", ""
		if f := p("client.go"); f != nil {
			ast.Inspect(f, func(x ast.Node) bool {
				vs, ok := x.(*ast.ValueSpec)
				if !ok || len(vs.Names) == 0 || vs.Names[0].Name != "DefaultClient" {
					return true
				}
				ast.Inspect(vs, func(y ast.Node) bool {
					if kv, ok := y.(*ast.KeyValueExpr); ok {
						if id, ok := kv.Key.(*ast.Ident); ok {
							switch id.Name {
							case "InitialInterval":
								if v, ok := evalInt(kv.Value); ok {
									ii = v
								}
							case "Multiplier":
								if bl, ok := kv.Value.(*ast.BasicLit); ok {
									mul = bl.Value
								}
							case "Jitter":
								if bl, ok := kv.Value.(*ast.BasicLit); ok {
									jit = bl.Value
								}
							}
						}
					}
					return true
				})
				return false
			})
		}
		intParam("default_initial_interval", 500000000, "client.go:DefaultClient.Backoff.InitialInterval", ii, ii != nil, "Z")
		ratParam("default_multiplier", "1.5", "client.go:DefaultClient.Backoff.Multiplier", mul, mul != "")
		ratParam("default_jitter", "0.5", "client.go:DefaultClient.Backoff.Jitter", jit, jit != "")
	}

	// --- client.go: the thresholds of mergeDefaults and the "no randomization" flag of nextInterval
	{
		type cmp struct {
			op  token.Token
			val *big.Int
		}
		signed := func(e ast.Expr) (*big.Int, bool) {
			if u, ok := e.(*ast.UnaryExpr); ok && u.Op == token.SUB {
				if v, ok := evalInt(u.X); ok {
					return new(big.Int).Neg(v), true
				}
				return nil, false
			}
			return evalInt(e)
		}
		collect := func(fd *ast.FuncDecl, name string) (out []cmp) {
			if fd == nil {
				return nil
			}
			ast.Inspect(fd, func(x ast.Node) bool {
				be, ok := x.(*ast.BinaryExpr)
				if !ok {
					return true
				}
				last := ""
				switch l := be.X.(type) {
				case *ast.SelectorExpr:
					last = l.Sel.Name
				case *ast.Ident:
					last = l.Name
				}
				if last != name {
					return true
				}
				if v, ok := signed(be.Y); ok {
					out = append(out, cmp{be.Op, v})
				}
				return true
			})
			return out
		}
		md := funcDecl(p("client.go"), "mergeDefaults")
		ini, mul, jit := collect(md, "InitialInterval"), collect(md, "Multiplier"), collect(md, "Jitter")
		okIni := len(ini) == 1 && ini[0].op == token.LEQ
		okMul := len(mul) == 1 && mul[0].op == token.LSS
		okJit := len(jit) == 3 && jit[0].op == token.LEQ && jit[1].op == token.NEQ && jit[2].op == token.GEQ
		pick := func(ok bool, c []cmp, i int) *big.Int {
			if ok {
				return c[i].val
			}
			return nil
		}
		intParam("merge_initial_le", 0, "client.go:mergeDefaults InitialInterval <=", pick(okIni, ini, 0), okIni, "Z")
		intParam("merge_multiplier_lt", 1, "client.go:mergeDefaults Multiplier <", pick(okMul, mul, 0), okMul, "Z")
		intParam("merge_jitter_le", 0, "client.go:mergeDefaults Jitter <=", pick(okJit, jit, 0), okJit, "Z")
		intParam("merge_jitter_flag", -1, "client.go:mergeDefaults Jitter !=", pick(okJit, jit, 1), okJit, "Z")
		intParam("merge_jitter_ge", 1, "client.go:mergeDefaults Jitter >=", pick(okJit, jit, 2), okJit, "Z")
		nj := collect(funcDecl(p("client.go"), "nextInterval"), "jitter")
		okNj := len(nj) == 1 && nj[0].op == token.EQL
		intParam("next_interval_flag", -1, "client.go:nextInterval jitter ==", pick(okNj, nj, 0), okNj, "Z")
	}

	// --- session.go / server.go / client_connection.go
	env2 := map[string]string{}
	stringEnv(p("session.go"), env2)
	stringEnv(p("server.go"), env2)
	strParam("header_last_event_id_server", "Last-Event-Id", "session.go:headerLastEventID", env2, "headerLastEventID")
	strParam("header_content_type", "Content-Type", "session.go:headerContentType", env2, "headerContentType")
	if f := p("session.go"); f != nil {
		// headerContentTypeValue = []string{"text/event-stream"}
		found := false
		ast.Inspect(f, func(x ast.Node) bool {
			if vs, ok := x.(*ast.ValueSpec); ok && len(vs.Names) == 1 && vs.Names[0].Name == "headerContentTypeValue" && len(vs.Values) == 1 {
				if cl, ok := vs.Values[0].(*ast.CompositeLit); ok && len(cl.Elts) == 1 {
					if s, ok := evalString(cl.Elts[0], env2); ok {
						add("content_type_value", "list N", bytesTerm(s), "session.go:headerContentTypeValue", true, "")
						found = true
					}
				}
			}
			return true
		})
		if !found {
			add("content_type_value", "list N", bytesTerm("text/event-stream"), "session.go:headerContentTypeValue", false, "could not re-derive")
		}
	}
	strParam("default_topic", "", "server.go:DefaultTopic", env2, "DefaultTopic")
	{
		hdr, found := "", false
		if fd := funcDecl(p("client_connection.go"), "resetRequest"); fd != nil {
			ast.Inspect(fd, func(x ast.Node) bool {
				if ce, ok := x.(*ast.CallExpr); ok {
					if se, ok := ce.Fun.(*ast.SelectorExpr); ok && se.Sel.Name == "Set" && len(ce.Args) == 2 {
						if s, ok := evalString(ce.Args[0], nil); ok {
							hdr, found = s, true
						}
					}
				}
				return true
			})
		}
		if !found {
			hdr = "Last-Event-ID"
		}
		add("header_last_event_id_client", "list N", bytesTerm(hdr), "client_connection.go:resetRequest", found, "")
	}
	// retry parsing bit size in event.go
	{
		var bits *big.Int
		if fd := funcDecl(p("event.go"), "read"); fd != nil {
			ast.Inspect(fd, func(x ast.Node) bool {
				if ce, ok := x.(*ast.CallExpr); ok {
					if se, ok := ce.Fun.(*ast.SelectorExpr); ok && (se.Sel.Name == "ParseUint" || se.Sel.Name == "ParseInt") && len(ce.Args) == 3 {
						if v, ok := evalInt(ce.Args[2]); ok {
							bits = v
							if se.Sel.Name == "ParseInt" { // signed: value range is bits-1, and signs are accepted
								add("retry_parse_signed", "bool", "true", "event.go:read retry", true, "")
							} else {
								add("retry_parse_signed", "bool", "false", "event.go:read retry", true, "")
							}
						}
					}
				}
				return true
			})
		}
		if bits == nil {
			add("retry_parse_signed", "bool", "false", "event.go:read retry", false, "could not re-derive")
		}
		intParam("retry_parse_bits", 63, "event.go:read retry ParseUint bitSize", bits, bits != nil, "N")
	}

	// --- bufio/scan.go of the toolchain in use
	{
		scan := load(filepath.Join(runtime.GOROOT(), "src", "bufio", "scan.go"))
		v, ok := intConst(scan, "MaxScanTokenSize")
		intParam("max_scan_token_size", 65536, "GOROOT/src/bufio/scan.go:MaxScanTokenSize", v, ok, "N")
		v, ok = intConst(scan, "startBufSize")
		intParam("start_buf_size", 4096, "GOROOT/src/bufio/scan.go:startBufSize", v, ok, "N")
		v, ok = intConst(scan, "maxConsecutiveEmptyReads")
		if !ok {
			v, ok = intConst(load(filepath.Join(runtime.GOROOT(), "src", "bufio", "bufio.go")), "maxConsecutiveEmptyReads")
		}
		intParam("max_consecutive_empty_reads", 100, "GOROOT/src/bufio/scan.go:maxConsecutiveEmptyReads", v, ok, "nat")
	}

	// --- server.go ServeHTTP: the two http.Error replies (C16)
	{
		status := load(filepath.Join(runtime.GOROOT(), "src", "net", "http", "status.go"))
		type reply struct {
			msg    string
			msgOK  bool
			code   *big.Int
			codeOK bool
		}
		var replies []reply
		if fd := funcDeclRecv(p("server.go"), "Server", "ServeHTTP"); fd != nil {
			ast.Inspect(fd, func(x ast.Node) bool {
				ce, ok := x.(*ast.CallExpr)
				if !ok || len(ce.Args) != 3 {
					return true
				}
				se, ok := ce.Fun.(*ast.SelectorExpr)
				if !ok || se.Sel.Name != "Error" {
					return true
				}
				if id, ok := se.X.(*ast.Ident); !ok || id.Name != "http" {
					return true
				}
				var r reply
				r.msg, r.msgOK = evalString(ce.Args[1], env2)
				if v, ok := evalInt(ce.Args[2]); ok {
					r.code, r.codeOK = v, true
				} else if sel, ok := ce.Args[2].(*ast.SelectorExpr); ok {
					r.code, r.codeOK = intConst(status, sel.Sel.Name)
				}
				replies = append(replies, r)
				return true
			})
		}
		for len(replies) < 2 {
			replies = append(replies, reply{})
		}
		if replies[0].msgOK {
			add("serve_unsupported_message", "list N", bytesTerm(replies[0].msg), "server.go:ServeHTTP first http.Error", true, "")
		} else {
			add("serve_unsupported_message", "list N", bytesTerm("Server-sent events unsupported"), "server.go:ServeHTTP first http.Error", false, "could not re-derive; value the model was written against")
		}
		intParam("serve_unsupported_status", 500, "server.go:ServeHTTP first http.Error (net/http/status.go)", replies[0].code, replies[0].codeOK, "N")
		intParam("serve_provider_error_status", 500, "server.go:ServeHTTP second http.Error (net/http/status.go)", replies[1].code, replies[1].codeOK, "N")
	}

	var sb strings.Builder
	sb.WriteString("(* GENERATED by verif-params from /repo's working tree on every run. Do not edit. *)\n")
	sb.WriteString("From Coq Require Import List NArith ZArith.\nImport ListNotations.\n\n")
	for _, q := range params {
		fmt.Fprintf(&sb, "(* %s%s *)\nDefinition %s : %s := %s.\n", q.Source, map[bool]string{true: "", false: "  [NOT RE-DERIVED]"}[q.OK], q.Name, q.Type, q.Coq)
	}
	if *out != "" {
		old, _ := os.ReadFile(*out)
		if string(old) != sb.String() {
			if err := os.WriteFile(*out, []byte(sb.String()), 0o644); err != nil {
				panic(err)
			}
		}
	} else {
		fmt.Print(sb.String())
	}
	if *js != "" {
		sort.SliceStable(params, func(i, j int) bool { return params[i].Name < params[j].Name })
		b, _ := json.MarshalIndent(params, "", " ")
		os.WriteFile(*js, b, 0o644)
	}
}

func funcDeclRecv(f *ast.File, recv, name string) ast.Node {
	if f == nil {
		return nil
	}
	for _, d := range f.Decls {
		if fd, ok := d.(*ast.FuncDecl); ok && fd.Name.Name == name && fd.Recv != nil && len(fd.Recv.List) == 1 {
			t := fd.Recv.List[0].Type
			if st, ok := t.(*ast.StarExpr); ok {
				t = st.X
			}
			if id, ok := t.(*ast.Ident); ok && id.Name == recv {
				return fd
			}
		}
	}
	return nil
}
