module verifharness

go 1.22

require github.com/tmaxmax/go-sse v0.0.0

replace github.com/tmaxmax/go-sse => /repo
