// Package val is the exchange value understood by the OCaml model driver:
// n<dec> | z[-]<dec> | x<hex> | ( v v ... )
package val

import (
	"encoding/hex"
	"fmt"
	"strconv"
	"strings"
)

// V is a number (K='n' unsigned, K='z' signed), a byte string (K='x') or a list (K='(').
type V struct {
	K  byte
	Nv uint64
	Zv int64
	Bv []byte
	Lv []V
}

func N(n uint64) V { return V{K: 'n', Nv: n} }
func Int(n int) V {
	if n < 0 {
		panic("val.Int: negative")
	}
	return V{K: 'n', Nv: uint64(n)}
}
func Z(z int64) V      { return V{K: 'z', Zv: z} }
func B(b []byte) V     { return V{K: 'x', Bv: b} }
func S(s string) V     { return V{K: 'x', Bv: []byte(s)} }
func L(items ...V) V   { return V{K: '(', Lv: items} }
func List(items []V) V { return V{K: '(', Lv: items} }
func Bool(b bool) V {
	if b {
		return N(1)
	}
	return N(0)
}
func Opt(v V, present bool) V {
	if present {
		return L(v)
	}
	return L()
}
func Strs(ss []string) V {
	l := make([]V, len(ss))
	for i, s := range ss {
		l[i] = S(s)
	}
	return List(l)
}

// accessors (total, like the Coq side)
func (v V) At(i int) V {
	if v.K == '(' && i < len(v.Lv) {
		return v.Lv[i]
	}
	return L()
}
func (v V) Len() int      { return len(v.Lv) }
func (v V) Items() []V    { return v.Lv }
func (v V) Bytes() []byte { return v.Bv }
func (v V) Str() string   { return string(v.Bv) }
func (v V) Num() uint64   { return v.Nv }
func (v V) Int() int      { return int(v.Nv) }
func (v V) Signed() int64 {
	if v.K == 'n' {
		return int64(v.Nv)
	}
	return v.Zv
}
func (v V) Truth() bool   { return v.K == 'n' && v.Nv != 0 }
func (v V) Present() bool { return v.K == '(' && len(v.Lv) > 0 }
func (v V) Strs() []string {
	out := make([]string, len(v.Lv))
	for i, x := range v.Lv {
		out[i] = x.Str()
	}
	return out
}

func (v V) write(sb *strings.Builder) {
	switch v.K {
	case 'n':
		sb.WriteByte('n')
		sb.WriteString(strconv.FormatUint(v.Nv, 10))
	case 'z':
		sb.WriteByte('z')
		sb.WriteString(strconv.FormatInt(v.Zv, 10))
	case 'x':
		sb.WriteByte('x')
		sb.WriteString(hex.EncodeToString(v.Bv))
	default:
		sb.WriteByte('(')
		for i, x := range v.Lv {
			if i > 0 {
				sb.WriteByte(' ')
			}
			x.write(sb)
		}
		sb.WriteByte(')')
	}
}

func String(v V) string {
	var sb strings.Builder
	v.write(&sb)
	return sb.String()
}

func (v V) String() string { return String(v) }

// Parse reads one value.
func Parse(s string) (V, error) {
	p := &parser{s: s}
	v, err := p.value()
	if err != nil {
		return V{}, err
	}
	p.skip()
	if p.i != len(p.s) {
		return V{}, fmt.Errorf("trailing input at %d", p.i)
	}
	return v, nil
}

type parser struct {
	s string
	i int
}

func (p *parser) skip() {
	for p.i < len(p.s) && p.s[p.i] == ' ' {
		p.i++
	}
}
func (p *parser) token() string {
	st := p.i
	for p.i < len(p.s) && p.s[p.i] != ' ' && p.s[p.i] != ')' && p.s[p.i] != '(' {
		p.i++
	}
	return p.s[st:p.i]
}
func (p *parser) value() (V, error) {
	p.skip()
	if p.i >= len(p.s) {
		return V{}, fmt.Errorf("unexpected end")
	}
	switch c := p.s[p.i]; c {
	case '(':
		p.i++
		items := []V{}
		for {
			p.skip()
			if p.i >= len(p.s) {
				return V{}, fmt.Errorf("unclosed list")
			}
			if p.s[p.i] == ')' {
				p.i++
				return List(items), nil
			}
			x, err := p.value()
			if err != nil {
				return V{}, err
			}
			items = append(items, x)
		}
	case 'n':
		p.i++
		n, err := strconv.ParseUint(p.token(), 10, 64)
		return N(n), err
	case 'z':
		p.i++
		z, err := strconv.ParseInt(p.token(), 10, 64)
		return Z(z), err
	case 'x':
		p.i++
		b, err := hex.DecodeString(p.token())
		return B(b), err
	default:
		return V{}, fmt.Errorf("bad char %q at %d", c, p.i)
	}
}
